/-
L-pair, lockstep: two lockstep sessions (prediction window 0) side by side. Same construction as
`Proofs/Pair.lean`: a session moves by a local input, a call (`advance_lockstep_frame`, the game
executing the requests) or the arrival of the next frame of a player the other session owns, read
off the owner's ring. Invariant: both lockstep invariants with the glue invariant, a non-negative
spectator cursor, and the receiver's stream of every player a prefix of the owner's. Conclusion:
every row either game has simulated is the full row of the OWNERS' real inputs — lockstep never
simulates a frame before everybody's input for it is there, so the two timelines coincide on every
frame both have simulated (`lkpair_agree`).
-/
import GgrsModel.Proofs.Pair
import GgrsModel.Proofs.LockstepNet

namespace Ggrs
open InputQueue

inductive LkHalf : (P2P × TLState) → (P2P × TLState) → (P2P × TLState) → Prop
  | localInput (s : P2P) (t : TLState) (b : P2P × TLState) (handle : Nat) (input : Input) :
      LkHalf (s, t) b ((s.addLocalInput handle input).1, t)
  | tick (s s' : P2P) (t : TLState) (b : P2P × TLState) (now : Nat) (reqs' : List Request) :
      s.advanceLockstepFrame now [] = .ok (s', reqs') → LkHalf (s, t) b (s', execReqs t reqs')
  | arrive (s s' : P2P) (t : TLState) (b : P2P × TLState) (now : Nat) (f : Nat) (v : Input) (player : Nat)
      (handles : List Nat) (addr : Nat) :
      player ∈ b.1.localPlayerHandles → player ∉ s.localPlayerHandles →
      player < b.1.sync.queues.length → player < s.sync.queues.length →
      (f : Int) = (rget s.localConnectStatus player).lastFrame + 1 →
      (f : Int) ≤ (rget b.1.sync.queues player).lastAddedFrame →
      (rget b.1.sync.queues player).lastAddedFrame < (f : Int) + INPUT_QUEUE_LENGTH →
      rget (rget b.1.sync.queues player).inputs (f % INPUT_QUEUE_LENGTH) = ⟨(f : Int), v⟩ →
      s.handleEventCore now (.input ⟨(f : Int), v⟩ player) handles addr = .ok s' →
      LkHalf (s, t) b (s', t)

inductive LkPStep : ((P2P × TLState) × (P2P × TLState)) → ((P2P × TLState) × (P2P × TLState)) → Prop
  | left (a a' b : P2P × TLState) : LkHalf a b a' → LkPStep (a, b) (a', b)
  | right (a b b' : P2P × TLState) : LkHalf b a b' → LkPStep (a, b) (a, b')

inductive LkPStar : ((P2P × TLState) × (P2P × TLState)) → ((P2P × TLState) × (P2P × TLState)) → Prop
  | refl (x) : LkPStar x x
  | step (x y z) : LkPStar x y → LkPStep y z → LkPStar x z

structure LkPairInv (a b : P2P × TLState) (ghA ghB : Ghost) : Prop where
  la : LkInv a.1 ghA a.2
  ga : GlueInv a.1 ghA
  na : 0 ≤ a.1.nextSpectatorFrame
  lb : LkInv b.1 ghB b.2
  gb : GlueInv b.1 ghB
  nb : 0 ≤ b.1.nextSpectatorFrame
  ab : LinkRel a.1 b.1 ghA ghB
  ba : LinkRel b.1 a.1 ghB ghA

theorem LkPairInv.symm {a b : P2P × TLState} {ghA ghB : Ghost} (h : LkPairInv a b ghA ghB) : LkPairInv b a ghB ghA :=
  ⟨h.lb, h.gb, h.nb, h.la, h.ga, h.na, h.ba, h.ab⟩

theorem lkhalf_inv (a b a' : P2P × TLState) (ghA ghB : Ghost) (h : LkPairInv a b ghA ghB) (hs : LkHalf a b a') :
    ∃ ghA', LkPairInv a' b ghA' ghB := by
  cases hs with
  | localInput s t b handle input =>
    obtain ⟨l, hl⟩ := P2P.addLocalInput_pending s handle input
    refine ⟨ghA, ?_⟩
    show LkPairInv ((s.addLocalInput handle input).1, t) b ghA ghB
    rw [hl]
    exact ⟨⟨SessInv_pending s ghA t [] l h.la.sess, h.la.idle, h.la.full, h.la.rows⟩, GlueInv_pending s ghA l h.ga, h.na,
      h.lb, h.gb, h.nb, h.ab, h.ba⟩
  | tick s s' t b now reqs' hadv =>
    obtain ⟨gh1, gh', _, _, _, _, hl', hg', hn', hsp, hpre, _, _, _, _, _, _, hoth, hh⟩ :=
      lockstepTick_netX s s' ghA t now reqs' h.la h.ga h.na hadv
    have hlp : s'.localPlayerHandles = s.localPlayerHandles := by unfold P2P.localPlayerHandles; rw [hh]
    refine ⟨gh', hl', hg', hn', h.lb, h.gb, h.nb, ?_, ?_⟩
    · intro p hp hn
      have hn'' : p ∉ s.localPlayerHandles := by rw [← hlp]; exact hn
      show PrefixOf (gh'.specs p).vals (ghB.specs p).vals
      rw [hoth p hn'']
      exact h.ab p hp hn''
    · intro p hp hn
      have hp' : p ∈ s.localPlayerHandles := by rw [← hlp]; exact hp
      show PrefixOf (ghB.specs p).vals (gh'.specs p).vals
      rw [hsp]
      exact (h.ba p hp' hn).trans (hpre p)
  | arrive s s' t b now f v player handles addr hown hnl hpb hps hnext hle hwin hslot hev =>
    obtain ⟨gh', hinv', hg', _, _, hh, hsp⟩ :=
      glue_remoteInputX s s' ghA t now ⟨(f : Int), v⟩ player handles addr h.la.sess h.ga hnl (Int.natCast_nonneg _) hev
    obtain ⟨_, _, _, hcur, _⟩ := remoteInput_spec s s' ghA t [] now ⟨(f : Int), v⟩ player handles addr h.la.sess hnl
      (Int.natCast_nonneg _) hev
    have hq := remoteInput_nq s s' now ⟨(f : Int), v⟩ player handles addr hev
    have hlp : s'.localPlayerHandles = s.localPlayerHandles := by unfold P2P.localPlayerHandles; rw [hh]
    obtain ⟨hd, hlu, hlen⟩ := h.la.sess.remote player hps hnl
    have hfl : f = (ghA.specs player).vals.length := by
      have : (f : Int) = ((ghA.specs player).vals.length : Int) := by rw [hnext, ← hlu, hlen]
      exact_mod_cast this
    have hring := (h.lb.sess.tinv.sync.all player hpb).ring
    have hla : (rget b.1.sync.queues player).lastAddedFrame = ((ghB.specs player).vals.length : Int) - 1 := hring.lastAdded
    have hfB : f < (ghB.specs player).vals.length := by
      have : (f : Int) ≤ ((ghB.specs player).vals.length : Int) - 1 := by rw [← hla]; exact hle
      omega
    have hwB : (ghB.specs player).vals.length ≤ f + INPUT_QUEUE_LENGTH := by
      have : ((ghB.specs player).vals.length : Int) - 1 < (f : Int) + INPUT_QUEUE_LENGTH := by rw [← hla]; exact hwin
      omega
    have hval : (ghB.specs player).vals.getD f 0 = v := by
      have e := hring.slots f hfB hwB
      have e' : rget (rget b.1.sync.queues player).inputs (f % INPUT_QUEUE_LENGTH) = ⟨(f : Int), (ghB.specs player).vals.getD f 0⟩ := e
      rw [hslot] at e'
      exact (congrArg PlayerInput.input e').symm
    have hnew : (gh'.specs player).vals = (ghA.specs player).vals ++ [v] := by
      rw [hsp player, if_pos rfl]
      show ((ghA.specs player).submit (f : Int) v).1.vals = _
      rw [hfl]
      exact submit_next (ghA.specs player) v hd hlen
    have hgrow : ∀ p, (ghA.specs p).vals.length ≤ (gh'.specs p).vals.length := by
      intro p
      rw [hsp p]
      by_cases hpp : p = player
      · rw [if_pos hpp]; exact (submit_facts (ghA.specs p) _ _).1
      · rw [if_neg hpp]; exact Nat.le_refl _
    have hlk : LkInv s' gh' t := by
      refine ⟨hinv', remoteInput_idle s s' now ⟨(f : Int), v⟩ player handles addr h.la.idle hev, ?_, ?_⟩
      · intro p hp
        have h1 : s.sync.currentFrame ≤ ((ghA.specs p).vals.length : Int) := h.la.full p (by rw [← hq]; exact hp)
        have h2 : ((ghA.specs p).vals.length : Int) ≤ ((gh'.specs p).vals.length : Int) := by exact_mod_cast hgrow p
        show s'.sync.currentFrame ≤ ((gh'.specs p).vals.length : Int)
        rw [hcur]
        exact Int.le_trans h1 h2
      · intro g hg
        rw [hq]
        exact h.la.rows g (by rw [← hcur]; exact hg)
    have hnsf : s'.nextSpectatorFrame = s.nextSpectatorFrame := P2P.remoteInput_nsf s s' now _ player handles addr hev
    refine ⟨gh', hlk, hg', by rw [hnsf]; exact h.na, h.lb, h.gb, h.nb, ?_, ?_⟩
    · intro p hp hn
      have hn' : p ∉ s.localPlayerHandles := by rw [← hlp]; exact hn
      show PrefixOf (gh'.specs p).vals (ghB.specs p).vals
      by_cases hpp : p = player
      · subst hpp
        rw [hnew]
        exact prefixOf_snoc _ _ v (h.ab p hp hn') (by rw [← hfl]; exact hfB) (by rw [← hfl]; exact hval)
      · rw [hsp p, if_neg hpp]
        exact h.ab p hp hn'
    · intro p hp hn
      have hp' : p ∈ s.localPlayerHandles := by rw [← hlp]; exact hp
      have hpp : p ≠ player := fun e => hnl (e ▸ hp')
      show PrefixOf (ghB.specs p).vals (gh'.specs p).vals
      rw [hsp p, if_neg hpp]
      exact h.ba p hp' hn

def LkPPInv (x : (P2P × TLState) × (P2P × TLState)) : Prop := ∃ ghA ghB, LkPairInv x.1 x.2 ghA ghB

theorem LkPPInv_step (x y : (P2P × TLState) × (P2P × TLState)) (h : LkPPInv x) (hs : LkPStep x y) : LkPPInv y := by
  obtain ⟨ghA, ghB, h⟩ := h
  cases hs with
  | left a a' b hh =>
    obtain ⟨ghA', h'⟩ := lkhalf_inv a b a' ghA ghB h hh
    exact ⟨ghA', ghB, h'⟩
  | right a b b' hh =>
    obtain ⟨ghB', h'⟩ := lkhalf_inv b a b' ghB ghA h.symm hh
    exact ⟨ghA, ghB', h'.symm⟩

/-- **L-pair, lockstep.** -/
theorem LkPPInv_run (x y : (P2P × TLState) × (P2P × TLState)) (h : LkPPInv x) (hr : LkPStar x y) : LkPPInv y := by
  induction hr with
  | refl => exact h
  | step y z _ hs ih => exact LkPPInv_step y z ih hs

/-- Two lockstep sessions after any run: every frame both have simulated carries, for every player
owned by one of them, the same input in both games' timelines — the owner's. -/
theorem lkpair_agree (x y : (P2P × TLState) × (P2P × TLState)) (h0 : LkPPInv x) (hrun : LkPStar x y) :
    ∀ p, ((p ∈ y.1.1.localPlayerHandles ∧ p ∉ y.2.1.localPlayerHandles) ∨
          (p ∈ y.2.1.localPlayerHandles ∧ p ∉ y.1.1.localPlayerHandles)) →
      p < y.1.1.sync.queues.length → p < y.2.1.sync.queues.length → ∀ f : Nat,
      (f : Int) < y.1.1.sync.currentFrame → (f : Int) < y.2.1.sync.currentFrame →
      ((y.1.2.R f).getD p default).1 = ((y.2.2.R f).getD p default).1 := by
  obtain ⟨ghA, ghB, h⟩ := LkPPInv_run x y h0 hrun
  intro p hown hpA hpB f hfA hfB
  have tA := h.la.timeline f hfA
  have tB := h.lb.timeline f hfB
  have fullA : f < (ghA.specs p).vals.length := by have := h.la.full p hpA; omega
  have fullB : f < (ghB.specs p).vals.length := by have := h.lb.full p hpB; omega
  rw [tA, tB, rowOf_getD ghA _ f p hpA, rowOf_getD ghB _ f p hpB]
  show (ghA.specs p).vals.getD f 0 = (ghB.specs p).vals.getD f 0
  rcases hown with ⟨ha, hnb⟩ | ⟨hb, hna⟩
  · exact ((h.ba p ha hnb).2 f fullB)
  · exact ((h.ab p hb hna).2 f fullA).symm

end Ggrs
