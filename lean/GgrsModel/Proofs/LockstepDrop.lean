/-
L-drop (lockstep): a lockstep session (prediction window 0) with players that drop. Nothing is ever
predicted, saved, loaded or re-simulated; every frame handed to the game carries, per player, the
real input with status Confirmed — or, for a player marked disconnected as of an earlier frame, the
blank input with status Disconnected. A lockstep session never runs beyond a connected player's
last frame, so a drop never needs a re-simulation (`disconnect_frame` stays NULL).
-/
import GgrsModel.Proofs.DropSpec
import GgrsModel.Proofs.Lockstep

namespace Ggrs
open InputQueue

/-- With no re-simulation scheduled, pending disconnects are settled as they are: nobody newly
marked has a last frame behind the current frame. -/
theorem SessInvD_resolve (s : P2P) (gh : DGhost) (t0 : TLState) (reqs : List Request) (st0 : List ConnStatus)
    (h : SessInvD s gh t0 reqs st0) (hdf : s.disconnectFrame = NULL_FRAME)
    (hclean : ∀ p, p < s.sync.queues.length → (rget s.sync.queues p).firstIncorrectFrame = NULL_FRAME) :
    SessInvD s gh t0 reqs s.localConnectStatus := by
  have hnew : ∀ p, p < s.sync.queues.length → (rget st0 p).disconnected = false →
      (rget s.localConnectStatus p).disconnected = true → s.sync.currentFrame ≤ (rget st0 p).lastFrame + 1 := by
    intro p hp h0 h1
    rcases h.pend p hp h0 h1 with hx | ⟨hx, _⟩
    · exact hx
    · exact absurd hdf hx
  refine ⟨TInvD_marks s.pred s.sync st0 s.localConnectStatus gh t0 reqs h.tinv h.marks hnew, Marks.refl _,
    h.asked, ?_, h.status, h.remote, h.localAlive, ?_, h.dfok, fun p hp _ => hclean p hp, h.saved⟩
  · intro p _ h0 h1
    rw [h0] at h1; cases h1
  · intro p hp hg
    have := h.safe p hp hg
    refine ⟨this.1, this.2.1, ?_⟩
    intro q hq hc
    exact this.2.2 q hq (conn_of_marks h.marks q hc)

/-- The row a lockstep session hands to the game at frame `f`. -/
def rowOfD (gh : DGhost) (st : List ConnStatus) (N f : Nat) : List (Input × InputStatus) :=
  (List.range N).map fun p =>
    if Skip (rget st p) (f : Int) then (0, .disconnected) else ((gh.specs p).vals.getD f 0, .confirmed)

theorem rowOfD_length (gh : DGhost) (st : List ConnStatus) (N f : Nat) : (rowOfD gh st N f).length = N := by
  simp [rowOfD]

theorem rowOfD_getD (gh : DGhost) (st : List ConnStatus) (N f p : Nat) (hp : p < N) :
    (rowOfD gh st N f).getD p default =
      if Skip (rget st p) (f : Int) then (0, .disconnected) else ((gh.specs p).vals.getD f 0, .confirmed) := by
  simp [rowOfD, List.getD_eq_getElem?_getD, hp]

/-- A lockstep session with dropped players: the session invariant with nothing pending, every queue
idle, no re-simulation scheduled, every connected player's queue holding every simulated frame,
and every simulated row labelled Disconnected exactly for the players marked as of an earlier
frame. -/
structure LkInvD (s : P2P) (gh : DGhost) (t : TLState) : Prop where
  sess : SessInvD s gh t [] s.localConnectStatus
  idle : AllIdle s.sync.queues
  df : s.disconnectFrame = NULL_FRAME
  full : ∀ p, p < s.sync.queues.length → (rget s.localConnectStatus p).disconnected = false →
    s.sync.currentFrame ≤ ((gh.specs p).vals.length : Int)
  rows : ∀ f : Nat, (f : Int) < s.sync.currentFrame → (t.R f).length = s.sync.queues.length ∧
    ∀ p, p < s.sync.queues.length → ((t.R f).getD p default).2 =
      if Skip (rget s.localConnectStatus p) (f : Int) then InputStatus.disconnected else InputStatus.confirmed

/-- The frame-consuming step of lockstep with dead players: nothing, or exactly one AdvanceFrame on
the row `rowOfD`. -/
theorem lockstepAdvance_specD (s s' : P2P) (gh : DGhost) (t : TLState) (conf : Frame) (reqs' : List Request)
    (h : LkInvD s gh t) (hconf : s.confirmedFrame = .ok conf)
    (hstep : s.lockstepAdvance s.sync.currentFrame conf [] = .ok (s', reqs')) :
    (reqs' = [] ∧ s' = s) ∨
    ∃ (c : Nat) (gh' : DGhost), s.sync.currentFrame = (c : Int) ∧
      reqs' = [.advance (rowOfD gh s.localConnectStatus s.sync.queues.length c)] ∧
      gh'.specs = gh.specs ∧ gh'.gone = gh.gone ∧ SessInvD s' gh' t reqs' s'.localConnectStatus ∧
      AllIdle s'.sync.queues ∧
      s'.sync.currentFrame = s.sync.currentFrame + 1 ∧ s'.sync.queues = s.sync.queues ∧
      s'.localConnectStatus = s.localConnectStatus ∧ s'.disconnectFrame = s.disconnectFrame ∧
      s'.handles = s.handles ∧ s'.pred = s.pred ∧
      (∀ p, p < s.sync.queues.length → (rget s.localConnectStatus p).disconnected = false →
        (c : Int) + 1 ≤ ((gh.specs p).vals.length : Int)) := by
  unfold P2P.lockstepAdvance at hstep
  by_cases hge : conf ≥ s.sync.currentFrame
  · rw [if_pos hge] at hstep
    right
    obtain ⟨cis, hcis, hstep⟩ := bind_ok hstep
    obtain ⟨inputs, hmap, hstep⟩ := bind_ok hstep
    have := pure_ok hstep
    simp only [Prod.mk.injEq] at this
    obtain ⟨hs', hr'⟩ := this
    have hsi := h.sess
    have hcur0 := hsi.tinv.sync.cur
    obtain ⟨c, hc⟩ : ∃ c : Nat, s.sync.currentFrame = (c : Int) := ⟨s.sync.currentFrame.toNat, by omega⟩
    have hN : s.localConnectStatus.length = s.sync.queues.length := hsi.tinv.sync.nq
    -- every queue that is asked holds frame c
    have hflen : ∀ p, p < s.sync.queues.length → ¬ Skip (rget s.localConnectStatus p) (c : Int) →
        c < (gh.specs p).vals.length := by
      intro p hp hsk
      by_cases hd : (rget s.localConnectStatus p).disconnected = true
      · have hnl : p ∉ s.localPlayerHandles := fun hl => by
          have := hsi.localAlive p hl; rw [hd] at this; cases this
        obtain ⟨_, hlu, hlen'⟩ := hsi.remote p hp hnl
        have : ¬ (rget s.localConnectStatus p).lastFrame < (c : Int) := fun hx => hsk ⟨hd, hx⟩
        omega
      · have hcn : (rget s.localConnectStatus p).disconnected = false := by simpa using hd
        have hng : ¬ gh.gone p := fun hg => by
          have := (hsi.tinv.sync.gone p hp hg).dead; rw [hcn] at this; cases this
        have h1 := confirmedFrame_leD s conf hconf p (by rw [hN]; exact hp) hcn
        have h2 := hsi.status p hp hng
        rw [lastAdded_of_QI (hsi.tinv.sync.live p hp hng)] at h2
        omega
    have hring : ∀ p, p < s.sync.queues.length → Refines (rget s.sync.queues p).strip (gh.specs p) := by
      intro p hp
      by_cases hg : gh.gone p
      · exact (hsi.tinv.sync.gone p hp hg).ring
      · exact (hsi.tinv.sync.live p hp hg).ring
    -- the confirmed inputs
    unfold SyncLayer.confirmedInputs at hcis
    obtain ⟨l, hout, hlen, hpt⟩ := confirmedInputsLoopD _ _ _ 0 [] cis hcis
    simp only [List.reverse_nil, List.nil_append] at hout
    subst hout
    have hcisv : ∀ p, p < s.sync.queues.length → rget cis p =
        if Skip (rget s.localConnectStatus p) (c : Int) then PlayerInput.blank NULL_FRAME
        else ⟨(c : Int), (gh.specs p).vals.getD c 0⟩ := by
      intro p hp
      obtain ⟨ha, hb⟩ := hpt p (by rw [hN]; exact hp)
      rw [hc] at ha hb
      by_cases hsk : Skip (rget s.localConnectStatus p) (c : Int)
      · rw [if_pos hsk]; exact ha hsk
      · rw [if_neg hsk]
        obtain ⟨_, hk⟩ := hb hsk
        rw [Nat.zero_add] at hk
        exact confirmedInput_ok _ _ (hring p hp) c (hflen p hp hsk) _ hk
    -- the row handed to the game
    obtain ⟨hil, hip⟩ := mapM_ok _ _ _ hmap
    have hzl : cis.zipIdx.length = s.sync.queues.length := by rw [List.length_zipIdx, hlen, hN]
    have hrow : inputs = rowOfD gh s.localConnectStatus s.sync.queues.length c := by
      apply List.ext_getElem (by rw [hil, hzl, rowOfD_length])
      intro p h1 h2
      have hp : p < s.sync.queues.length := by rw [hil, hzl] at h1; exact h1
      have hk := hip p (by rw [hzl]; exact hp)
      rw [rget_zipIdx _ _ (by rw [hlen, hN]; exact hp), hcisv p hp] at hk
      unfold P2P.lockstepInput at hk
      obtain ⟨_, hk⟩ := ensure_bind_ok hk
      have hk := pure_ok hk
      rw [← rget_eq_getElem _ _ h1, ← hk]
      simp only [rowOfD, List.getElem_map, List.getElem_range]
      by_cases hsk : Skip (rget s.localConnectStatus p) (c : Int)
      · simp [hsk, PlayerInput.blank]
      · have hne : ((c : Int) == NULL_FRAME) = false := by
          simp only [beq_eq_false_iff_ne, ne_eq, NULL_FRAME]; omega
        simp [hsk, hne]
    subst hs'
    -- the new ghost timeline
    let gh' : DGhost := { gh with T := fun p => upd (gh.T p) c ((rowOfD gh s.localConnectStatus s.sync.queues.length c).getD p default).1 }
    have hexec : execReqs t ([] ++ [Request.advance inputs]) = ⟨t.cur + 1, upd t.R t.cur.toNat inputs⟩ := rfl
    have htc : t.cur = (c : Int) := by have := hsi.tinv.exec; simp only [execReqs, List.foldl_nil] at this; rw [this, hc]
    have htn : t.cur.toNat = c := by rw [htc]; simp
    have hfullc : ∀ p, p < s.sync.queues.length → (rget s.localConnectStatus p).disconnected = false →
        (c : Int) + 1 ≤ ((gh.specs p).vals.length : Int) := by
      intro p hp hcn
      have hns : ¬ Skip (rget s.localConnectStatus p) (c : Int) := fun hsk => by
        have := hsk.1; rw [hcn] at this; cases this
      have := hflen p hp hns
      omega
    refine ⟨c, gh', hc, by rw [← hr', hrow]; rfl, rfl, rfl, ?_, h.idle, rfl, rfl, rfl, rfl, rfl, rfl, hfullc⟩
    rw [← hr']
    refine ⟨⟨⟨by show 0 ≤ s.sync.currentFrame + 1; omega, hN, ?_, ?_⟩, ?_, ?_, ?_⟩, Marks.refl _, ?_, ?_, hsi.status,
      hsi.remote, hsi.localAlive, hsi.safe, hsi.dfok, hsi.deadClean, hsi.saved⟩
    · -- gone
      intro p hp hg
      have hp : p < s.sync.queues.length := hp
      have hgo := hsi.tinv.sync.gone p hp hg
      show GoneOk (rget s.sync.queues p) (rget s.localConnectStatus p) (gh.specs p) (upd (gh.T p) c _) (s.sync.currentFrame + 1)
      refine ⟨hgo.dead, by have := hgo.lt; omega, hgo.clean, ?_, hgo.ring⟩
      intro f hf hlen'
      have hlt := hgo.lt
      rw [hc] at hlt
      rw [upd_ne _ _ _ _ (by omega)]
      exact hgo.right f hf hlen'
    · -- live
      intro p hp hng
      have hp : p < s.sync.queues.length := hp
      show QI s.pred (rget s.sync.queues p) (gh.specs p) (gh.hists p) (upd (gh.T p) c _)
        (pcur (rget s.localConnectStatus p) (s.sync.currentFrame + 1))
      rw [hc]
      have hq := hsi.tinv.sync.live p hp hng
      rw [hc] at hq
      by_cases hsk : Skip (rget s.localConnectStatus p) (c : Int)
      · rw [pcur_skip_succ _ _ hsk]
        refine QI_congr_T s.pred _ _ _ _ _ _ hq ?_
        intro f hf
        rw [pcur_skip _ _ hsk] at hf
        have := hsk.2
        rw [upd_ne _ _ _ _ (by omega)]
      · rw [pcur_noskip_succ _ _ hsk]
        rw [pcur_noskip _ _ hsk] at hq
        rw [rowOfD_getD _ _ _ _ _ hp, if_neg hsk]
        exact QI_consume s.pred _ _ _ _ c hq (h.idle p hp) (hflen p hp hsk)
    · rw [hexec]; show t.cur + 1 = s.sync.currentFrame + 1; rw [htc, hc]
    · intro p hp f
      have hp : p < s.sync.queues.length := hp
      rw [hexec]
      show upd (gh.T p) c _ f = ((upd t.R t.cur.toNat inputs f).getD p default).1
      rw [htn]
      by_cases hfc : f = c
      · subst hfc
        rw [upd_self, upd_self, hrow]
      · rw [upd_ne _ _ _ _ hfc, upd_ne _ _ _ _ hfc]
        have := hsi.tinv.rows p hp f
        simp only [execReqs, List.foldl_nil] at this
        exact this
    · -- deadRows
      intro p hp hd f hlf hfc
      have hp : p < s.sync.queues.length := hp
      have hd : (rget s.localConnectStatus p).disconnected = true := hd
      have hlf : (rget s.localConnectStatus p).lastFrame < (f : Int) := hlf
      rw [hexec]
      show (upd t.R t.cur.toNat inputs f).getD p default = (0, .disconnected)
      rw [htn]
      have hfc' : (f : Int) < (c : Int) + 1 := by
        have : (s.sync.advanceFrame).currentFrame = s.sync.currentFrame + 1 := rfl
        rw [this, hc] at hfc; exact hfc
      by_cases hfe : f = c
      · subst hfe
        rw [upd_self, hrow, rowOfD_getD _ _ _ _ _ hp, if_pos ⟨hd, hlf⟩]
      · rw [upd_ne _ _ _ _ hfe]
        have := hsi.tinv.deadRows p hp hd f hlf (by rw [hc]; omega)
        simp only [execReqs, List.foldl_nil] at this
        exact this
    · -- asked
      intro p hp hcn _
      have hp : p < s.sync.queues.length := hp
      have hcn : (rget s.localConnectStatus p).disconnected = false := hcn
      right
      show s.sync.currentFrame + 1 ≤ (rget s.sync.queues p).lastAddedFrame + 1
      have hng : ¬ gh.gone p := fun hg => by
        have := (hsi.tinv.sync.gone p hp hg).dead; rw [hcn] at this; cases this
      rw [lastAdded_of_QI (hsi.tinv.sync.live p hp hng), hc]
      have := hfullc p hp hcn
      omega
    · intro p _ h0 h1
      rw [h0] at h1; cases h1
  · rw [if_neg hge] at hstep
    have := pure_ok hstep
    simp only [Prod.mk.injEq] at this
    exact Or.inl ⟨this.2.symm, this.1.symm⟩

theorem skip_congr {a b : ConnStatus} (cur : Int) (hd : a.disconnected = b.disconnected)
    (hl : a.disconnected = true → a = b) : Skip a cur ↔ Skip b cur := by
  unfold Skip
  by_cases h : a.disconnected = true
  · rw [← hl h]
  · constructor
    · intro hx; exact absurd hx.1 h
    · intro hx; exact absurd (hd ▸ hx.1) h

/-- The bookkeeping after the frame was (or was not) consumed. -/
theorem lockstepTail_specD (s s3 : P2P) (sy4 : SyncLayer) (gh : DGhost) (t : TLState) (now : Nat) (conf : Frame)
    (h : LkInvD s gh t) (hconf : s.confirmedFrame = .ok conf)
    (hspec : s.sendConfirmedInputsToSpectators now (min conf (s.sync.currentFrame - 1)) = .ok s3)
    (hset : s3.sync.setLastConfirmedFrame (min conf (s.sync.currentFrame - 1)) s3.sparse = .ok sy4) :
    ∃ gh', LkInvD { s3 with sync := sy4 } gh' t ∧ gh'.specs = gh.specs ∧ sy4.currentFrame = s.sync.currentFrame ∧
      sy4.queues.length = s.sync.queues.length ∧ s3.localConnectStatus = s.localConnectStatus ∧
      s3.handles = s.handles ∧ s3.pred = s.pred := by
  have hc3 := P2P.sendConfirmed_sameCore _ _ _ _ hspec
  have hs3 : SessInvD s3 gh t [] s3.localConnectStatus := by
    have := SessInvD_congr s s3 gh t [] _ h.sess hc3
    rw [← hc3.statuses] at this
    exact this
  have hN : s.localConnectStatus.length = s.sync.queues.length := h.sess.tinv.sync.nq
  have hclean3 : ∀ p, p < s3.sync.queues.length → (rget s3.sync.queues p).firstIncorrectFrame = NULL_FRAME := by
    rw [hc3.sync]; intro p hp; exact (h.idle p hp).2.1
  have hright3 : TimelineRightD s3.sync s3.localConnectStatus gh :=
    timelineRightD_of_clean s3.pred _ _ gh hs3.tinv.sync hclean3
  obtain ⟨gh4, hs4, hsp4, _, _, hcur4, hql4, _⟩ := setLastConfirmed_specD s3 sy4 gh t [] _ hs3 hclean3
    (by rw [hc3.disconnectFrame]; exact h.df) hright3
    (fun p hp hc => by
      rw [hc3.statuses] at hc ⊢
      rw [hc3.sync] at hp
      have := confirmedFrame_leD s conf hconf p (by rw [hN]; exact hp) hc
      exact Int.le_trans (Int.min_le_left _ _) this) hset
  have hi4 := setLastConfirmed_idle _ _ _ _ (by rw [hc3.sync]; exact h.idle) hset
  refine ⟨gh4, ⟨hs4, hi4, by show s3.disconnectFrame = _; rw [hc3.disconnectFrame]; exact h.df, ?_, ?_⟩, hsp4,
    by rw [hcur4, hc3.sync], by rw [hql4, hc3.sync], hc3.statuses, hc3.handles, hc3.pred⟩
  · intro p hp hc
    show sy4.currentFrame ≤ _
    rw [hcur4, hc3.sync, hsp4]
    have hc' : (rget s.localConnectStatus p).disconnected = false := by
      have : (rget s3.localConnectStatus p).disconnected = false := hc
      rwa [hc3.statuses] at this
    exact h.full p (by rw [← hc3.sync, ← hql4]; exact hp) hc'
  · intro f hf
    have hq : sy4.queues.length = s.sync.queues.length := by rw [hql4, hc3.sync]
    show (t.R f).length = sy4.queues.length ∧ ∀ p, p < sy4.queues.length →
      ((t.R f).getD p default).2 = if Skip (rget s3.localConnectStatus p) (f : Int) then _ else _
    rw [hq, hc3.statuses]
    exact h.rows f (by have : sy4.currentFrame = s.sync.currentFrame := by rw [hcur4, hc3.sync]
                       rw [← this]; exact hf)

/-- **One lockstep `advance_frame` with dropped players.** The request list is empty or a single
AdvanceFrame carrying the row `rowOfD`; no SaveGameState, no LoadGameState, ever. -/
theorem lockstepTick_specD (s s' : P2P) (gh : DGhost) (t : TLState) (now : Nat) (reqs' : List Request)
    (h : LkInvD s gh t) (hadv : s.advanceLockstepFrame now [] = .ok (s', reqs')) :
    ∃ gh', LkInvD s' gh' (execReqs t reqs') ∧
      ((reqs' = [] ∧ s'.sync.currentFrame = s.sync.currentFrame) ∨
       (∃ c : Nat, s.sync.currentFrame = (c : Int) ∧
         reqs' = [.advance (rowOfD gh' s.localConnectStatus s.sync.queues.length c)] ∧
         s'.sync.currentFrame = s.sync.currentFrame + 1)) ∧
      s'.sync.queues.length = s.sync.queues.length ∧ s'.handles = s.handles ∧
      (∀ p, (rget s'.localConnectStatus p).disconnected = (rget s.localConnectStatus p).disconnected) ∧
      (∀ p, (rget s.localConnectStatus p).disconnected = true → rget s'.localConnectStatus p = rget s.localConnectStatus p) := by
  unfold P2P.advanceLockstepFrame at hadv
  obtain ⟨s1, hreg, hadv⟩ := bind_ok hadv
  obtain ⟨c1, hc1, hadv⟩ := bind_ok hadv
  obtain ⟨r2, hstep, hadv⟩ := bind_ok hadv
  obtain ⟨s2, reqs2⟩ := r2
  simp only at hadv
  obtain ⟨c2, hc2, hadv⟩ := bind_ok hadv
  obtain ⟨s3, hspec, hadv⟩ := bind_ok hadv
  obtain ⟨sy4, hset, hadv⟩ := bind_ok hadv
  have := pure_ok hadv
  simp only [Prod.mk.injEq] at this
  obtain ⟨hs', hr'⟩ := this
  -- the local inputs
  obtain ⟨gh1, hs1, hk⟩ := registerLocalInputs_specD s s1 gh t [] now h.sess hreg
  have hskip1 : ∀ p (f : Int), Skip (rget s1.localConnectStatus p) f ↔ Skip (rget s.localConnectStatus p) f := by
    intro p f
    apply skip_congr f (hk.flags p)
    intro hd
    exact (hk.deadQ p (by rw [← hk.flags p]; exact hd)).2
  have hl1 : LkInvD s1 gh1 t := by
    refine ⟨hs1, registerLocalInputs_idle s s1 now h.idle hreg, by rw [hk.df]; exact h.df, ?_, ?_⟩
    · intro p hp hc
      rw [hk.cur]
      have := h.full p (by rw [← hk.nq]; exact hp) (by rw [← hk.flags p]; exact hc)
      have := hk.grows p
      omega
    · intro f hf
      rw [hk.nq]
      obtain ⟨a, b⟩ := h.rows f (by rw [← hk.cur]; exact hf)
      refine ⟨a, fun p hp => ?_⟩
      rw [b p hp]
      by_cases hsk : Skip (rget s.localConnectStatus p) (f : Int)
      · rw [if_pos hsk, if_pos ((hskip1 p f).mpr hsk)]
      · rw [if_neg hsk, if_neg (fun hx => hsk ((hskip1 p f).mp hx))]
  have hflags1 := hk.flags
  have hdead1 := fun p hd => (hk.deadQ p hd).2
  rcases lockstepAdvance_specD s1 s2 gh1 t c1 reqs2 hl1 hc1 hstep with ⟨hre, hse⟩ |
      ⟨c, gh2, hcc, hre, hsp2, hgo2, hs2, hi2, hcur2, hq2, hst2, hdf2, hh2, hp2, hfull2⟩
  · -- the frame was not consumed
    subst hse
    subst hre
    obtain ⟨gh4, hl4, hsp4, hcur4, hql4, hst4, hh4, _⟩ := lockstepTail_specD s2 s3 sy4 gh1 t now c2 hl1 hc2 hspec hset
    subst hs'
    subst hr'
    refine ⟨gh4, hl4, Or.inl ⟨rfl, by show sy4.currentFrame = _; rw [hcur4, hk.cur]⟩,
      by show sy4.queues.length = _; rw [hql4, hk.nq], by show s3.handles = _; rw [hh4, hk.handles], ?_, ?_⟩
    · intro p; show (rget s3.localConnectStatus p).disconnected = _; rw [hst4]; exact hflags1 p
    · intro p hd; show rget s3.localConnectStatus p = _; rw [hst4]; exact hdead1 p hd
  · -- one frame consumed
    have hs2' := SessInvD_rebase s2 gh2 t reqs2 _ hs2
    have hl2 : LkInvD s2 gh2 (execReqs t reqs2) := by
      refine ⟨hs2', hi2, by rw [hdf2]; exact hl1.df, ?_, ?_⟩
      · intro p hp hc
        rw [hcur2, hcc, hsp2]
        exact hfull2 p (by rw [← hq2]; exact hp) (by rw [← hst2]; exact hc)
      · intro f hf
        rw [hq2, hst2]
        rw [hcur2, hcc] at hf
        have htc : t.cur = (c : Int) := by
          have := hs1.tinv.exec; simp only [execReqs, List.foldl_nil] at this; rw [this, hcc]
        have hR : (execReqs t reqs2).R = upd t.R c (rowOfD gh1 s1.localConnectStatus s1.sync.queues.length c) := by
          rw [hre]
          simp only [execReqs, List.foldl_cons, List.foldl_nil, execReq, htc]
          simp
        rw [hR]
        by_cases hfc : f = c
        · subst hfc
          rw [upd_self]
          refine ⟨rowOfD_length _ _ _ _, fun p hp => ?_⟩
          rw [rowOfD_getD _ _ _ _ _ hp]
          split <;> rfl
        · rw [upd_ne _ _ _ _ hfc]
          exact hl1.rows f (by rw [hcc]; omega)
    obtain ⟨gh4, hl4, hsp4, hcur4, hql4, hst4, hh4, _⟩ :=
      lockstepTail_specD s2 s3 sy4 gh2 (execReqs t reqs2) now c2 hl2 hc2 hspec hset
    subst hs'
    subst hr'
    have hrowsame : rowOfD gh1 s1.localConnectStatus s1.sync.queues.length c =
        rowOfD gh4 s.localConnectStatus s.sync.queues.length c := by
      unfold rowOfD
      rw [hk.nq]
      apply List.map_congr_left
      intro p _
      rw [hsp4, hsp2]
      by_cases hsk : Skip (rget s.localConnectStatus p) (c : Int)
      · rw [if_pos hsk, if_pos ((hskip1 p c).mpr hsk)]
      · rw [if_neg hsk, if_neg (fun hx => hsk ((hskip1 p c).mp hx))]
    refine ⟨gh4, hl4, Or.inr ⟨c, by rw [← hk.cur]; exact hcc, by rw [hre, hrowsame],
      by show sy4.currentFrame = _; rw [hcur4, hcur2, hk.cur]⟩,
      by show sy4.queues.length = _; rw [hql4, hq2, hk.nq], by show s3.handles = _; rw [hh4, hh2, hk.handles], ?_, ?_⟩
    · intro p; show (rget s3.localConnectStatus p).disconnected = _; rw [hst4, hst2]; exact hflags1 p
    · intro p hd; show rget s3.localConnectStatus p = _; rw [hst4, hst2]; exact hdead1 p hd

/-! ### arrivals and drops -/

theorem remoteInput_lkD (s s' : P2P) (gh : DGhost) (t : TLState) (now : Nat) (inp : PlayerInput) (player : Nat)
    (handles : List Nat) (addr : Nat) (h : LkInvD s gh t) (hnl : player ∉ s.localPlayerHandles) (h0 : 0 ≤ inp.frame)
    (hev : s.handleEventCore now (.input inp player) handles addr = .ok s') : ∃ gh', LkInvD s' gh' t := by
  obtain ⟨gh', st0', h', _, _, hcur, _, _, hnq, hdf, hgrow, hflags, hdead, _⟩ :=
    remoteInput_specD s s' gh t [] _ now inp player handles addr h.sess hnl h0 hev
  have hidle := remoteInput_idle s s' now inp player handles addr h.idle hev
  have hdf' : s'.disconnectFrame = NULL_FRAME := by rw [hdf]; exact h.df
  have hres := SessInvD_resolve s' gh' t [] st0' h' hdf' (fun p hp => (hidle p hp).2.1)
  refine ⟨gh', ⟨hres, hidle, hdf', ?_, ?_⟩⟩
  · intro p hp hc
    rw [hcur]
    have := h.full p (by rw [← hnq]; exact hp) (by rw [← hflags p]; exact hc)
    have := hgrow p
    omega
  · intro f hf
    rw [hnq]
    obtain ⟨a, b⟩ := h.rows f (by rw [← hcur]; exact hf)
    refine ⟨a, fun p hp => ?_⟩
    rw [b p hp]
    have hsk : Skip (rget s'.localConnectStatus p) (f : Int) ↔ Skip (rget s.localConnectStatus p) (f : Int) :=
      skip_congr (f : Int) (hflags p) (fun hd => hdead p (by rw [← hflags p]; exact hd))
    by_cases hx : Skip (rget s.localConnectStatus p) (f : Int)
    · rw [if_pos hx, if_pos (hsk.mpr hx)]
    · rw [if_neg hx, if_neg (fun hy => hx (hsk.mp hy))]

/-- What a drop (any number of `disconnect_player_at_frame` calls for the players of one endpoint,
each with the common last frame `L`) leaves of the lockstep invariant. -/
theorem drop_lkD (s s' : P2P) (gh : DGhost) (t : TLState) (eph : List Nat) (L : Frame) (h : LkInvD s gh t)
    (hinv : SessInvD s' gh t [] s.localConnectStatus) (hsync : s'.sync = s.sync)
    (hdf : s.sync.currentFrame ≤ L + 1 → s'.disconnectFrame = s.disconnectFrame)
    (hmono : ∀ g, (rget s.localConnectStatus g).disconnected = true → (rget s'.localConnectStatus g).disconnected = true)
    (hlast : ∀ g, (rget s'.localConnectStatus g).lastFrame = (rget s.localConnectStatus g).lastFrame)
    (hoth : ∀ g, g ∉ eph → rget s'.localConnectStatus g = rget s.localConnectStatus g)
    (hrem : ∀ g, g ∈ eph → g ∉ s.localPlayerHandles)
    (hsame : ∀ g, g ∈ eph → g < s.sync.queues.length → (rget s.localConnectStatus g).disconnected = false →
      (rget s.localConnectStatus g).lastFrame = L)
    (hone : ∃ g, g ∈ eph ∧ g < s.sync.queues.length ∧ (rget s.localConnectStatus g).disconnected = false) :
    LkInvD s' gh t := by
  -- the session has not run beyond the dropped players' last frame
  have hcurL : s.sync.currentFrame ≤ L + 1 := by
    obtain ⟨g, hg, hgn, hgc⟩ := hone
    have hf := h.full g hgn hgc
    obtain ⟨_, hlu, hlen⟩ := h.sess.remote g hgn (hrem g hg)
    rw [hsame g hg hgn hgc] at hlu
    omega
  have hdf' : s'.disconnectFrame = NULL_FRAME := by rw [hdf hcurL]; exact h.df
  have hidle : AllIdle s'.sync.queues := by rw [hsync]; exact h.idle
  have hres := SessInvD_resolve s' gh t [] _ hinv hdf' (fun p hp => (hidle p hp).2.1)
  refine ⟨hres, hidle, hdf', ?_, ?_⟩
  · intro p hp hc
    rw [hsync] at hp ⊢
    have hc' : (rget s.localConnectStatus p).disconnected = false := by
      cases hx : (rget s.localConnectStatus p).disconnected with
      | false => rfl
      | true => have := hmono p hx; rw [hc] at this; cases this
    exact h.full p hp hc'
  · intro f hf
    rw [hsync] at hf ⊢
    obtain ⟨a, b⟩ := h.rows f hf
    refine ⟨a, fun p hp => ?_⟩
    rw [b p hp]
    by_cases hin : p ∈ eph
    · by_cases hc : (rget s.localConnectStatus p).disconnected = false
      · -- newly marked (or still connected): not skipped at any simulated frame, before or after
        have hL := hsame p hin hp hc
        have hns : ¬ Skip (rget s.localConnectStatus p) (f : Int) := fun hx => by
          have := hx.1; rw [hc] at this; cases this
        have hns' : ¬ Skip (rget s'.localConnectStatus p) (f : Int) := fun hx => by
          have := hx.2
          rw [hlast, hL] at this
          omega
        rw [if_neg hns, if_neg hns']
      · have hd : (rget s.localConnectStatus p).disconnected = true := by simpa using hc
        have hsk : Skip (rget s'.localConnectStatus p) (f : Int) ↔ Skip (rget s.localConnectStatus p) (f : Int) := by
          unfold Skip
          rw [hlast, hd, hmono p hd]
        by_cases hx : Skip (rget s.localConnectStatus p) (f : Int)
        · rw [if_pos hx, if_pos (hsk.mpr hx)]
        · rw [if_neg hx, if_neg (fun hy => hx (hsk.mp hy))]
    · rw [hoth p hin]

/-- A lockstep session and the game it drives, with drops. -/
inductive LkXStep : (P2P × TLState) → (P2P × TLState) → Prop
  | remoteInput (s s' : P2P) (t : TLState) (now : Nat) (inp : PlayerInput) (player : Nat) (handles : List Nat)
      (addr : Nat) : player ∉ s.localPlayerHandles → 0 ≤ inp.frame →
      s.handleEventCore now (.input inp player) handles addr = .ok s' → LkXStep (s, t) (s', t)
  | tick (s s' : P2P) (t : TLState) (now : Nat) (reqs' : List Request) :
      s.advanceLockstepFrame now [] = .ok (s', reqs') → LkXStep (s, t) (s', execReqs t reqs')
  | dropApi (s s' : P2P) (t : TLState) (now handle addr : Nat) (ep : Endpoint) :
      s.playerType handle = some (.remote addr) → P2P.findEp s.remotes addr = some ep → handle ∈ ep.handles →
      (∀ g, g ∈ ep.handles → g ∉ s.localPlayerHandles) → handle < s.sync.queues.length →
      -1 ≤ (rget s.localConnectStatus handle).lastFrame →
      (∀ g, g ∈ ep.handles → g < s.sync.queues.length → (rget s.localConnectStatus g).disconnected = false →
        (rget s.localConnectStatus g).lastFrame = (rget s.localConnectStatus handle).lastFrame) →
      s.disconnectPlayer now handle = .ok (s', .ok ()) → LkXStep (s, t) (s', t)
  | dropEvent (s s' : P2P) (t : TLState) (now addr : Nat) (hs : List Nat) (ep : Endpoint) (L : Frame) :
      hs ≠ [] → (∀ h, h ∈ hs → s.playerType h = some (.remote addr)) → P2P.findEp s.remotes addr = some ep →
      (∀ h, h ∈ hs → h ∈ ep.handles) → (∀ g, g ∈ ep.handles → g ∉ s.localPlayerHandles) →
      (∀ h, h ∈ hs → h < s.numPlayers ∧ h < s.sync.queues.length) →
      (∀ h, h ∈ hs → (rget s.localConnectStatus h).disconnected = false) → -1 ≤ L →
      (∀ g, g ∈ ep.handles → g < s.sync.queues.length → (rget s.localConnectStatus g).disconnected = false →
        (rget s.localConnectStatus g).lastFrame = L) →
      s.handleEventCore now .disconnected hs addr = .ok s' → LkXStep (s, t) (s', t)
  /-- the user submits a local player's input for the coming call (`add_local_input`) -/
  | localInput (s : P2P) (t : TLState) (handle : Nat) (input : Input) :
      LkXStep (s, t) ((s.addLocalInput handle input).1, t)

inductive LkXStar : (P2P × TLState) → (P2P × TLState) → Prop
  | refl (x : P2P × TLState) : LkXStar x x
  | step (x y z : P2P × TLState) : LkXStar x y → LkXStep y z → LkXStar x z

theorem LkInvD_step (x y : P2P × TLState) (h : ∃ gh, LkInvD x.1 gh x.2) (hs : LkXStep x y) :
    ∃ gh, LkInvD y.1 gh y.2 := by
  obtain ⟨gh, h⟩ := h
  cases hs with
  | remoteInput s s' t now inp player handles addr hnl h0 hev =>
    exact remoteInput_lkD s s' gh t now inp player handles addr h hnl h0 hev
  | tick s s' t now reqs' hadv =>
    obtain ⟨gh', h', _⟩ := lockstepTick_specD s s' gh t now reqs' h hadv
    exact ⟨gh', h'⟩
  | localInput s t handle input =>
    obtain ⟨l, hl⟩ := P2P.addLocalInput_pending s handle input
    show ∃ gh, LkInvD (s.addLocalInput handle input).1 gh t
    rw [hl]
    exact ⟨gh, SessInvD_pending s gh t [] _ l h.sess, h.idle, h.df, h.full, h.rows⟩
  | dropApi s s' t now handle addr ep hpt hep hin hrem hlt hl0 hsame hcall =>
    unfold P2P.disconnectPlayer at hcall
    rw [hpt] at hcall
    simp only at hcall
    by_cases hc : (rget s.localConnectStatus handle).disconnected = true
    · simp only [hc, Bool.not_true, Bool.false_eq_true, if_false] at hcall
      have := pure_ok hcall
      simp only [Prod.mk.injEq] at this
      cases this.2
    · have hc' : (rget s.localConnectStatus handle).disconnected = false := by simpa using hc
      simp only [hc', Bool.not_false, if_true] at hcall
      obtain ⟨s1, hdrop, hcall⟩ := bind_ok hcall
      have := pure_ok hcall
      simp only [Prod.mk.injEq] at this
      rw [← this.1]
      obtain ⟨h', hsy, _, _, hmono, _, hlast, hdf, hoth, _, _⟩ := drop_specD s s1 gh t [] _ now handle addr _ ep h.sess hpt hep hrem
        ⟨hlt, hc', rfl⟩ hl0 hsame hdrop
      exact ⟨gh, drop_lkD s s1 gh t ep.handles _ h h' hsy hdf hmono hlast hoth hrem hsame ⟨handle, hin, hlt, hc'⟩⟩
  | dropEvent s s' t now addr hs ep L hne hpt hep hsub hrem hlt hconn hL0 hsame hev =>
    unfold P2P.handleEventCore at hev
    simp only at hev
    obtain ⟨s1, hfold, hev⟩ := bind_ok hev
    have := pure_ok hev
    subst this
    have cfg : DropCfg s hs addr ep.handles L s.localConnectStatus :=
      ⟨hpt, ⟨ep, hep, rfl⟩, hsub, hrem, hlt,
        fun x hx => ⟨hconn x hx, hsame x (hsub x hx) (hlt x hx).2 (hconn x hx)⟩, hL0, hsame⟩
    obtain ⟨h', hsy, _, _, hmono, _, hlast, hdf, hoth, _, _⟩ := dropFold_specD gh t [] _ now addr ep.handles L hs s s1 h.sess cfg hfold
    obtain ⟨x0, hx0⟩ := List.exists_mem_of_ne_nil hs hne
    have hl := drop_lkD s s1 gh t ep.handles L h h' hsy hdf hmono hlast hoth hrem hsame
      ⟨x0, hsub x0 hx0, (hlt x0 hx0).2, hconn x0 hx0⟩
    exact ⟨gh, ⟨SessInvD_congr s1 _ gh t [] _ hl.sess ⟨rfl, rfl, rfl, rfl, rfl, rfl, rfl, rfl, rfl⟩, hl.idle, hl.df, hl.full, hl.rows⟩⟩

/-- **L-drop, lockstep.** -/
theorem LkInvD_run (x y : P2P × TLState) (h : ∃ gh, LkInvD x.1 gh x.2) (hr : LkXStar x y) :
    ∃ gh, LkInvD y.1 gh y.2 := by
  induction hr with
  | refl => exact h
  | step y z _ hs ih => exact LkInvD_step y z ih hs

/-- A freshly built lockstep session satisfies the invariant. -/
theorem LkInvD_init (s : P2P) (R : Nat → List (Input × InputStatus)) (n : Nat)
    (hq : s.sync.queues = List.replicate n InputQueue.new) (hst : s.localConnectStatus = List.replicate n {})
    (hc : s.sync.currentFrame = 0) (hdf : s.disconnectFrame = NULL_FRAME) :
    LkInvD s ⟨fun _ => {}, fun _ => [], fun p f => ((R f).getD p default).1, fun _ => False⟩ ⟨0, R⟩ := by
  refine ⟨SessInvD_of_SessInv s _ ⟨0, R⟩ [] (SessInv_init s R n hq hst hc) hdf, ?_, hdf, ?_, ?_⟩
  · intro p hp
    have : rget s.sync.queues p = InputQueue.new := by
      rw [hq] at hp ⊢
      simp only [List.length_replicate] at hp
      simp [rget, List.getD_eq_getElem?_getD, List.getElem?_replicate, hp]
    rw [this]; exact idle_new
  · intro p _ _
    rw [hc]; exact Int.natCast_nonneg _
  · intro f hf
    rw [hc] at hf; omega

/-- What the invariant says about the game's timeline: every simulated row is `rowOfD` — real inputs,
Confirmed, and (blank, Disconnected) for every player marked as of an earlier frame. -/
theorem LkInvD.timeline {s : P2P} {gh : DGhost} {t : TLState} (h : LkInvD s gh t) :
    ∀ f : Nat, (f : Int) < s.sync.currentFrame → t.R f = rowOfD gh s.localConnectStatus s.sync.queues.length f := by
  intro f hf
  obtain ⟨hl, hst⟩ := h.rows f hf
  apply List.ext_getElem (by rw [hl, rowOfD_length])
  intro p h1 h2
  have hp : p < s.sync.queues.length := by rw [hl] at h1; exact h1
  have hrow := h.sess.tinv.rows p hp f
  simp only [execReqs, List.foldl_nil] at hrow
  rw [← rget_eq_getElem _ _ h1, ← rget_eq_getElem _ _ h2]
  have e : rget (t.R f) p = (t.R f).getD p default := rfl
  have e2 : rget (rowOfD gh s.localConnectStatus s.sync.queues.length f) p =
      (rowOfD gh s.localConnectStatus s.sync.queues.length f).getD p default := rfl
  rw [e, e2, rowOfD_getD _ _ _ _ _ hp]
  by_cases hsk : Skip (rget s.localConnectStatus p) (f : Int)
  · rw [if_pos hsk]
    have := h.sess.tinv.deadRows p hp hsk.1 f hsk.2 hf
    simp only [execReqs, List.foldl_nil] at this
    exact this
  · rw [if_neg hsk]
    have hright := timelineRightD_of_clean s.pred s.sync s.localConnectStatus gh h.sess.tinv.sync
      (fun q hq => (h.idle q hq).2.1)
    have hflen : f < (gh.specs p).vals.length := by
      by_cases hd : (rget s.localConnectStatus p).disconnected = true
      · have hnl : p ∉ s.localPlayerHandles := fun hl' => by
          have := h.sess.localAlive p hl'; rw [hd] at this; cases this
        obtain ⟨_, hlu, hlen'⟩ := h.sess.remote p hp hnl
        have : ¬ (rget s.localConnectStatus p).lastFrame < (f : Int) := fun hx => hsk ⟨hd, hx⟩
        omega
      · have := h.full p hp (by simpa using hd)
        omega
    have hval := hright p hp f hf hflen (fun hd => by
      have : ¬ (rget s.localConnectStatus p).lastFrame < (f : Int) := fun hx => hsk ⟨hd, hx⟩
      omega)
    have hs2 := hst p hp
    rw [if_neg hsk] at hs2
    exact Prod.ext (by rw [← hrow, hval]) hs2

end Ggrs
