/-
L-delay with dropped players: `set_input_delay` for a local player as a step of the world with
drops. With it that world contains every step of the earlier session worlds.
-/
import GgrsModel.Proofs.GlueDrop
import GgrsModel.Proofs.DelayStep
import GgrsModel.Proofs.DropSpec

namespace Ggrs
open InputQueue

theorem delayFillLoop_fi (li : PlayerInput) : ∀ (n : Nat) (q q' : InputQueue) (fills fills' : List PlayerInput),
    delayFillLoop li n q fills = .ok (q', fills') →
    q'.firstIncorrectFrame = q.firstIncorrectFrame ∨ q.lastAddedFrame + 1 ≤ q'.firstIncorrectFrame := by
  intro n
  induction n with
  | zero => intro q q' f f' h; simp only [delayFillLoop] at h; cases h; exact Or.inl rfl
  | succ k ih =>
    intro q q' f f' h
    simp only [delayFillLoop] at h
    obtain ⟨q1, h1, h⟩ := bind_ok h
    obtain ⟨_, _, _, _, _, hla, hn, hp⟩ := addByFrame_fields q q1 li (q.lastAddedFrame + 1) h1
    have h1fi : q1.firstIncorrectFrame = q.firstIncorrectFrame ∨ q1.firstIncorrectFrame = q.lastAddedFrame + 1 := by
      by_cases hpf : q.prediction.frame = NULL_FRAME
      · exact Or.inl (hn hpf).2
      · have := (hp hpf).2.1
        rw [this]
        split
        · exact Or.inr rfl
        · exact Or.inl rfl
    rcases ih q1 q' _ f' h with h2 | h2
    · rcases h1fi with h3 | h3
      · exact Or.inl (h2.trans h3)
      · exact Or.inr (by rw [h2, h3]; exact Int.le_refl _)
    · exact Or.inr (by rw [hla] at h2; omega)

theorem setFrameDelay_fi (q q' : InputQueue) (d : Nat) (fills : List PlayerInput)
    (h : q.setFrameDelay d = .ok (q', fills)) :
    q'.firstIncorrectFrame = q.firstIncorrectFrame ∨ q.lastAddedFrame + 1 ≤ q'.firstIncorrectFrame := by
  unfold InputQueue.setFrameDelay at h
  simp only at h
  split at h
  · have := pure_ok h
    simp only [Prod.mk.injEq] at this
    rw [← this.1]; exact Or.inl rfl
  · exact delayFillLoop_fi _ _ ({ q with frameDelay := d } : InputQueue) q' _ _ h

/-- The fold over the fills leaves `disconnect_frame` (and the rest of what `SameCore` names besides
the statuses) alone. -/
theorem fillsFold_df (h : Nat) : ∀ (l : List PlayerInput) (s s' : P2P),
    l.foldlM (fun s (f : PlayerInput) =>
      if f.frame != NULL_FRAME then
        (s.setStatus h fun c => { c with lastFrame := f.frame }).queueOutgoingLocalInput h f
      else pure s) s = .ok s' →
    s'.disconnectFrame = s.disconnectFrame ∧ s'.pendingLocalInputs = s.pendingLocalInputs ∧
      s'.numPlayers = s.numPlayers := by
  intro l
  induction l with
  | nil => intro s s' hf; simp only [List.foldlM_nil] at hf; have := pure_ok hf; subst this; exact ⟨rfl, rfl, rfl⟩
  | cons x xs ih =>
    intro s s' hf
    simp only [List.foldlM_cons] at hf
    obtain ⟨s1, h1, hf⟩ := bind_ok hf
    obtain ⟨a, b, c⟩ := ih s1 s' hf
    split at h1
    · have hc := P2P.queueOutgoing_sameCore _ _ _ _ h1
      exact ⟨a.trans hc.disconnectFrame, b.trans hc.pending, c.trans hc.numPlayers⟩
    · have := pure_ok h1; subst this; exact ⟨a, b, c⟩

/-- **`set_input_delay` for a local player, with dropped players around.** -/
theorem setInputDelay_specD (s s' : P2P) (gh : DGhost) (t0 : TLState) (reqs : List Request) (st0 : List ConnStatus)
    (now handle delay : Nat) (r : Except GgrsError Unit)
    (h : SessInvD s gh t0 reqs st0) (hg : GlueInv s gh.g) (hloc : handle ∈ s.localPlayerHandles)
    (hp : handle < s.sync.queues.length) (hset : s.setInputDelay now handle delay = .ok (s', r)) :
    ∃ gh' st0', SessInvD s' gh' t0 reqs st0' ∧ GlueInv s' gh'.g ∧
      s'.sync.currentFrame = s.sync.currentFrame ∧ s'.sync.cells = s.sync.cells ∧ s'.sparse = s.sparse ∧
      s'.sync.lastSavedFrame = s.sync.lastSavedFrame ∧ s'.nextSpectatorFrame = s.nextSpectatorFrame ∧
      s'.disconnectFrame = s.disconnectFrame ∧ s'.sync.queues.length = s.sync.queues.length ∧
      (∀ p, (gh.specs p).vals.length ≤ (gh'.specs p).vals.length) ∧
      (∀ p, (rget s'.localConnectStatus p).disconnected = (rget s.localConnectStatus p).disconnected) ∧
      (∀ p, (rget s.localConnectStatus p).disconnected = true → rget s'.localConnectStatus p = rget s.localConnectStatus p) := by
  unfold P2P.setInputDelay at hset
  have hpt : s.playerType handle = some .localPlayer ∨ ∀ r', s.setInputDelay now handle delay = .ok (s', r') → s' = s := by
    cases hx : s.playerType handle with
    | none => right; intro r' h'; unfold P2P.setInputDelay at h'; rw [hx] at h'; have := pure_ok h'; simp only [Prod.mk.injEq] at this; exact this.1.symm
    | some ty =>
      cases ty with
      | localPlayer => exact Or.inl rfl
      | remote a => right; intro r' h'; unfold P2P.setInputDelay at h'; rw [hx] at h'; have := pure_ok h'; simp only [Prod.mk.injEq] at this; exact this.1.symm
      | spectator a => right; intro r' h'; unfold P2P.setInputDelay at h'; rw [hx] at h'; have := pure_ok h'; simp only [Prod.mk.injEq] at this; exact this.1.symm
  rcases hpt with hpt | hpt
  rotate_left
  · have := hpt r (by unfold P2P.setInputDelay; exact hset)
    subst this
    exact ⟨gh, st0, h, hg, rfl, rfl, rfl, rfl, rfl, rfl, rfl, fun _ => Nat.le_refl _, fun _ => rfl, fun _ _ => rfl⟩
  rw [hpt] at hset
  simp only at hset
  obtain ⟨r1, hsd, hset⟩ := bind_ok hset
  obtain ⟨sy, fills⟩ := r1
  simp only at hset
  obtain ⟨s2, hfold, hset⟩ := bind_ok hset
  obtain ⟨s3, hsend, hset⟩ := bind_ok hset
  have := pure_ok hset
  simp only [Prod.mk.injEq] at this
  obtain ⟨hs', _⟩ := this
  subst hs'
  unfold SyncLayer.setFrameDelay at hsd
  obtain ⟨_, hsd⟩ := ensure_bind_ok hsd
  obtain ⟨r2, hq, hsd⟩ := bind_ok hsd
  obtain ⟨q', fl⟩ := r2
  simp only at hsd
  have := pure_ok hsd
  simp only [Prod.mk.injEq] at this
  obtain ⟨hsy, hfl⟩ := this
  subst hsy; subst hfl
  -- the queue of a local (hence connected, hence live) player
  have hnd : (rget s.localConnectStatus handle).disconnected = false := h.localAlive handle hloc
  have hng : ¬ gh.gone handle := fun hg' => by
    have hd0 := (h.tinv.sync.gone handle hp hg').dead
    have := h.marks.mono handle hd0
    rw [hnd] at this; cases this
  have hc0 : (rget st0 handle).disconnected = false := conn_of_marks h.marks handle hnd
  have hq0 := h.tinv.sync.live handle hp hng
  have hpc : pcur (rget st0 handle) s.sync.currentFrame = s.sync.currentFrame := by
    unfold pcur; rw [if_neg (by rw [hc0]; simp)]
  rw [hpc] at hq0
  obtain ⟨hqi, hask, hfills⟩ := QI_setDelay s.pred _ q' _ _ _ _ delay fl hq0 (h.asked handle hp hnd) hq
  obtain ⟨k, hvals, hfl2, hk0⟩ := setDelay_facts (gh.specs handle) delay
  rw [hfl2] at hfills
  subst hfills
  have hn1 : s.localConnectStatus.length = s.sync.queues.length := by rw [h.marks.len]; exact h.tinv.sync.nq
  have hpst : handle < s.localConnectStatus.length := by rw [hn1]; exact hp
  have htop := hg.top handle hloc hp
  have htop' : (rget s.localConnectStatus handle).lastFrame = ((gh.specs handle).vals.length : Int) - 1 := htop
  have hlen' : (((gh.specs handle).setDelay delay).1.vals.length : Int) = (gh.specs handle).vals.length + k := by
    rw [hvals]; simp
  let gd : Ghost := ghDelay gh.g handle delay
  have hsp : gd.specs handle = ((gh.specs handle).setDelay delay).1 := by simp [gd, ghDelay, DGhost.g]
  have hspo : ∀ p, p ≠ handle → gd.specs p = gh.specs p := by intro p hp; simp [gd, ghDelay, DGhost.g, hp]
  have hpre : ∀ p, PrefixOf (gh.g.specs p).vals (gd.specs p).vals := by
    intro p
    by_cases hpe : p = handle
    · subst hpe; rw [hsp]; show PrefixOf (gh.specs p).vals _; rw [hvals]; exact PrefixOf_append _ _
    · rw [hspo p hpe]; exact PrefixOf.refl _
  have ho1 : OutOk ({ s with sync := { s.sync with queues := rset s.sync.queues handle q' } } : P2P) gd :=
    OutOk_congr s _ _ (OutOk_grow s gh.g _ hg.out hpre) rfl rfl
  obtain ⟨ho2, f1, f2, f3, f4, f5, f6, f7, f8⟩ := fillsFold_spec gd handle (gh.specs handle).lastVal k
    ((gh.specs handle).vals.length : Int) _ s2 (Int.natCast_nonneg _) ho1 hloc
    (fun i hi => by
      rw [hsp, hvals]
      have e : (((gh.specs handle).vals.length : Int) + (i : Int)).toNat = (gh.specs handle).vals.length + i := by omega
      rw [e]
      exact ⟨by simp; omega, getD_append_replicate _ _ _ _ hi⟩) hfold
  obtain ⟨fdf, fpend, fnp⟩ := fillsFold_df handle _ _ s2 hfold
  have hc3 := P2P.sendReady_sameCore _ _ _ hsend
  have hn3 := P2P.sendReady_nsf _ _ _ hsend
  -- the new last frame of the player
  let lf : Frame := if k = 0 then (rget s.localConnectStatus handle).lastFrame else ((gh.specs handle).vals.length : Int) + k - 1
  have hst2 : s2.localConnectStatus = rset s.localConnectStatus handle ⟨false, lf⟩ := by
    rw [f8]
    show (if k = 0 then s.localConnectStatus else rset s.localConnectStatus handle _) = _
    by_cases hk : k = 0
    · simp only [hk, if_true, lf]
      have : (⟨false, (rget s.localConnectStatus handle).lastFrame⟩ : ConnStatus) = rget s.localConnectStatus handle := by
        cases hx : rget s.localConnectStatus handle with
        | mk d l => rw [hx] at hnd; simp only at hnd; subst hnd; rfl
      rw [this, rset_rget_self _ _ hpst]
    · simp only [hk, if_false, lf]
      rw [connStatus_eta _ _ hnd]
  have hfi := setFrameDelay_fi _ q' delay _ hq
  have hupd := SessInvD_update s gh t0 reqs st0 h handle hp hnd q' ((gh.specs handle).setDelay delay).1 lf hqi hask
    (by simp only [lf]; split
        · exact Int.le_refl _
        · rw [htop']; omega)
    (by rw [lastAdded_of_QI hqi, hlen']
        simp only [lf]
        split
        · rename_i hk; rw [htop', hk]; simp
        · omega)
    (fun hc => absurd hloc hc)
    (by rcases hfi with hx | hx
        · exact Or.inl hx
        · right
          have := h.status handle hp hng
          omega)
  -- put the pieces together
  have hsame : P2P.SameCore
      ({ s with sync := { s.sync with queues := rset s.sync.queues handle q' },
                localConnectStatus := rset s.localConnectStatus handle ⟨false, lf⟩ } : P2P) s3 := by
    refine ⟨by rw [hc3.sync, f1], by rw [hc3.pred, f2], by rw [hc3.statuses, hst2], by rw [hc3.sparse, f4],
      by rw [hc3.maxPrediction, f5], by rw [hc3.handles, f3], by rw [hc3.pending, fpend], by rw [hc3.numPlayers, fnp],
      by rw [hc3.disconnectFrame, fdf]⟩
  have hinv' := SessInvD_congr _ s3 _ t0 reqs _ hupd hsame
  -- the glue invariant
  have hg2 : GlueInv s2 gd := by
    refine ⟨ho2, ?_⟩
    intro p hpl hpq
    have hpl' : p ∈ s.localPlayerHandles := by
      unfold P2P.localPlayerHandles at hpl ⊢; rw [f3] at hpl; exact hpl
    have hpq' : p < s.sync.queues.length := by rw [f1] at hpq; simpa [rset_length] using hpq
    rw [hst2]
    by_cases hpe : p = handle
    · subst hpe
      rw [rget_rset_eq _ _ _ hpst, hsp, hlen']
      show lf = _
      simp only [lf]
      split
      · rename_i hk; rw [htop', hk]; simp
      · omega
    · rw [rget_rset_ne _ _ _ _ (fun e => hpe e.symm), hspo p hpe]
      exact hg.top p hpl' hpq'
  have hg3 : GlueInv s3 gd := by
    unfold P2P.sendReadyOutgoingInputsToRemotes at hsend
    split at hsend
    · have := pure_ok hsend; subst this; exact hg2
    · simp only at hsend
      split at hsend
      · have := pure_ok hsend; subst this; exact hg2
      · exact (sendReadyLoop_glue _ now _ s2 s3 hg2 hsend).2.1
  refine ⟨_, _, hinv', GlueInv_specs s3 gd _ hg3 ?_, by rw [hc3.sync, f1], by rw [hc3.sync, f1], by rw [hc3.sparse, f4],
    by rw [hc3.sync, f1], by rw [hn3, f6], by rw [hc3.disconnectFrame, fdf],
    by rw [hc3.sync, f1]; exact rset_length _ _ _, ?_, ?_, ?_⟩
  rotate_left
  · intro p
    show _ ≤ (if p = handle then _ else gh.specs p).vals.length
    by_cases hpe : p = handle
    · subst hpe; rw [if_pos rfl, hvals]; simp
    · rw [if_neg hpe]; exact Nat.le_refl _
  · intro p
    rw [hc3.statuses, hst2]
    by_cases hpe : p = handle
    · subst hpe; rw [rget_rset_eq _ _ _ hpst, hnd]
    · rw [rget_rset_ne _ _ _ _ (fun e => hpe e.symm)]
  · intro p hdp
    rw [hc3.statuses, hst2]
    have hpe : p ≠ handle := fun e => by rw [e, hnd] at hdp; cases hdp
    rw [rget_rset_ne _ _ _ _ (fun e => hpe e.symm)]
  funext p
  show (if p = handle then _ else gh.specs p) = gd.specs p
  by_cases hpe : p = handle
  · subst hpe; rw [if_pos rfl, hsp]
  · rw [if_neg hpe, hspo p hpe]

/-- One step of the world with drops never lowers `next_spectator_frame`. -/
theorem nsf_stepX (x y : P2P × TLState) (h : XInv x) (h0 : 0 ≤ x.1.nextSpectatorFrame) (hs : XStep x y) :
    0 ≤ y.1.nextSpectatorFrame :=
  nsf_runX x y h h0 (XStar.step x x y (XStar.refl x) hs)

/-- The world with drops AND run-time delay changes: it contains every step of the session worlds. -/
inductive YStep : (P2P × TLState) → (P2P × TLState) → Prop
  | base (x y : P2P × TLState) : XStep x y → YStep x y
  | setDelay (s s' : P2P) (t : TLState) (now handle delay : Nat) (r : Except GgrsError Unit) :
      handle ∈ s.localPlayerHandles → handle < s.sync.queues.length →
      s.setInputDelay now handle delay = .ok (s', r) → YStep (s, t) (s', t)

inductive YStar : (P2P × TLState) → (P2P × TLState) → Prop
  | refl (x : P2P × TLState) : YStar x x
  | step (x y z : P2P × TLState) : YStar x y → YStep y z → YStar x z

/-- Session invariant with drops, glue invariant, and a non-negative spectator cursor. -/
def YInv (x : P2P × TLState) : Prop := XGInv x ∧ 0 ≤ x.1.nextSpectatorFrame

theorem YInv.xinv {x : P2P × TLState} (h : YInv x) : XInv x := by
  obtain ⟨⟨gh, st0, hs, _⟩, _⟩ := h
  exact ⟨gh, st0, hs⟩

theorem YInv_step (x y : P2P × TLState) (h : YInv x) (hs : YStep x y) : YInv y := by
  cases hs with
  | base _ _ hx => exact ⟨XGInv_step x y h.1 hx, nsf_stepX x y h.xinv h.2 hx⟩
  | setDelay s s' t now handle delay r hloc hp hset =>
    obtain ⟨⟨gh, st0, hs, hg⟩, hn⟩ := h
    obtain ⟨gh', st0', h', hg', _, _, _, _, hnsf, _⟩ := setInputDelay_specD s s' gh t [] st0 now handle delay r hs hg hloc hp hset
    exact ⟨⟨gh', st0', h', hg'⟩, by show 0 ≤ s'.nextSpectatorFrame; rw [hnsf]; exact hn⟩

/-- **L-drop + L-delay + L-glue, every run.** -/
theorem YInv_run (x y : P2P × TLState) (h : YInv x) (hr : YStar x y) : YInv y := by
  induction hr with
  | refl => exact h
  | step y z _ hs ih => exact YInv_step y z ih hs

/-- Every run of the world with delay changes and no drops (`DStar`) is a run of this one. -/
theorem YStar_of_DStar (x y : P2P × TLState) (h : DStar x y) : YStar x y := by
  induction h with
  | refl => exact YStar.refl _
  | step y z _ hs ih =>
    refine YStar.step _ y z ih ?_
    cases hs with
    | base _ _ hss =>
      cases hss with
      | remoteInput s s' t now inp player handles addr hnl h0 hev =>
        exact YStep.base _ _ (XStep.remoteInput s s' t now inp player handles addr hnl h0 hev)
      | tick s s' t now reqs' hadv => exact YStep.base _ _ (XStep.tick s s' t now reqs' hadv)
      | localInput s t handle input => exact YStep.base _ _ (XStep.localInput s t handle input)
      | saves s t sv => exact YStep.base _ _ (XStep.saves s t sv)
    | setDelay s s' t now handle delay r hloc hp hset => exact YStep.setDelay s s' t now handle delay r hloc hp hset

end Ggrs
