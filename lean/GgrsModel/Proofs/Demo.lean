/-
A concrete session and a concrete run, used by the non-vacuity examples of the property files: the
worlds the all-schedules theorems quantify over (`SStar`, `XStar`, …) contain runs in which the
user submits local inputs, remote inputs arrive and `advance_frame` advances several times in a row.
-/
import GgrsModel.Proofs.World
import GgrsModel.Proofs.Pair
import GgrsModel.Proofs.HostSpec

namespace Ggrs
open P2P

/-- Two players: handle 0 local, handle 1 behind address 1; prediction window 8. -/
def demoSession : P2P :=
  { numPlayers := 2, maxPrediction := 8, sync := SyncLayer.new 2 8, sparse := false, running := true, fps := 60,
    handles := [(0, .localPlayer), (1, .remote 1)], remotes := [], spectators := [],
    localConnectStatus := List.replicate 2 {}, desync := none, pred := .repeatLast }

def isOk {α} : Except String α → Bool | .ok _ => true | .error _ => false

def getOk {α} [Inhabited α] : Except String α → α | .ok a => a | .error _ => default

theorem ok_of_isOk {α} [Inhabited α] (r : Except String α) (h : isOk r = true) : r = .ok (getOk r) := by
  cases r with
  | ok a => rfl
  | error e => cases h

/-- One user tick of the demo: submit the local input, call `advance_frame` (rollback mode). -/
def demoTick (s : P2P) (v : Input) : Except String (P2P × List Request) :=
  (s.addLocalInput 0 v).1.advanceRollbackFrame 0 []

/-- The game executes a request list: every `SaveGameState` reaches its cell. -/
def demoSaves (r : P2P × List Request) : List (Frame × Option Nat) := (savedFrames r.2).map fun f => (f, none)

def demoS1 : P2P := (getOk (demoTick demoSession 5)).1
def demoS1x : P2P := demoS1.userExecute (demoSaves (getOk (demoTick demoSession 5)))
/-- the remote player's input for frame 0 arrives: 9, where 0 had been predicted -/
def demoS1r : P2P := getOk (demoS1x.handleEventCore 0 (.input ⟨0, 9⟩ 1) [1] 1)
/-- this call rolls back to frame 0 (Load 0, AdvanceFrame, Save 1, AdvanceFrame) -/
def demoS2 : P2P := (getOk (demoTick demoS1r 6)).1
def demoS2x : P2P := demoS2.userExecute (demoSaves (getOk (demoTick demoS1r 6)))
def demoS3 : P2P := (getOk (demoTick demoS2x 7)).1

theorem demo_ok1 : isOk (demoTick demoSession 5) = true := by decide
theorem demo_ok1r : isOk (demoS1x.handleEventCore 0 (.input ⟨0, 9⟩ 1) [1] 1) = true := by decide
theorem demo_ok2 : isOk (demoTick demoS1r 6) = true := by decide
theorem demo_ok3 : isOk (demoTick demoS2x 7) = true := by decide
theorem demo_frame3 : demoS3.sync.currentFrame = 3 := by decide
/-- the second call contains a rollback -/
theorem demo_rollback : (getOk (demoTick demoS1r 6)).2.any (fun r => match r with | .load _ => true | _ => false) = true := by
  decide

/-- The concrete run: three advancing calls — the second one rolling back — with a local input
before each, the game's saves after each and a remote input in between, as a path of the session
world. -/
theorem demo_run (t : TLState) : ∃ t', SStar (demoSession, t) (demoS3, t') := by
  have e1 := ok_of_isOk _ demo_ok1
  have e1r := ok_of_isOk _ demo_ok1r
  have e2 := ok_of_isOk _ demo_ok2
  have e3 := ok_of_isOk _ demo_ok3
  have p1 : SStar (demoSession, t) (demoS1, _) :=
    SStar.step _ _ _ (SStar.step _ _ _ (SStar.refl _) (SStep.localInput demoSession t 0 5))
      (SStep.tick _ demoS1 t 0 (getOk (demoTick demoSession 5)).2 e1)
  have p1r := SStar.step _ _ _ (SStar.step _ _ _ p1 (SStep.saves demoS1 _ (demoSaves (getOk (demoTick demoSession 5)))))
      (SStep.remoteInput demoS1x demoS1r _ 0 ⟨0, 9⟩ 1 [1] 1 (by decide) (by decide) e1r)
  have p2 := SStar.step _ _ _ (SStar.step _ _ _ p1r (SStep.localInput demoS1r _ 0 6))
      (SStep.tick _ demoS2 _ 0 (getOk (demoTick demoS1r 6)).2 e2)
  have p3 := SStar.step _ _ _ (SStar.step _ _ _ (SStar.step _ _ _ p2
      (SStep.saves demoS2 _ (demoSaves (getOk (demoTick demoS1r 6)))))
      (SStep.localInput demoS2x _ 0 7))
      (SStep.tick _ demoS3 _ 0 (getOk (demoTick demoS2x 7)).2 e3)
  exact ⟨_, p3⟩

/-! ### a concrete run of the pair -/

/-- The peer of `demoSession`: handle 1 local, handle 0 behind address 0. -/
def demoPeer : P2P :=
  { numPlayers := 2, maxPrediction := 8, sync := SyncLayer.new 2 8, sparse := false, running := true, fps := 60,
    handles := [(0, .remote 0), (1, .localPlayer)], remotes := [], spectators := [],
    localConnectStatus := List.replicate 2 {}, desync := none, pred := .repeatLast }

def peerTick (s : P2P) (v : Input) : Except String (P2P × List Request) :=
  (s.addLocalInput 1 v).1.advanceRollbackFrame 0 []

def demoB1 : P2P := (getOk (peerTick demoPeer 9)).1
def demoB1x : P2P := demoB1.userExecute (demoSaves (getOk (peerTick demoPeer 9)))
/-- B receives A's frame 0 (value 5, as A's queue holds it) -/
def demoB1r : P2P := getOk (demoB1x.handleEventCore 0 (.input ⟨0, 5⟩ 0) [0] 0)
/-- A receives B's frame 0 (value 9, as B's queue holds it): `demoS1r` -/
def demoB2 : P2P := (getOk (peerTick demoB1r 8)).1

theorem demo_okB1 : isOk (peerTick demoPeer 9) = true := by decide
theorem demo_okB1r : isOk (demoB1x.handleEventCore 0 (.input ⟨0, 5⟩ 0) [0] 0) = true := by decide
theorem demo_okB2 : isOk (peerTick demoB1r 8) = true := by decide
theorem demo_frameB2 : demoB2.sync.currentFrame = 2 := by decide

/-- Both sessions tick, each receives the other's frame 0 — taken from the owner's queue — after
having predicted it, and both roll back on their next call: a path of the pair world. -/
theorem demo_pair_run (tA tB : TLState) : ∃ tA' tB', PStar ((demoSession, tA), (demoPeer, tB)) ((demoS2, tA'), (demoB2, tB')) := by
  have e1 := ok_of_isOk _ demo_ok1
  have e1r := ok_of_isOk _ demo_ok1r
  have e2 := ok_of_isOk _ demo_ok2
  have f1 := ok_of_isOk _ demo_okB1
  have f1r := ok_of_isOk _ demo_okB1r
  have f2 := ok_of_isOk _ demo_okB2
  -- A: input, call, saves
  have p1 := PStar.step _ _ _ (PStar.step _ _ _ (PStar.step _ _ _ (PStar.refl ((demoSession, tA), (demoPeer, tB)))
      (PStep.left _ _ _ (Half.localInput demoSession tA (demoPeer, tB) 0 5)))
      (PStep.left _ _ _ (Half.tick _ demoS1 tA (demoPeer, tB) 0 (getOk (demoTick demoSession 5)).2 e1)))
      (PStep.left _ _ _ (Half.saves demoS1 _ (demoPeer, tB) (demoSaves (getOk (demoTick demoSession 5)))))
  -- B: input, call, saves
  have p2 := PStar.step _ _ _ (PStar.step _ _ _ (PStar.step _ _ _ p1
      (PStep.right _ _ _ (Half.localInput demoPeer tB (demoS1x, _) 1 9)))
      (PStep.right _ _ _ (Half.tick _ demoB1 tB (demoS1x, _) 0 (getOk (peerTick demoPeer 9)).2 f1)))
      (PStep.right _ _ _ (Half.saves demoB1 _ (demoS1x, _) (demoSaves (getOk (peerTick demoPeer 9)))))
  -- arrivals: A gets B's frame 0, B gets A's frame 0, each from the owner's queue
  have p3 := PStar.step _ _ _ p2 (PStep.left _ _ _
      (Half.arrive demoS1x demoS1r _ (demoB1x, _) 0 0 9 1 [1] 1 (by decide : 1 ∈ demoB1x.localPlayerHandles) (by decide)
        (by decide : 1 < demoB1x.sync.queues.length) (by decide) (by decide)
        (by decide : ((0 : Nat) : Int) ≤ (rget demoB1x.sync.queues 1).lastAddedFrame)
        (by decide : (rget demoB1x.sync.queues 1).lastAddedFrame < ((0 : Nat) : Int) + INPUT_QUEUE_LENGTH)
        (by decide : rget (rget demoB1x.sync.queues 1).inputs (0 % INPUT_QUEUE_LENGTH) = ⟨((0 : Nat) : Int), 9⟩) e1r))
  have p4 := PStar.step _ _ _ p3 (PStep.right _ _ _
      (Half.arrive demoB1x demoB1r _ (demoS1r, _) 0 0 5 0 [0] 0 (by decide : 0 ∈ demoS1r.localPlayerHandles) (by decide)
        (by decide : 0 < demoS1r.sync.queues.length) (by decide) (by decide)
        (by decide : ((0 : Nat) : Int) ≤ (rget demoS1r.sync.queues 0).lastAddedFrame)
        (by decide : (rget demoS1r.sync.queues 0).lastAddedFrame < ((0 : Nat) : Int) + INPUT_QUEUE_LENGTH)
        (by decide : rget (rget demoS1r.sync.queues 0).inputs (0 % INPUT_QUEUE_LENGTH) = ⟨((0 : Nat) : Int), 5⟩) f1r))
  -- both call again (and roll back)
  have p5 := PStar.step _ _ _ (PStar.step _ _ _ p4
      (PStep.left _ _ _ (Half.localInput demoS1r _ (demoB1r, _) 0 6)))
      (PStep.left _ _ _ (Half.tick _ demoS2 _ (demoB1r, _) 0 (getOk (demoTick demoS1r 6)).2 e2))
  have p6 := PStar.step _ _ _ (PStar.step _ _ _ p5
      (PStep.right _ _ _ (Half.localInput demoB1r _ (demoS2, _) 1 8)))
      (PStep.right _ _ _ (Half.tick _ demoB2 _ (demoS2, _) 0 (getOk (peerTick demoB1r 8)).2 f2))
  exact ⟨_, _, p6⟩

/-! ### a concrete run of a host and its spectator -/

/-- A running endpoint towards the spectator at address 9. -/
def demoSpecEp : Endpoint := { Endpoint.new [2] 9 2 2 8 2000 500 60 none 77 0 with state := .running }

/-- `demoSession` with a spectator attached. -/
def demoHost : P2P :=
  { demoSession with handles := [(0, .localPlayer), (1, .remote 1), (2, .spectator 9)], spectators := [(9, demoSpecEp)] }

def hostTick (s : P2P) (v : Input) : Except String (P2P × List Request) :=
  (s.addLocalInput 0 v).1.advanceRollbackFrame 0 []

def demoH1 : P2P := (getOk (hostTick demoHost 5)).1
def demoH1x : P2P := demoH1.userExecute (demoSaves (getOk (hostTick demoHost 5)))
def demoH1r : P2P := getOk (demoH1x.handleEventCore 0 (.input ⟨0, 9⟩ 1) [1] 1)
/-- this call confirms frame 0 and offers it to the spectator endpoint -/
def demoH2 : P2P := (getOk (hostTick demoH1r 6)).1

/-- The spectator (already synchronized with its host). -/
def demoSpec : Spectator :=
  { Spectator.new 2 (Endpoint.new [0, 1] 1 2 1 8 2000 500 60 none 78 0) 10 1 with running := true }
def demoSpec1 : Spectator := getOk (Spectator.recvLoop 0 0 1 [5, 9] 0 demoSpec)
def demoSpec2 : Spectator := (getOk demoSpec1.advanceAfterPoll).1

theorem demo_okH1 : isOk (hostTick demoHost 5) = true := by decide
theorem demo_okH1r : isOk (demoH1x.handleEventCore 0 (.input ⟨0, 9⟩ 1) [1] 1) = true := by decide
theorem demo_okH2 : isOk (hostTick demoH1r 6) = true := by decide
theorem demo_offered : demoH2.nextSpectatorFrame = 1 := by decide
theorem demo_okSp1 : isOk (Spectator.recvLoop 0 0 1 [5, 9] 0 demoSpec) = true := by decide
theorem demo_okSp2 : isOk demoSpec1.advanceAfterPoll = true := by decide
/-- the spectator's call hands out one AdvanceFrame carrying the host's row of frame 0 -/
theorem demo_spec_row : (getOk demoSpec1.advanceAfterPoll).2 =
    .ok [.advance [(5, .confirmed), (9, .confirmed)]] := by decide

/-- Host: input, call, saves, arrival, input, call (frame 0 confirmed and offered); the row of frame 0
arrives at the spectator, read off the host's queues; the spectator advances. -/
theorem demo_hostspec_run (t : TLState) :
    ∃ t' n, HSStar ((demoHost, t), (demoSpec, [], 0)) ((demoH2, t'), (demoSpec2, [[5, 9]], n)) ∧ n = 1 := by
  have e1 := ok_of_isOk _ demo_okH1
  have e1r := ok_of_isOk _ demo_okH1r
  have e2 := ok_of_isOk _ demo_okH2
  have g1 := ok_of_isOk _ demo_okSp1
  have g2 := ok_of_isOk _ demo_okSp2
  have p1 := HSStar.step _ _ _ (HSStar.step _ _ _ (HSStar.step _ _ _ (HSStar.refl ((demoHost, t), (demoSpec, [], 0)))
      (HSStep.host _ _ _ (SStep.localInput demoHost t 0 5)))
      (HSStep.host _ _ _ (SStep.tick _ demoH1 t 0 (getOk (hostTick demoHost 5)).2 e1)))
      (HSStep.host _ _ _ (SStep.saves demoH1 _ (demoSaves (getOk (hostTick demoHost 5)))))
  have p2 := HSStar.step _ _ _ (HSStar.step _ _ _ (HSStar.step _ _ _ p1
      (HSStep.host _ _ _ (SStep.remoteInput demoH1x demoH1r _ 0 ⟨0, 9⟩ 1 [1] 1 (by decide) (by decide) e1r)))
      (HSStep.host _ _ _ (SStep.localInput demoH1r _ 0 6)))
      (HSStep.host _ _ _ (SStep.tick _ demoH2 _ 0 (getOk (hostTick demoH1r 6)).2 e2))
  have p3 := HSStar.step _ _ _ p2
      (HSStep.specRecv (demoH2, _) demoSpec demoSpec1 [] 0 0 1 [5, 9] (by decide) (by decide : [5, 9].length = demoH2.sync.queues.length)
        (by decide : (([] : List (List Input)).length : Int) < demoH2.nextSpectatorFrame)
        (by decide : ∀ h, h < demoH2.sync.queues.length →
          ((([] : List (List Input)).length : Nat) : Int) ≤ (rget demoH2.sync.queues h).lastAddedFrame ∧
          (rget demoH2.sync.queues h).lastAddedFrame < ((([] : List (List Input)).length : Nat) : Int) + INPUT_QUEUE_LENGTH ∧
          rget (rget demoH2.sync.queues h).inputs (([] : List (List Input)).length % INPUT_QUEUE_LENGTH) =
            ⟨((([] : List (List Input)).length : Nat) : Int), [5, 9].getD h 0⟩) g1)
  have p4 := HSStar.step _ _ _ p3 (HSStep.specAdvance (demoH2, _) demoSpec1 demoSpec2 [[5, 9]] 0 _ g2)
  exact ⟨_, _, p4, by decide⟩

end Ggrs
