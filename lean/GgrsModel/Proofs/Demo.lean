/-
A concrete session and a concrete run, used by the non-vacuity examples of the property files: the
worlds the all-schedules theorems quantify over (`SStar`, `XStar`, …) contain runs in which the
user submits local inputs, remote inputs arrive and `advance_frame` advances several times in a row.
-/
import GgrsModel.Proofs.World
import GgrsModel.Proofs.Lockstep
import GgrsModel.Proofs.DropWorld
import GgrsModel.Proofs.Pair
import GgrsModel.Proofs.Triple
import GgrsModel.Proofs.PairLockstep
import GgrsModel.Proofs.HostSpec

namespace Ggrs
open P2P

/-- Two players: handle 0 local, handle 1 behind address 1; prediction window 8. -/
def demoSession : P2P :=
  { numPlayers := 2, maxPrediction := 8, sync := SyncLayer.new 2 8, sparse := false, running := true, fps := 60,
    handles := [(0, .localPlayer), (1, .remote 1)], remotes := [], spectators := [],
    localConnectStatus := List.replicate 2 {}, desync := none, pred := .repeatLast }

def isOk {α} : Except String α → Bool | .ok _ => true | .error _ => false

def getOk {α} [Inhabited α] : Except String α → α | .ok a => a | .error _ => default

theorem ok_of_isOk {α} [Inhabited α] (r : Except String α) (h : isOk r = true) : r = .ok (getOk r) := by
  cases r with
  | ok a => rfl
  | error e => cases h

/-- One user tick of the demo: submit the local input, call `advance_frame` (rollback mode). -/
def demoTick (s : P2P) (v : Input) : Except String (P2P × List Request) :=
  (s.addLocalInput 0 v).1.advanceRollbackFrame 0 []

/-- The game executes a request list: every `SaveGameState` reaches its cell. -/
def demoSaves (r : P2P × List Request) : List (Frame × Option Nat) := (savedFrames r.2).map fun f => (f, none)

def demoS1 : P2P := (getOk (demoTick demoSession 5)).1
def demoS1x : P2P := demoS1.userExecute (demoSaves (getOk (demoTick demoSession 5)))
/-- the remote player's input for frame 0 arrives: 9, where 0 had been predicted -/
def demoS1r : P2P := getOk (demoS1x.handleEventCore 0 (.input ⟨0, 9⟩ 1) [1] 1)
/-- this call rolls back to frame 0 (Load 0, AdvanceFrame, Save 1, AdvanceFrame) -/
def demoS2 : P2P := (getOk (demoTick demoS1r 6)).1
def demoS2x : P2P := demoS2.userExecute (demoSaves (getOk (demoTick demoS1r 6)))
def demoS3 : P2P := (getOk (demoTick demoS2x 7)).1

theorem demo_ok1 : isOk (demoTick demoSession 5) = true := by decide
theorem demo_ok1r : isOk (demoS1x.handleEventCore 0 (.input ⟨0, 9⟩ 1) [1] 1) = true := by decide
theorem demo_ok2 : isOk (demoTick demoS1r 6) = true := by decide
theorem demo_ok3 : isOk (demoTick demoS2x 7) = true := by decide
theorem demo_frame3 : demoS3.sync.currentFrame = 3 := by decide
/-- the second call contains a rollback -/
theorem demo_rollback : (getOk (demoTick demoS1r 6)).2.any (fun r => match r with | .load _ => true | _ => false) = true := by
  decide

/-- The concrete run: three advancing calls — the second one rolling back — with a local input
before each, the game's saves after each and a remote input in between, as a path of the session
world. -/
theorem demo_run (t : TLState) : ∃ t', SStar (demoSession, t) (demoS3, t') := by
  have e1 := ok_of_isOk _ demo_ok1
  have e1r := ok_of_isOk _ demo_ok1r
  have e2 := ok_of_isOk _ demo_ok2
  have e3 := ok_of_isOk _ demo_ok3
  have p1 : SStar (demoSession, t) (demoS1, _) :=
    SStar.step _ _ _ (SStar.step _ _ _ (SStar.refl _) (SStep.localInput demoSession t 0 5))
      (SStep.tick _ demoS1 t 0 (getOk (demoTick demoSession 5)).2 e1)
  have p1r := SStar.step _ _ _ (SStar.step _ _ _ p1 (SStep.saves demoS1 _ (demoSaves (getOk (demoTick demoSession 5)))))
      (SStep.remoteInput demoS1x demoS1r _ 0 ⟨0, 9⟩ 1 [1] 1 (by decide) (by decide) e1r)
  have p2 := SStar.step _ _ _ (SStar.step _ _ _ p1r (SStep.localInput demoS1r _ 0 6))
      (SStep.tick _ demoS2 _ 0 (getOk (demoTick demoS1r 6)).2 e2)
  have p3 := SStar.step _ _ _ (SStar.step _ _ _ (SStar.step _ _ _ p2
      (SStep.saves demoS2 _ (demoSaves (getOk (demoTick demoS1r 6)))))
      (SStep.localInput demoS2x _ 0 7))
      (SStep.tick _ demoS3 _ 0 (getOk (demoTick demoS2x 7)).2 e3)
  exact ⟨_, p3⟩

/-! ### a concrete run of the pair -/

/-- The peer of `demoSession`: handle 1 local, handle 0 behind address 0. -/
def demoPeer : P2P :=
  { numPlayers := 2, maxPrediction := 8, sync := SyncLayer.new 2 8, sparse := false, running := true, fps := 60,
    handles := [(0, .remote 0), (1, .localPlayer)], remotes := [], spectators := [],
    localConnectStatus := List.replicate 2 {}, desync := none, pred := .repeatLast }

def peerTick (s : P2P) (v : Input) : Except String (P2P × List Request) :=
  (s.addLocalInput 1 v).1.advanceRollbackFrame 0 []

def demoB1 : P2P := (getOk (peerTick demoPeer 9)).1
def demoB1x : P2P := demoB1.userExecute (demoSaves (getOk (peerTick demoPeer 9)))
/-- B receives A's frame 0 (value 5, as A's queue holds it) -/
def demoB1r : P2P := getOk (demoB1x.handleEventCore 0 (.input ⟨0, 5⟩ 0) [0] 0)
/-- A receives B's frame 0 (value 9, as B's queue holds it): `demoS1r` -/
def demoB2 : P2P := (getOk (peerTick demoB1r 8)).1

theorem demo_okB1 : isOk (peerTick demoPeer 9) = true := by decide
theorem demo_okB1r : isOk (demoB1x.handleEventCore 0 (.input ⟨0, 5⟩ 0) [0] 0) = true := by decide
theorem demo_okB2 : isOk (peerTick demoB1r 8) = true := by decide
theorem demo_frameB2 : demoB2.sync.currentFrame = 2 := by decide

/-- Both sessions tick, each receives the other's frame 0 — taken from the owner's queue — after
having predicted it, and both roll back on their next call: a path of the pair world. -/
theorem demo_pair_run (tA tB : TLState) : ∃ tA' tB', PStar ((demoSession, tA), (demoPeer, tB)) ((demoS2, tA'), (demoB2, tB')) := by
  have e1 := ok_of_isOk _ demo_ok1
  have e1r := ok_of_isOk _ demo_ok1r
  have e2 := ok_of_isOk _ demo_ok2
  have f1 := ok_of_isOk _ demo_okB1
  have f1r := ok_of_isOk _ demo_okB1r
  have f2 := ok_of_isOk _ demo_okB2
  -- A: input, call, saves
  have p1 := PStar.step _ _ _ (PStar.step _ _ _ (PStar.step _ _ _ (PStar.refl ((demoSession, tA), (demoPeer, tB)))
      (PStep.left _ _ _ (Half.localInput demoSession tA (demoPeer, tB) 0 5)))
      (PStep.left _ _ _ (Half.tick _ demoS1 tA (demoPeer, tB) 0 (getOk (demoTick demoSession 5)).2 e1)))
      (PStep.left _ _ _ (Half.saves demoS1 _ (demoPeer, tB) (demoSaves (getOk (demoTick demoSession 5)))))
  -- B: input, call, saves
  have p2 := PStar.step _ _ _ (PStar.step _ _ _ (PStar.step _ _ _ p1
      (PStep.right _ _ _ (Half.localInput demoPeer tB (demoS1x, _) 1 9)))
      (PStep.right _ _ _ (Half.tick _ demoB1 tB (demoS1x, _) 0 (getOk (peerTick demoPeer 9)).2 f1)))
      (PStep.right _ _ _ (Half.saves demoB1 _ (demoS1x, _) (demoSaves (getOk (peerTick demoPeer 9)))))
  -- arrivals: A gets B's frame 0, B gets A's frame 0, each from the owner's queue
  have p3 := PStar.step _ _ _ p2 (PStep.left _ _ _
      (Half.arrive demoS1x demoS1r _ (demoB1x, _) 0 0 9 1 [1] 1 (by decide : 1 ∈ demoB1x.localPlayerHandles) (by decide)
        (by decide : 1 < demoB1x.sync.queues.length) (by decide) (by decide)
        (by decide : ((0 : Nat) : Int) ≤ (rget demoB1x.sync.queues 1).lastAddedFrame)
        (by decide : (rget demoB1x.sync.queues 1).lastAddedFrame < ((0 : Nat) : Int) + INPUT_QUEUE_LENGTH)
        (by decide : rget (rget demoB1x.sync.queues 1).inputs (0 % INPUT_QUEUE_LENGTH) = ⟨((0 : Nat) : Int), 9⟩) e1r))
  have p4 := PStar.step _ _ _ p3 (PStep.right _ _ _
      (Half.arrive demoB1x demoB1r _ (demoS1r, _) 0 0 5 0 [0] 0 (by decide : 0 ∈ demoS1r.localPlayerHandles) (by decide)
        (by decide : 0 < demoS1r.sync.queues.length) (by decide) (by decide)
        (by decide : ((0 : Nat) : Int) ≤ (rget demoS1r.sync.queues 0).lastAddedFrame)
        (by decide : (rget demoS1r.sync.queues 0).lastAddedFrame < ((0 : Nat) : Int) + INPUT_QUEUE_LENGTH)
        (by decide : rget (rget demoS1r.sync.queues 0).inputs (0 % INPUT_QUEUE_LENGTH) = ⟨((0 : Nat) : Int), 5⟩) f1r))
  -- both call again (and roll back)
  have p5 := PStar.step _ _ _ (PStar.step _ _ _ p4
      (PStep.left _ _ _ (Half.localInput demoS1r _ (demoB1r, _) 0 6)))
      (PStep.left _ _ _ (Half.tick _ demoS2 _ (demoB1r, _) 0 (getOk (demoTick demoS1r 6)).2 e2))
  have p6 := PStar.step _ _ _ (PStar.step _ _ _ p5
      (PStep.right _ _ _ (Half.localInput demoB1r _ (demoS2, _) 1 8)))
      (PStep.right _ _ _ (Half.tick _ demoB2 _ (demoS2, _) 0 (getOk (peerTick demoB1r 8)).2 f2))
  exact ⟨_, _, p6⟩

/-! ### a concrete run of a host and its spectator -/

/-- A running endpoint towards the spectator at address 9. -/
def demoSpecEp : Endpoint := { Endpoint.new [2] 9 2 2 8 2000 500 60 none 77 0 with state := .running }

/-- `demoSession` with a spectator attached. -/
def demoHost : P2P :=
  { demoSession with handles := [(0, .localPlayer), (1, .remote 1), (2, .spectator 9)], spectators := [(9, demoSpecEp)] }

def hostTick (s : P2P) (v : Input) : Except String (P2P × List Request) :=
  (s.addLocalInput 0 v).1.advanceRollbackFrame 0 []

def demoH1 : P2P := (getOk (hostTick demoHost 5)).1
def demoH1x : P2P := demoH1.userExecute (demoSaves (getOk (hostTick demoHost 5)))
def demoH1r : P2P := getOk (demoH1x.handleEventCore 0 (.input ⟨0, 9⟩ 1) [1] 1)
/-- this call confirms frame 0 and offers it to the spectator endpoint -/
def demoH2 : P2P := (getOk (hostTick demoH1r 6)).1

/-- The spectator (already synchronized with its host). -/
def demoSpec : Spectator :=
  { Spectator.new 2 (Endpoint.new [0, 1] 1 2 1 8 2000 500 60 none 78 0) 10 1 with running := true }
def demoSpec1 : Spectator := getOk (Spectator.recvLoop 0 0 1 [5, 9] 0 demoSpec)
def demoSpec2 : Spectator := (getOk demoSpec1.advanceAfterPoll).1

theorem demo_okH1 : isOk (hostTick demoHost 5) = true := by decide
theorem demo_okH1r : isOk (demoH1x.handleEventCore 0 (.input ⟨0, 9⟩ 1) [1] 1) = true := by decide
theorem demo_okH2 : isOk (hostTick demoH1r 6) = true := by decide
theorem demo_offered : demoH2.nextSpectatorFrame = 1 := by decide
theorem demo_okSp1 : isOk (Spectator.recvLoop 0 0 1 [5, 9] 0 demoSpec) = true := by decide
theorem demo_okSp2 : isOk demoSpec1.advanceAfterPoll = true := by decide
/-- the spectator's call hands out one AdvanceFrame carrying the host's row of frame 0 -/
theorem demo_spec_row : (getOk demoSpec1.advanceAfterPoll).2 =
    .ok [.advance [(5, .confirmed), (9, .confirmed)]] := by decide

/-- Host: input, call, saves, arrival, input, call (frame 0 confirmed and offered); the row of frame 0
arrives at the spectator, read off the host's queues; the spectator advances. -/
theorem demo_hostspec_run (t : TLState) :
    ∃ t' n, HSStar ((demoHost, t), (demoSpec, [], 0)) ((demoH2, t'), (demoSpec2, [[5, 9]], n)) ∧ n = 1 := by
  have e1 := ok_of_isOk _ demo_okH1
  have e1r := ok_of_isOk _ demo_okH1r
  have e2 := ok_of_isOk _ demo_okH2
  have g1 := ok_of_isOk _ demo_okSp1
  have g2 := ok_of_isOk _ demo_okSp2
  have p1 := HSStar.step _ _ _ (HSStar.step _ _ _ (HSStar.step _ _ _ (HSStar.refl ((demoHost, t), (demoSpec, [], 0)))
      (HSStep.host _ _ _ (SStep.localInput demoHost t 0 5)))
      (HSStep.host _ _ _ (SStep.tick _ demoH1 t 0 (getOk (hostTick demoHost 5)).2 e1)))
      (HSStep.host _ _ _ (SStep.saves demoH1 _ (demoSaves (getOk (hostTick demoHost 5)))))
  have p2 := HSStar.step _ _ _ (HSStar.step _ _ _ (HSStar.step _ _ _ p1
      (HSStep.host _ _ _ (SStep.remoteInput demoH1x demoH1r _ 0 ⟨0, 9⟩ 1 [1] 1 (by decide) (by decide) e1r)))
      (HSStep.host _ _ _ (SStep.localInput demoH1r _ 0 6)))
      (HSStep.host _ _ _ (SStep.tick _ demoH2 _ 0 (getOk (hostTick demoH1r 6)).2 e2))
  have p3 := HSStar.step _ _ _ p2
      (HSStep.specRecv (demoH2, _) demoSpec demoSpec1 [] 0 0 1 [5, 9] (by decide) (by decide : [5, 9].length = demoH2.sync.queues.length)
        (by decide : (([] : List (List Input)).length : Int) < demoH2.nextSpectatorFrame)
        (by decide : ∀ h, h < demoH2.sync.queues.length →
          ((([] : List (List Input)).length : Nat) : Int) ≤ (rget demoH2.sync.queues h).lastAddedFrame ∧
          (rget demoH2.sync.queues h).lastAddedFrame < ((([] : List (List Input)).length : Nat) : Int) + INPUT_QUEUE_LENGTH ∧
          rget (rget demoH2.sync.queues h).inputs (([] : List (List Input)).length % INPUT_QUEUE_LENGTH) =
            ⟨((([] : List (List Input)).length : Nat) : Int), [5, 9].getD h 0⟩) g1)
  have p4 := HSStar.step _ _ _ p3 (HSStep.specAdvance (demoH2, _) demoSpec1 demoSpec2 [[5, 9]] 0 _ g2)
  exact ⟨_, _, p4, by decide⟩

/-! ### a concrete run with a game -/

/-- The first call of a session: `advance_frame_core` saves frame 0 before anything else. -/
def demoSave0 : SyncLayer × Request := getOk ((demoSession.addLocalInput 0 5).1.sync.saveCurrentState)
def demoW1r : Except String (P2P × List Request) :=
  ({ (demoSession.addLocalInput 0 5).1 with sync := demoSave0.1 } : P2P).advanceRollbackFrame 0 [demoSave0.2]
def demoW1 : P2P := (getOk demoW1r).1.userExecute (demoSaves (getOk demoW1r))
def demoW1in : P2P := getOk (demoW1.handleEventCore 0 (.input ⟨0, 9⟩ 1) [1] 1)
def demoW2r : Except String (P2P × List Request) := (demoW1in.addLocalInput 0 6).1.advanceRollbackFrame 0 []
def demoW2 : P2P := (getOk demoW2r).1.userExecute (demoSaves (getOk demoW2r))

theorem demo_okW0 : isOk ((demoSession.addLocalInput 0 5).1.sync.saveCurrentState) = true := by decide
theorem demo_okW1 : isOk demoW1r = true := by decide
theorem demo_okW1in : isOk (demoW1.handleEventCore 0 (.input ⟨0, 9⟩ 1) [1] 1) = true := by decide
theorem demo_okW2 : isOk demoW2r = true := by decide
theorem demo_frameW2 : demoW2.sync.currentFrame = 2 := by decide
/-- the first call starts with the save of frame 0, the second one rolls back (it loads frame 0) -/
theorem demo_reqsW : (getOk demoW1r).2.head? = some (.save 0) ∧
    (getOk demoW2r).2.any (fun r => match r with | .load 0 => true | _ => false) = true := by decide

/-- A session next to a game (any game): local input, first call (with its save of frame 0), the
remote input that contradicts the prediction, local input, a call that rolls back — a path of the
world with a game, every save reaching its cell. -/
theorem demo_world_run {G : Type} (step : G → List (Input × InputStatus) → G) (x : GS G) :
    ∃ x', WStar step (demoSession, x) (demoW2, x') := by
  have e0 := ok_of_isOk _ demo_okW0
  have e1 := ok_of_isOk _ demo_okW1
  have e1i := ok_of_isOk _ demo_okW1in
  have e2 := ok_of_isOk _ demo_okW2
  have hs : ∀ r : P2P × List Request, (demoSaves r).map (·.1) = savedFrames r.2 := by
    intro r; unfold demoSaves
    rw [List.map_map]
    have : ((fun x : Frame × Option Nat => x.1) ∘ fun f => (f, none)) = id := rfl
    rw [this, List.map_id]
  have p1 := WStar.step (step := step) _ _ _ (WStar.step (step := step) _ _ _ (WStar.refl (step := step) (demoSession, x))
      (WStep.localInput (step := step) demoSession x 0 5))
      (WStep.tick0 (step := step) (demoSession.addLocalInput 0 5).1 (getOk demoW1r).1 x 0 demoSave0.1 demoSave0.2 (getOk demoW1r).2
        (demoSaves (getOk demoW1r)) (by decide) e0 e1 (hs _))
  have p2 := WStar.step (step := step) _ _ _ p1 (WStep.remoteInput (step := step) demoW1 demoW1in _ 0 ⟨0, 9⟩ 1 [1] 1 (by decide) (by decide) e1i)
  have p3 := WStar.step (step := step) _ _ _ (WStar.step (step := step) _ _ _ p2 (WStep.localInput (step := step) demoW1in _ 0 6))
      (WStep.tick (step := step) (demoW1in.addLocalInput 0 6).1 (getOk demoW2r).1 _ 0 (getOk demoW2r).2 (demoSaves (getOk demoW2r)) e2 (hs _))
  exact ⟨_, p3⟩

/-! ### a concrete lockstep run, and a run with a drop -/

/-- `demoSession` in lockstep mode (prediction window 0). -/
def demoLk : P2P := { demoSession with maxPrediction := 0, sync := SyncLayer.new 2 0 }
def lkTick (s : P2P) (v : Input) : Except String (P2P × List Request) :=
  (s.addLocalInput 0 v).1.advanceLockstepFrame 0 []
/-- stalls: the remote input of frame 0 is missing -/
def demoLk1 : P2P := (getOk (lkTick demoLk 5)).1
def demoLk1r : P2P := getOk (demoLk1.handleEventCore 0 (.input ⟨0, 9⟩ 1) [1] 1)
def demoLk2 : P2P := (getOk (lkTick demoLk1r 5)).1

theorem demo_okLk1 : isOk (lkTick demoLk 5) = true := by decide
theorem demo_okLk1r : isOk (demoLk1.handleEventCore 0 (.input ⟨0, 9⟩ 1) [1] 1) = true := by decide
theorem demo_okLk2 : isOk (lkTick demoLk1r 5) = true := by decide
theorem demo_lk_facts : (getOk (lkTick demoLk 5)).2 = [] ∧ demoLk1.sync.currentFrame = 0 ∧
    (getOk (lkTick demoLk1r 5)).2 = [.advance [(5, .confirmed), (9, .confirmed)]] ∧ demoLk2.sync.currentFrame = 1 := by
  decide

theorem demo_lockstep_run (t : TLState) : ∃ t', LkStar (demoLk, t) (demoLk2, t') := by
  have e1 := ok_of_isOk _ demo_okLk1
  have e1r := ok_of_isOk _ demo_okLk1r
  have e2 := ok_of_isOk _ demo_okLk2
  have p1 := LkStar.step _ _ _ (LkStar.step _ _ _ (LkStar.refl (demoLk, t)) (LkStep.localInput demoLk t 0 5))
      (LkStep.tick _ demoLk1 t 0 (getOk (lkTick demoLk 5)).2 e1)
  have p2 := LkStar.step _ _ _ p1 (LkStep.remoteInput demoLk1 demoLk1r _ 0 ⟨0, 9⟩ 1 [1] 1 (by decide) (by decide) e1r)
  have p3 := LkStar.step _ _ _ (LkStar.step _ _ _ p2 (LkStep.localInput demoLk1r _ 0 5))
      (LkStep.tick _ demoLk2 _ 0 (getOk (lkTick demoLk1r 5)).2 e2)
  exact ⟨_, p3⟩

/-- `demoSession` with an endpoint for the remote player, so that it can be dropped. -/
def demoDropEp : Endpoint := { Endpoint.new [1] 1 2 1 8 2000 500 60 none 55 0 with handles := [1], state := .running }
def demoD0 : P2P := { demoSession with remotes := [(1, demoDropEp)] }
def dTick (s : P2P) (v : Input) : Except String (P2P × List Request) :=
  (s.addLocalInput 0 v).1.advanceRollbackFrame 0 []
def demoD1 : P2P := ((getOk (dTick demoD0 5)).1).userExecute (demoSaves (getOk (dTick demoD0 5)))
def demoD2 : P2P := ((getOk (dTick demoD1 6)).1).userExecute (demoSaves (getOk (dTick demoD1 6)))
/-- the user drops the remote player, whose input never arrived: frames 0 and 1 were predicted -/
def demoD3 : P2P := (getOk (demoD2.disconnectPlayer 0 1)).1
/-- this call re-simulates frames 0 and 1 with the player marked Disconnected -/
def demoD4r : Except String (P2P × List Request) := dTick demoD3 7

theorem demo_okD1 : isOk (dTick demoD0 5) = true := by decide
theorem demo_okD2 : isOk (dTick demoD1 6) = true := by decide
theorem demo_okD3 : isOk (demoD2.disconnectPlayer 0 1) = true := by decide
theorem demo_okD3' : (getOk (demoD2.disconnectPlayer 0 1)).2 = .ok () := by decide
theorem demo_okD4 : isOk demoD4r = true := by decide
theorem demo_drop_facts : (getOk demoD4r).2.any (fun r => match r with | .load 0 => true | _ => false) = true ∧
    (getOk demoD4r).2.getLast? = some (.advance [(7, .confirmed), (0, .disconnected)]) := by decide

def demoD4 : P2P := (getOk demoD4r).1
def demoD2ep : Endpoint := (P2P.findEp demoD2.remotes 1).getD demoDropEp

theorem some_getD_of_isSome {α} (o : Option α) (d : α) (h : o.isSome = true) : o = some (o.getD d) := by
  cases o with
  | none => cases h
  | some a => rfl

/-- Two calls with the remote player's input missing (predicted), an accepted `disconnect_player`,
and the call that re-simulates both frames with the player marked Disconnected: a path of the world
with drops. -/
theorem demo_drop_run (t : TLState) : ∃ t', XStar (demoD0, t) (demoD4, t') := by
  have e1 := ok_of_isOk _ demo_okD1
  have e2 := ok_of_isOk _ demo_okD2
  have e3 := ok_of_isOk _ demo_okD3
  have e4 := ok_of_isOk _ demo_okD4
  have e3' : demoD2.disconnectPlayer 0 1 = .ok (demoD3, .ok ()) := by
    rw [e3]
    have : getOk (demoD2.disconnectPlayer 0 1) = (demoD3, (getOk (demoD2.disconnectPlayer 0 1)).2) := rfl
    rw [this, demo_okD3']
  have p1 := XStar.step _ _ _ (XStar.step _ _ _ (XStar.step _ _ _ (XStar.refl (demoD0, t))
      (XStep.localInput demoD0 t 0 5))
      (XStep.tick _ (getOk (dTick demoD0 5)).1 t 0 (getOk (dTick demoD0 5)).2 e1))
      (XStep.saves (getOk (dTick demoD0 5)).1 _ (demoSaves (getOk (dTick demoD0 5))))
  have p2 := XStar.step _ _ _ (XStar.step _ _ _ (XStar.step _ _ _ p1
      (XStep.localInput demoD1 _ 0 6))
      (XStep.tick _ (getOk (dTick demoD1 6)).1 _ 0 (getOk (dTick demoD1 6)).2 e2))
      (XStep.saves (getOk (dTick demoD1 6)).1 _ (demoSaves (getOk (dTick demoD1 6))))
  have p3 := XStar.step _ _ _ p2 (XStep.dropApi demoD2 demoD3 _ 0 1 1 demoD2ep (by decide)
      (some_getD_of_isSome (P2P.findEp demoD2.remotes 1) demoDropEp (by decide)) (by decide)
      (by decide) (by decide) (by decide) e3')
  have p4 := XStar.step _ _ _ (XStar.step _ _ _ p3 (XStep.localInput demoD3 _ 0 7))
      (XStep.tick _ demoD4 _ 0 (getOk demoD4r).2 e4)
  exact ⟨_, p4⟩

/-! ### a concrete run of three sessions -/

def tri (own : Nat) : P2P :=
  { numPlayers := 3, maxPrediction := 8, sync := SyncLayer.new 3 8, sparse := false, running := true, fps := 60,
    handles := [(0, if own = 0 then .localPlayer else .remote 0), (1, if own = 1 then .localPlayer else .remote 1),
                (2, if own = 2 then .localPlayer else .remote 2)],
    remotes := [], spectators := [], localConnectStatus := List.replicate 3 {}, desync := none, pred := .repeatLast }

def triTick (s : P2P) (h : Nat) (v : Input) : Except String (P2P × List Request) :=
  (s.addLocalInput h v).1.advanceRollbackFrame 0 []

def triA1 : P2P := ((getOk (triTick (tri 0) 0 4)).1).userExecute (demoSaves (getOk (triTick (tri 0) 0 4)))
/-- B and C each receive A's frame 0 (value 4, as A's queue holds it) -/
def triB1 : P2P := getOk ((tri 1).handleEventCore 0 (.input ⟨0, 4⟩ 0) [0] 0)
def triC1 : P2P := getOk ((tri 2).handleEventCore 0 (.input ⟨0, 4⟩ 0) [0] 0)

theorem tri_okA : isOk (triTick (tri 0) 0 4) = true := by decide
theorem tri_okB : isOk ((tri 1).handleEventCore 0 (.input ⟨0, 4⟩ 0) [0] 0) = true := by decide
theorem tri_okC : isOk ((tri 2).handleEventCore 0 (.input ⟨0, 4⟩ 0) [0] 0) = true := by decide

/-- A submits an input and simulates frame 0; its frame 0 then arrives at B and at C, each time read
off A's queue: a path of the triple world. -/
theorem demo_triple_run (tA tB tC : TLState) :
    ∃ tA', TStar ⟨(tri 0, tA), (tri 1, tB), (tri 2, tC)⟩ ⟨(triA1, tA'), (triB1, tB), (triC1, tC)⟩ := by
  have eA := ok_of_isOk _ tri_okA
  have eB := ok_of_isOk _ tri_okB
  have eC := ok_of_isOk _ tri_okC
  have p1 : TStar ⟨(tri 0, tA), (tri 1, tB), (tri 2, tC)⟩ ⟨((tri 0).addLocalInput 0 4 |>.1, tA), (tri 1, tB), (tri 2, tC)⟩ :=
    TStar.step _ _ _ (TStar.refl _) (TStep.aFromB ⟨(tri 0, tA), (tri 1, tB), (tri 2, tC)⟩ _ (TMove.localInput (tri 0) tA _ _ 0 4))
  have p2 := TStar.step _ _ _ p1 (TStep.aFromB ⟨(((tri 0).addLocalInput 0 4).1, tA), (tri 1, tB), (tri 2, tC)⟩ _
      (TMove.tick _ (getOk (triTick (tri 0) 0 4)).1 tA _ _ 0 (getOk (triTick (tri 0) 0 4)).2 eA))
  have p3 := TStar.step _ _ _ p2 (TStep.aFromB ⟨((getOk (triTick (tri 0) 0 4)).1, _), (tri 1, tB), (tri 2, tC)⟩ _
      (TMove.saves (getOk (triTick (tri 0) 0 4)).1 _ _ _ (demoSaves (getOk (triTick (tri 0) 0 4)))))
  have p4 := TStar.step _ _ _ p3 (TStep.bFromA ⟨(triA1, _), (tri 1, tB), (tri 2, tC)⟩ _
      (TMove.arrive (tri 1) triB1 tB (triA1, _) (tri 2, tC) 0 0 4 0 [0] 0
        (by decide : 0 ∈ triA1.localPlayerHandles) (by decide) (by decide : 0 ∉ (tri 2).localPlayerHandles)
        (by decide : 0 < triA1.sync.queues.length) (by decide) (by decide)
        (by decide : ((0 : Nat) : Int) ≤ (rget triA1.sync.queues 0).lastAddedFrame)
        (by decide : (rget triA1.sync.queues 0).lastAddedFrame < ((0 : Nat) : Int) + INPUT_QUEUE_LENGTH)
        (by decide : rget (rget triA1.sync.queues 0).inputs (0 % INPUT_QUEUE_LENGTH) = ⟨((0 : Nat) : Int), 4⟩) eB))
  have p5 := TStar.step _ _ _ p4 (TStep.cFromA ⟨(triA1, _), (triB1, tB), (tri 2, tC)⟩ _
      (TMove.arrive (tri 2) triC1 tC (triA1, _) (triB1, tB) 0 0 4 0 [0] 0
        (by decide : 0 ∈ triA1.localPlayerHandles) (by decide) (by decide : 0 ∉ triB1.localPlayerHandles)
        (by decide : 0 < triA1.sync.queues.length) (by decide) (by decide)
        (by decide : ((0 : Nat) : Int) ≤ (rget triA1.sync.queues 0).lastAddedFrame)
        (by decide : (rget triA1.sync.queues 0).lastAddedFrame < ((0 : Nat) : Int) + INPUT_QUEUE_LENGTH)
        (by decide : rget (rget triA1.sync.queues 0).inputs (0 % INPUT_QUEUE_LENGTH) = ⟨((0 : Nat) : Int), 4⟩) eC))
  exact ⟨_, p5⟩

/-! ### a concrete run of two lockstep sessions -/

def demoLkPeer : P2P := { demoPeer with maxPrediction := 0, sync := SyncLayer.new 2 0 }
def lkPeerTick (s : P2P) (v : Input) : Except String (P2P × List Request) :=
  (s.addLocalInput 1 v).1.advanceLockstepFrame 0 []
/-- B's call stalls (A's input is missing) but registers B's own input in its queue -/
def demoLkB1 : P2P := (getOk (lkPeerTick demoLkPeer 9)).1
/-- A receives B's frame 0 from B's queue: `demoLk1r`; A's next call simulates frame 0: `demoLk2` -/
theorem demo_okLkB1 : isOk (lkPeerTick demoLkPeer 9) = true := by decide

theorem demo_lkpair_run (tA tB : TLState) :
    ∃ tA' tB', LkPStar ((demoLk, tA), (demoLkPeer, tB)) ((demoLk2, tA'), (demoLkB1, tB')) := by
  have e1 := ok_of_isOk _ demo_okLk1
  have e1r := ok_of_isOk _ demo_okLk1r
  have e2 := ok_of_isOk _ demo_okLk2
  have f1 := ok_of_isOk _ demo_okLkB1
  have p1 := LkPStar.step _ _ _ (LkPStar.step _ _ _ (LkPStar.refl ((demoLk, tA), (demoLkPeer, tB)))
      (LkPStep.left _ _ _ (LkHalf.localInput demoLk tA (demoLkPeer, tB) 0 5)))
      (LkPStep.left _ _ _ (LkHalf.tick _ demoLk1 tA (demoLkPeer, tB) 0 (getOk (lkTick demoLk 5)).2 e1))
  have p2 := LkPStar.step _ _ _ (LkPStar.step _ _ _ p1
      (LkPStep.right _ _ _ (LkHalf.localInput demoLkPeer tB (demoLk1, _) 1 9)))
      (LkPStep.right _ _ _ (LkHalf.tick _ demoLkB1 tB (demoLk1, _) 0 (getOk (lkPeerTick demoLkPeer 9)).2 f1))
  have p3 := LkPStar.step _ _ _ p2 (LkPStep.left _ _ _
      (LkHalf.arrive demoLk1 demoLk1r _ (demoLkB1, _) 0 0 9 1 [1] 1 (by decide : 1 ∈ demoLkB1.localPlayerHandles) (by decide)
        (by decide : 1 < demoLkB1.sync.queues.length) (by decide) (by decide)
        (by decide : ((0 : Nat) : Int) ≤ (rget demoLkB1.sync.queues 1).lastAddedFrame)
        (by decide : (rget demoLkB1.sync.queues 1).lastAddedFrame < ((0 : Nat) : Int) + INPUT_QUEUE_LENGTH)
        (by decide : rget (rget demoLkB1.sync.queues 1).inputs (0 % INPUT_QUEUE_LENGTH) = ⟨((0 : Nat) : Int), 9⟩) e1r))
  have p4 := LkPStar.step _ _ _ (LkPStar.step _ _ _ p3
      (LkPStep.left _ _ _ (LkHalf.localInput demoLk1r _ (demoLkB1, _) 0 5)))
      (LkPStep.left _ _ _ (LkHalf.tick _ demoLk2 _ (demoLkB1, _) 0 (getOk (lkTick demoLk1r 5)).2 e2))
  exact ⟨_, _, p4⟩

end Ggrs
