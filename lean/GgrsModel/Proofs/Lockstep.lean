/-
L-lockstep: a lockstep session (prediction window 0) with nobody disconnected, for every
interleaving of remote-input arrivals and `advance_frame` calls: every simulated frame carries
every player's real input with status Confirmed, nothing is ever saved, loaded or re-simulated.
-/
import GgrsModel.Proofs.SyncTestProof

namespace Ggrs
open InputQueue

/-- Nobody ever asked this queue for an input it did not have: no prediction, no misprediction,
no request on record. (`confirmed_inputs` reads the ring without touching these fields.) -/
def Idle (q : InputQueue) : Prop :=
  q.prediction.frame = NULL_FRAME ∧ q.firstIncorrectFrame = NULL_FRAME ∧ q.lastRequestedFrame = NULL_FRAME

theorem addByFrame_idle (q q' : InputQueue) (inp : PlayerInput) (f : Frame) (h : Idle q)
    (ha : q.addInputByFrame inp f = .ok q') : Idle q' := by
  obtain ⟨hlr, _, _, _, _, _, hnp, _⟩ := addByFrame_fields q q' inp f ha
  obtain ⟨a, b⟩ := hnp h.1
  exact ⟨a, by rw [b]; exact h.2.1, by rw [hlr]; exact h.2.2⟩

theorem fillLoop_idle (toRep : PlayerInput) : ∀ (n : Nat) (q q' : InputQueue) (e : Frame), Idle q →
    fillLoop toRep n q e = .ok q' → Idle q' := by
  intro n
  induction n with
  | zero => intro q q' e h hf; simp only [fillLoop] at hf; cases hf; exact h
  | succ k ih =>
    intro q q' e h hf
    simp only [fillLoop] at hf
    obtain ⟨q1, h1, hf⟩ := bind_ok hf
    exact ih q1 q' (e + 1) (addByFrame_idle q q1 toRep e h h1) hf

theorem advanceQueueHead_idle (q q' : InputQueue) (f nf : Frame) (h : Idle q)
    (ha : q.advanceQueueHead f = .ok (q', nf)) : Idle q' := by
  unfold InputQueue.advanceQueueHead at ha
  simp only at ha
  generalize (if q.firstFrame = true then (0 : Frame) else (rget q.inputs (prevPos q.head)).frame + 1) = expected at ha
  by_cases hgt : expected > f + (q.frameDelay : Int)
  · rw [if_pos hgt] at ha
    have := pure_ok ha
    simp only [Prod.mk.injEq] at this
    rw [← this.1]; exact h
  · rw [if_neg hgt] at ha
    obtain ⟨q2, hfill, ha⟩ := bind_ok ha
    obtain ⟨_, ha⟩ := ensure_bind_ok ha
    have := pure_ok ha
    simp only [Prod.mk.injEq] at this
    rw [← this.1]
    exact fillLoop_idle _ _ _ _ _ h hfill

theorem addInput_idle (q q' : InputQueue) (pi : PlayerInput) (fr : Frame) (h : Idle q)
    (ha : q.addInput pi = .ok (q', fr)) : Idle q' := by
  unfold InputQueue.addInput at ha
  split at ha
  · have := pure_ok ha
    simp only [Prod.mk.injEq] at this
    rw [← this.1]; exact h
  · simp only at ha
    obtain ⟨r, hadv, ha⟩ := bind_ok ha
    obtain ⟨q1, nf⟩ := r
    simp only at ha
    have hi0 : Idle ({ q with lastUserFrame := pi.frame } : InputQueue) := h
    have hi1 : Idle q1 := advanceQueueHead_idle _ q1 pi.frame nf hi0 hadv
    split at ha
    · obtain ⟨q3, hab, ha⟩ := bind_ok ha
      have := pure_ok ha
      simp only [Prod.mk.injEq] at this
      rw [← this.1]
      exact addByFrame_idle q1 q3 pi nf hi1 hab
    · have := pure_ok ha
      simp only [Prod.mk.injEq] at this
      rw [← this.1]; exact hi1

theorem discard_idle (q q' : InputQueue) (f : Frame) (h : Idle q) (hd : q.discardConfirmedFrames f = .ok q') :
    Idle q' := by
  obtain ⟨e1, e2, e3⟩ := discard_fields q q' f hd
  exact ⟨by rw [e1]; exact h.1, by rw [e2]; exact h.2.1, by rw [e3]; exact h.2.2⟩

def AllIdle (qs : List InputQueue) : Prop := ∀ p, p < qs.length → Idle (rget qs p)

theorem AllIdle_rset (qs : List InputQueue) (i : Nat) (q' : InputQueue) (h : AllIdle qs) (hq : Idle q') :
    AllIdle (rset qs i q') := by
  intro p hp
  rw [rset_length] at hp
  by_cases hpi : p = i
  · subst hpi; rw [rget_rset_eq _ _ _ hp]; exact hq
  · rw [rget_rset_ne _ _ _ _ (fun e => hpi e.symm)]; exact h p hp

/-- The confirmed input of a frame the stream holds (and the ring still holds). -/
theorem confirmedInput_spec (q : InputQueue) (s : QSpec) (h : Refines q.strip s) (f : Nat)
    (hf : f < s.vals.length) (hw : s.vals.length ≤ f + INPUT_QUEUE_LENGTH) :
    q.confirmedInput (f : Int) = .ok ⟨(f : Int), s.vals.getD f 0⟩ := by
  have hslot := h.slots f hf hw
  have hin : q.strip.inputs = q.inputs := rfl
  rw [hin] at hslot
  unfold InputQueue.confirmedInput
  have hidx : frameIdx (f : Int) INPUT_QUEUE_LENGTH = f % INPUT_QUEUE_LENGTH := by
    simp [frameIdx, usizeOfFrame]
  simp only [hidx, hslot, beq_self_eq_true, if_true]

/-! ### the session-level steps keep every queue idle -/

theorem registerOne_idle (s s' : P2P) (hd : Nat) (hi : AllIdle s.sync.queues) (h : s.registerOne hd = .ok s') :
    AllIdle s'.sync.queues := by
  unfold P2P.registerOne at h
  obtain ⟨pi, _, h⟩ := bind_ok h
  obtain ⟨r, hadd, h⟩ := bind_ok h
  obtain ⟨sy, actual⟩ := r
  simp only at h
  unfold SyncLayer.addLocalInput at hadd
  obtain ⟨_, hadd⟩ := ensure_bind_ok hadd
  obtain ⟨hpl, hadd⟩ := ensure_bind_ok hadd
  have hp : hd < s.sync.queues.length := of_decide_eq_true hpl
  obtain ⟨r2, haq, hadd⟩ := bind_ok hadd
  obtain ⟨q', fr⟩ := r2
  simp only at hadd
  have := pure_ok hadd
  simp only [Prod.mk.injEq] at this
  obtain ⟨hsy, _⟩ := this
  have hq' : Idle q' := addInput_idle _ q' pi fr (hi hd hp) haq
  have hi1 : AllIdle sy.queues := by rw [← hsy]; exact AllIdle_rset _ _ _ hi hq'
  split at h
  · obtain ⟨s2, hbl, h⟩ := bind_ok h
    have hc1 := P2P.queueInitialBlanks_sameCore _ _ _ _ hbl
    have hc2 := P2P.queueOutgoing_sameCore _ _ _ _ h
    rw [hc2.sync]
    show AllIdle s2.sync.queues
    rw [hc1.sync]
    exact hi1
  · have := pure_ok h
    subst this
    exact hi1

theorem registerLocalInputs_idle (s s' : P2P) (now : Nat) (hi : AllIdle s.sync.queues)
    (h : s.registerLocalInputs now = .ok s') : AllIdle s'.sync.queues := by
  unfold P2P.registerLocalInputs at h
  obtain ⟨s1, hfold, hsend⟩ := bind_ok h
  have hf : ∀ (l : List Nat) (a b : P2P), AllIdle a.sync.queues → l.foldlM P2P.registerOne a = .ok b → AllIdle b.sync.queues := by
    intro l
    induction l with
    | nil => intro a b ha hh; simp only [List.foldlM_nil] at hh; have := pure_ok hh; subst this; exact ha
    | cons x xs ih =>
      intro a b ha hh
      simp only [List.foldlM_cons] at hh
      obtain ⟨a1, h1, hh⟩ := bind_ok hh
      exact ih a1 b (registerOne_idle a a1 x ha h1) hh
  have hc := P2P.sendReady_sameCore _ _ _ hsend
  rw [hc.sync]
  exact hf _ s s1 hi hfold

theorem remoteInput_idle (s s' : P2P) (now : Nat) (inp : PlayerInput) (player : Nat) (handles : List Nat) (addr : Nat)
    (hi : AllIdle s.sync.queues) (hev : s.handleEventCore now (.input inp player) handles addr = .ok s') :
    AllIdle s'.sync.queues := by
  unfold P2P.handleEventCore at hev
  simp only at hev
  obtain ⟨_, hev⟩ := ensure_bind_ok hev
  split at hev
  · obtain ⟨_, hev⟩ := ensure_bind_ok hev
    obtain ⟨sy, hadd, hev⟩ := bind_ok hev
    have := pure_ok hev
    subst this
    unfold SyncLayer.addRemoteInput at hadd
    obtain ⟨hpl, hadd⟩ := ensure_bind_ok hadd
    obtain ⟨r, haq, hadd⟩ := bind_ok hadd
    obtain ⟨q', fr⟩ := r
    simp only at hadd
    have := pure_ok hadd
    subst this
    have hp : player < s.sync.queues.length := of_decide_eq_true hpl
    exact AllIdle_rset _ _ _ hi (addInput_idle _ q' _ fr (hi player hp) haq)
  · have := pure_ok hev
    subst this
    exact hi

theorem setLastConfirmed_idle (sy sy' : SyncLayer) (f : Frame) (sp : Bool) (hi : AllIdle sy.queues)
    (h : sy.setLastConfirmedFrame f sp = .ok sy') : AllIdle sy'.queues := by
  unfold SyncLayer.setLastConfirmedFrame at h
  simp only at h
  generalize (min (if sp = true then min f sy.lastSavedFrame else f) sy.currentFrame) = fr at h
  obtain ⟨_, h⟩ := ensure_bind_ok h
  by_cases hpos : fr > 0
  · simp only [hpos, if_true] at h
    obtain ⟨qs, hmap, h⟩ := bind_ok h
    have := pure_ok h
    subst this
    obtain ⟨hl, hpt⟩ := mapM_ok _ _ _ hmap
    intro p hp
    have hp' : p < sy.queues.length := by rw [← hl]; exact hp
    exact discard_idle _ _ _ (hi p hp') (hpt p hp')
  · simp only [hpos, if_false] at h
    have := pure_ok h
    subst this
    exact hi

/-! ### `confirmed_inputs` and the simulated frame -/

/-- A confirmed input that was handed out is the stream's input of that frame — also when the
stream has run more than a ring ahead: then the slot holds another frame and the call fails. -/
theorem confirmedInput_ok (q : InputQueue) (s : QSpec) (h : Refines q.strip s) (c : Nat)
    (hc : c < s.vals.length) (pi : PlayerInput) (hok : q.confirmedInput (c : Int) = .ok pi) :
    pi = ⟨(c : Int), s.vals.getD c 0⟩ := by
  have hq : INPUT_QUEUE_LENGTH = 128 := rfl
  have hin : q.strip.inputs = q.inputs := rfl
  unfold InputQueue.confirmedInput at hok
  have hidx : frameIdx (c : Int) INPUT_QUEUE_LENGTH = c % INPUT_QUEUE_LENGTH := by
    simp [frameIdx, usizeOfFrame]
  simp only [hidx] at hok
  by_cases hfr : ((rget q.inputs (c % INPUT_QUEUE_LENGTH)).frame == (c : Int)) = true
  · rw [if_pos hfr] at hok
    have hpi : rget q.inputs (c % INPUT_QUEUE_LENGTH) = pi := by cases hok; rfl
    have hfr' : (rget q.inputs (c % INPUT_QUEUE_LENGTH)).frame = (c : Int) := by simpa using hfr
    by_cases hw : s.vals.length ≤ c + INPUT_QUEUE_LENGTH
    · have := h.slots c hc hw
      rw [hin] at this
      rw [← hpi, this]
    · exfalso
      -- the slot holds the frame of the newest 128 that is congruent to c
      rw [hq] at hw
      obtain ⟨k, hk1, hk2, hk3, hk4⟩ : ∃ k, k < s.vals.length ∧ s.vals.length ≤ k + 128 ∧ k % 128 = c % 128 ∧ k ≠ c :=
        ⟨s.vals.length - 128 + ((c % 128 + 128 - (s.vals.length - 128) % 128) % 128), by omega, by omega, by omega, by omega⟩
      have := h.slots k hk1 (by rw [hq]; exact hk2)
      rw [hin, hq, hk3, ← hq] at this
      rw [this] at hfr'
      simp only at hfr'
      omega
  · rw [if_neg hfr] at hok
    cases hok

theorem confirmedInputsLoop_ok (frame : Frame) (qs : List InputQueue) :
    ∀ (st : List ConnStatus) (i : Nat) (acc out : List PlayerInput), (∀ cs ∈ st, cs.disconnected = false) →
    SyncLayer.confirmedInputsLoop frame qs st i acc = .ok out →
    ∃ l : List PlayerInput, out = acc.reverse ++ l ∧ l.length = st.length ∧
      ∀ k, k < st.length → i + k < qs.length ∧ (rget qs (i + k)).confirmedInput frame = .ok (rget l k) := by
  intro st
  induction st with
  | nil =>
    intro i acc out _ h
    simp only [SyncLayer.confirmedInputsLoop] at h
    cases h
    exact ⟨[], by simp, rfl, fun k hk => by simp at hk⟩
  | cons cs rest ih =>
    intro i acc out hc h
    have hcs : cs.disconnected = false := hc cs List.mem_cons_self
    simp only [SyncLayer.confirmedInputsLoop, hcs, Bool.false_and, Bool.false_eq_true, if_false] at h
    obtain ⟨hi, h⟩ := ensure_bind_ok h
    obtain ⟨pi, hpi, h⟩ := bind_ok h
    obtain ⟨l, hout, hlen, hpt⟩ := ih (i + 1) (pi :: acc) out (fun c hcm => hc c (List.mem_cons_of_mem _ hcm)) h
    refine ⟨pi :: l, by rw [hout]; simp, by simp [hlen], ?_⟩
    intro k hk
    cases k with
    | zero => exact ⟨by simpa using hi, by simpa [rget] using hpi⟩
    | succ k =>
      obtain ⟨a, b⟩ := hpt k (by simpa using hk)
      have e : i + (k + 1) = i + 1 + k := by omega
      rw [e]
      exact ⟨a, by simpa [rget] using b⟩

/-- A frame the queue holds is simulated with its real input: the column moves on by one frame, the
queue itself is untouched. -/
theorem QI_consume (pr : Predictor) (q : InputQueue) (s : QSpec) (H : Hist) (Tp : Nat → Input) (c : Nat)
    (h : QI pr q s H Tp (c : Int)) (hi : Idle q) (hc : c < s.vals.length) :
    QI pr q s H (upd Tp c (s.vals.getD c 0)) ((c : Int) + 1) := by
  refine ⟨h.ring, h.pt, ⟨?_, ?_, Or.inl hi.2.2⟩⟩
  · intro f hf
    by_cases hfc : f = c
    · subst hfc
      exact Or.inr (Or.inl ⟨hc, by rw [upd_self]⟩)
    · rw [upd_ne _ _ _ _ hfc]
      exact h.tl.col f (by omega)
  · intro hlen _
    omega

/-! ### the lockstep invariant and one call -/

/-- A lockstep session with nobody disconnected: the session invariant, every queue idle, every
queue holding every simulated frame, and every simulated row the full row of real, Confirmed
inputs. -/
structure LkInv (s : P2P) (gh : Ghost) (t : TLState) : Prop where
  sess : SessInv s gh t []
  idle : AllIdle s.sync.queues
  full : ∀ p, p < s.sync.queues.length → s.sync.currentFrame ≤ ((gh.specs p).vals.length : Int)
  rows : ∀ f : Nat, (f : Int) < s.sync.currentFrame → (t.R f).length = s.sync.queues.length ∧
    ∀ p, p < s.sync.queues.length → ((t.R f).getD p default).2 = InputStatus.confirmed

theorem rget_zipIdx {α} [Inhabited α] (l : List α) (p : Nat) (hp : p < l.length) :
    rget l.zipIdx p = (rget l p, p) := by
  simp [rget, List.getD_eq_getElem?_getD, hp]

theorem rget_eq_getElem {α} [Inhabited α] (l : List α) (p : Nat) (hp : p < l.length) : rget l p = l[p] := by
  simp [rget, List.getD_eq_getElem?_getD, hp]

theorem rowOf_getD (gh : Ghost) (N f p : Nat) (hp : p < N) :
    (rowOf gh N f).getD p default = ((gh.specs p).vals.getD f 0, InputStatus.confirmed) := by
  simp [rowOf, List.getD_eq_getElem?_getD, hp]

/-- The frame-consuming step of lockstep: nothing, or exactly one AdvanceFrame on the full row of
real inputs. -/
theorem lockstepAdvance_spec (s s' : P2P) (gh : Ghost) (t : TLState) (conf : Frame) (reqs' : List Request)
    (h : LkInv s gh t) (hconf : s.confirmedFrame = .ok conf)
    (hstep : s.lockstepAdvance s.sync.currentFrame conf [] = .ok (s', reqs')) :
    (reqs' = [] ∧ s' = s) ∨
    ∃ (c : Nat) (gh' : Ghost), s.sync.currentFrame = (c : Int) ∧ reqs' = [.advance (rowOf gh s.sync.queues.length c)] ∧
      gh'.specs = gh.specs ∧ SessInv s' gh' t reqs' ∧ AllIdle s'.sync.queues ∧
      s'.sync.currentFrame = s.sync.currentFrame + 1 ∧ s'.sync.queues = s.sync.queues ∧
      s'.localConnectStatus = s.localConnectStatus ∧ s'.sparse = s.sparse ∧ s'.handles = s.handles ∧ s'.pred = s.pred ∧
      (∀ p, p < s.sync.queues.length → (c : Int) + 1 ≤ ((gh.specs p).vals.length : Int)) := by
  unfold P2P.lockstepAdvance at hstep
  by_cases hge : conf ≥ s.sync.currentFrame
  · rw [if_pos hge] at hstep
    right
    obtain ⟨cis, hcis, hstep⟩ := bind_ok hstep
    obtain ⟨inputs, hmap, hstep⟩ := bind_ok hstep
    have := pure_ok hstep
    simp only [Prod.mk.injEq] at this
    obtain ⟨hs', hr'⟩ := this
    have hsi := h.sess
    have hcur0 := hsi.tinv.sync.cur
    obtain ⟨c, hc⟩ : ∃ c : Nat, s.sync.currentFrame = (c : Int) := ⟨s.sync.currentFrame.toNat, by omega⟩
    have hN := hsi.tinv.sync.nq
    have hconn := hsi.tinv.sync.conn
    -- every queue holds frame c
    have hle := confirmedFrame_le s conf hconf hconn
    have hfull : ∀ p, p < s.sync.queues.length → (c : Int) + 1 ≤ ((gh.specs p).vals.length : Int) := by
      intro p hp
      have h1 := hle p (by rw [hN]; exact hp)
      have h2 := hsi.status p hp
      rw [lastAdded_of_QI (hsi.tinv.sync.all p hp)] at h2
      omega
    -- the confirmed inputs
    unfold SyncLayer.confirmedInputs at hcis
    obtain ⟨l, hout, hlen, hpt⟩ := confirmedInputsLoop_ok _ _ _ 0 [] cis hconn hcis
    simp only [List.reverse_nil, List.nil_append] at hout
    subst hout
    have hcisv : ∀ p, p < s.sync.queues.length → rget cis p = ⟨(c : Int), (gh.specs p).vals.getD c 0⟩ := by
      intro p hp
      obtain ⟨_, hk⟩ := hpt p (by rw [hN]; exact hp)
      rw [Nat.zero_add, hc] at hk
      exact confirmedInput_ok _ _ (hsi.tinv.sync.all p hp).ring c (by have := hfull p hp; omega) _ hk
    -- the row handed to the game
    obtain ⟨hil, hip⟩ := mapM_ok _ _ _ hmap
    have hzl : cis.zipIdx.length = s.sync.queues.length := by rw [List.length_zipIdx, hlen, hN]
    have hrow : inputs = rowOf gh s.sync.queues.length c := by
      apply List.ext_getElem (by rw [hil, hzl, rowOf_length])
      intro p h1 h2
      have hp : p < s.sync.queues.length := by rw [hil, hzl] at h1; exact h1
      have hk := hip p (by rw [hzl]; exact hp)
      rw [rget_zipIdx _ _ (by rw [hlen, hN]; exact hp), hcisv p hp] at hk
      unfold P2P.lockstepInput at hk
      obtain ⟨_, hk⟩ := ensure_bind_ok hk
      have hk := pure_ok hk
      rw [← rget_eq_getElem _ _ h1, ← hk]
      simp only [rowOf, List.getElem_map, List.getElem_range]
      have hne : ((c : Int) == NULL_FRAME) = false := by
        simp only [beq_eq_false_iff_ne, ne_eq, NULL_FRAME]; omega
      simp [hne]
    subst hs'
    -- the new ghost timeline
    let gh' : Ghost := { gh with T := fun p => upd (gh.T p) c ((gh.specs p).vals.getD c 0) }
    have hexec : execReqs t ([] ++ [Request.advance inputs]) = ⟨t.cur + 1, upd t.R t.cur.toNat inputs⟩ := rfl
    have htc : t.cur = (c : Int) := by have := hsi.tinv.exec; simp only [execReqs, List.foldl_nil] at this; rw [this, hc]
    refine ⟨c, gh', hc, by rw [← hr', hrow]; rfl, rfl, ?_, h.idle, rfl, rfl, rfl, rfl, rfl, rfl, hfull⟩
    rw [← hr']
    refine ⟨⟨⟨by show 0 ≤ s.sync.currentFrame + 1; omega, hN, hconn, ?_⟩, ?_, ?_⟩, ?_, hsi.status, hsi.remote⟩
    · intro p hp
      show QI s.pred (rget s.sync.queues p) (gh.specs p) (gh.hists p) (upd (gh.T p) c _) (s.sync.currentFrame + 1)
      rw [hc]
      have := hsi.tinv.sync.all p hp
      rw [hc] at this
      exact QI_consume s.pred _ _ _ _ c this (h.idle p hp) (by have := hfull p hp; omega)
    · rw [hexec]; show t.cur + 1 = s.sync.currentFrame + 1; rw [htc, hc]
    · intro p hp f
      rw [hexec]
      show upd (gh.T p) c _ f = ((upd t.R t.cur.toNat inputs f).getD p default).1
      have htn : t.cur.toNat = c := by rw [htc]; simp
      rw [htn]
      by_cases hfc : f = c
      · subst hfc
        rw [upd_self, upd_self, hrow, rowOf_getD gh s.sync.queues.length f p hp]
      · rw [upd_ne _ _ _ _ hfc, upd_ne _ _ _ _ hfc]
        have := hsi.tinv.rows p hp f
        simp only [execReqs, List.foldl_nil] at this
        exact this
    · intro p hp _
      right
      show s.sync.currentFrame + 1 ≤ (rget s.sync.queues p).lastAddedFrame + 1
      rw [lastAdded_of_QI (hsi.tinv.sync.all p hp), hc]
      have := hfull p hp
      omega
  · rw [if_neg hge] at hstep
    have := pure_ok hstep
    simp only [Prod.mk.injEq] at this
    exact Or.inl ⟨this.2.symm, this.1.symm⟩

/-- What the invariant says about the game's timeline: every simulated row is the full row of the
real inputs, all Confirmed. -/
theorem LkInv.timeline {s : P2P} {gh : Ghost} {t : TLState} (h : LkInv s gh t) :
    ∀ f : Nat, (f : Int) < s.sync.currentFrame → t.R f = rowOf gh s.sync.queues.length f := by
  intro f hf
  obtain ⟨hl, hst⟩ := h.rows f hf
  apply List.ext_getElem (by rw [hl, rowOf_length])
  intro p h1 h2
  have hp : p < s.sync.queues.length := by rw [hl] at h1; exact h1
  have hrow := h.sess.tinv.rows p hp f
  simp only [execReqs, List.foldl_nil] at hrow
  have hval : gh.T p f = (gh.specs p).vals.getD f 0 := by
    rcases (h.sess.tinv.sync.all p hp).tl.col f hf with ⟨a, _⟩ | ⟨_, b⟩ | ⟨a, _⟩
    · exact absurd (h.idle p hp).2.1 a
    · exact b
    · have := h.full p hp; omega
  rw [← rget_eq_getElem _ _ h1]
  simp only [rowOf, List.getElem_map, List.getElem_range]
  have e : rget (t.R f) p = (t.R f).getD p default := rfl
  rw [e]
  exact Prod.ext (by rw [← hrow, hval]) (hst p hp)

/-- The bookkeeping after the frame was (or was not) consumed. -/
theorem lockstepTail_spec (s s3 : P2P) (sy4 : SyncLayer) (gh : Ghost) (t : TLState) (now : Nat) (conf : Frame)
    (h : LkInv s gh t) (hconf : s.confirmedFrame = .ok conf)
    (hspec : s.sendConfirmedInputsToSpectators now (min conf (s.sync.currentFrame - 1)) = .ok s3)
    (hset : s3.sync.setLastConfirmedFrame (min conf (s.sync.currentFrame - 1)) s3.sparse = .ok sy4) :
    LkInv { s3 with sync := sy4 } gh t := by
  have hc3 := P2P.sendConfirmed_sameCore _ _ _ _ hspec
  have hs3 : SessInv s3 gh t [] := SessInv_congr s s3 gh t [] h.sess hc3.pred hc3.sync hc3.statuses hc3.handles
  have hle := confirmedFrame_le s conf hconf h.sess.tinv.sync.conn
  obtain ⟨hs4, hcur4, _, hql4⟩ := setLastConfirmed_spec s3 sy4 gh t [] _ hs3
    (fun p hp => by
      rw [hc3.statuses]
      rw [hc3.sync] at hp
      have := hle p (by rw [h.sess.tinv.sync.nq]; exact hp)
      exact Int.le_trans (Int.min_le_left _ _) this) hset
  have hi4 := setLastConfirmed_idle _ _ _ _ (by rw [hc3.sync]; exact h.idle) hset
  refine ⟨hs4, hi4, ?_, ?_⟩
  · intro p hp
    show sy4.currentFrame ≤ _
    rw [hcur4, hc3.sync]
    exact h.full p (by rw [← hc3.sync, ← hql4]; exact hp)
  · intro f hf
    have hq : sy4.queues.length = s.sync.queues.length := by rw [hql4, hc3.sync]
    show (t.R f).length = sy4.queues.length ∧ ∀ p, p < sy4.queues.length → _
    rw [hq]
    exact h.rows f (by have : sy4.currentFrame = s.sync.currentFrame := by rw [hcur4, hc3.sync]
                       rw [← this]; exact hf)

/-- **One lockstep `advance_frame`.** The request list is empty or a single AdvanceFrame carrying
the full row of real inputs, all Confirmed; no SaveGameState, no LoadGameState, ever. -/
theorem lockstepTick_spec (s s' : P2P) (gh : Ghost) (t : TLState) (now : Nat) (reqs' : List Request)
    (h : LkInv s gh t) (hadv : s.advanceLockstepFrame now [] = .ok (s', reqs')) :
    ∃ gh', LkInv s' gh' (execReqs t reqs') ∧
      ((reqs' = [] ∧ s'.sync.currentFrame = s.sync.currentFrame) ∨
       (∃ c : Nat, s.sync.currentFrame = (c : Int) ∧ reqs' = [.advance (rowOf gh' s.sync.queues.length c)] ∧
         s'.sync.currentFrame = s.sync.currentFrame + 1)) ∧
      s'.sync.queues.length = s.sync.queues.length := by
  unfold P2P.advanceLockstepFrame at hadv
  obtain ⟨s1, hreg, hadv⟩ := bind_ok hadv
  obtain ⟨c1, hc1, hadv⟩ := bind_ok hadv
  obtain ⟨r2, hstep, hadv⟩ := bind_ok hadv
  obtain ⟨s2, reqs2⟩ := r2
  simp only at hadv
  obtain ⟨c2, hc2, hadv⟩ := bind_ok hadv
  obtain ⟨s3, hspec, hadv⟩ := bind_ok hadv
  obtain ⟨sy4, hset, hadv⟩ := bind_ok hadv
  have := pure_ok hadv
  simp only [Prod.mk.injEq] at this
  obtain ⟨hs', hr'⟩ := this
  -- the local inputs
  obtain ⟨gh1, hs1, hk⟩ := registerLocalInputs_spec s s1 gh t [] now h.sess hreg
  have hl1 : LkInv s1 gh1 t := by
    refine ⟨hs1, registerLocalInputs_idle s s1 now h.idle hreg, ?_, ?_⟩
    · intro p hp
      rw [hk.cur]
      have := h.full p (by rw [← hk.nq]; exact hp)
      have := hk.grows p
      omega
    · intro f hf
      rw [hk.nq]
      exact h.rows f (by rw [← hk.cur]; exact hf)
  rcases lockstepAdvance_spec s1 s2 gh1 t c1 reqs2 hl1 hc1 hstep with ⟨hre, hse⟩ | ⟨c, gh2, hcc, hre, hsp2, hs2, hi2, hcur2, hq2, hst2, _, _, _, hfull2⟩
  · -- the frame was not consumed
    subst hse
    subst hre
    have hl4 := lockstepTail_spec s2 s3 sy4 gh1 t now c2 hl1 hc2 hspec hset
    subst hs'
    subst hr'
    refine ⟨gh1, hl4, Or.inl ⟨rfl, ?_⟩, ?_⟩
    · have hc3 := P2P.sendConfirmed_sameCore _ _ _ _ hspec
      obtain ⟨_, hcur4⟩ := setLastConfirmed_cells _ _ _ _ hset
      show sy4.currentFrame = _
      rw [hcur4, hc3.sync, hk.cur]
    · have hc3 := P2P.sendConfirmed_sameCore _ _ _ _ hspec
      obtain ⟨_, _, _, hql⟩ := setLastConfirmed_spec s3 sy4 gh1 t [] _
        (SessInv_congr s2 s3 gh1 t [] hs1 hc3.pred hc3.sync hc3.statuses hc3.handles)
        (fun p hp => by
          rw [hc3.statuses]
          rw [hc3.sync] at hp
          have := confirmedFrame_le s2 c2 hc2 hs1.tinv.sync.conn p (by rw [hs1.tinv.sync.nq]; exact hp)
          exact Int.le_trans (Int.min_le_left _ _) this) hset
      show sy4.queues.length = _
      rw [hql, hc3.sync, hk.nq]
  · -- one frame consumed
    have hs2' := SessInv_rebase s2 gh2 t reqs2 hs2
    have hl2 : LkInv s2 gh2 (execReqs t reqs2) := by
      refine ⟨hs2', hi2, ?_, ?_⟩
      · intro p hp
        rw [hcur2, hcc, hsp2]
        exact hfull2 p (by rw [← hq2]; exact hp)
      · intro f hf
        rw [hq2]
        rw [hcur2, hcc] at hf
        have htc : t.cur = (c : Int) := by
          have := hs1.tinv.exec; simp only [execReqs, List.foldl_nil] at this; rw [this, hcc]
        have hR : (execReqs t reqs2).R = upd t.R c (rowOf gh1 s1.sync.queues.length c) := by
          rw [hre]
          simp only [execReqs, List.foldl_cons, List.foldl_nil, execReq, htc]
          simp
        rw [hR]
        by_cases hfc : f = c
        · subst hfc
          rw [upd_self]
          exact ⟨rowOf_length _ _ _, fun p hp => by rw [rowOf_getD _ _ _ _ hp]⟩
        · rw [upd_ne _ _ _ _ hfc]
          exact hl1.rows f (by rw [hcc]; omega)
    have hl4 := lockstepTail_spec s2 s3 sy4 gh2 (execReqs t reqs2) now c2 hl2 hc2 hspec hset
    subst hs'
    subst hr'
    have hc3 := P2P.sendConfirmed_sameCore _ _ _ _ hspec
    obtain ⟨_, hcur4⟩ := setLastConfirmed_cells _ _ _ _ hset
    refine ⟨gh2, hl4, Or.inr ⟨c, by rw [← hk.cur]; exact hcc, ?_, ?_⟩, ?_⟩
    · rw [hre, rowOf_specs gh1 gh2 _ hsp2, hk.nq]
    · show sy4.currentFrame = _
      rw [hcur4, hc3.sync, hcur2, hk.cur]
    · have := hl4.sess.tinv.sync.nq
      have h2 := hl2.sess.tinv.sync.nq
      show sy4.queues.length = _
      have e1 : sy4.queues.length = s3.localConnectStatus.length := this.symm
      rw [e1, hc3.statuses, h2, hq2, hk.nq]

/-! ### every run -/

theorem remoteInput_nq (s s' : P2P) (now : Nat) (inp : PlayerInput) (player : Nat) (handles : List Nat) (addr : Nat)
    (hev : s.handleEventCore now (.input inp player) handles addr = .ok s') :
    s'.sync.queues.length = s.sync.queues.length := by
  unfold P2P.handleEventCore at hev
  simp only at hev
  obtain ⟨_, hev⟩ := ensure_bind_ok hev
  split at hev
  · obtain ⟨_, hev⟩ := ensure_bind_ok hev
    obtain ⟨sy, hadd, hev⟩ := bind_ok hev
    have := pure_ok hev
    subst this
    unfold SyncLayer.addRemoteInput at hadd
    obtain ⟨_, hadd⟩ := ensure_bind_ok hadd
    obtain ⟨r, _, hadd⟩ := bind_ok hadd
    have := pure_ok hadd
    subst this
    show (rset _ _ _).length = _
    rw [rset_length]; rfl
  · have := pure_ok hev
    subst this
    rfl

/-- Steps of a lockstep session and the timeline of the game it drives. -/
inductive LkStep : (P2P × TLState) → (P2P × TLState) → Prop
  | remoteInput (s s' : P2P) (t : TLState) (now : Nat) (inp : PlayerInput) (player : Nat) (handles : List Nat)
      (addr : Nat) : player ∉ s.localPlayerHandles → 0 ≤ inp.frame →
      s.handleEventCore now (.input inp player) handles addr = .ok s' → LkStep (s, t) (s', t)
  | tick (s s' : P2P) (t : TLState) (now : Nat) (reqs' : List Request) :
      s.advanceLockstepFrame now [] = .ok (s', reqs') → LkStep (s, t) (s', execReqs t reqs')
  /-- the user submits a local player's input for the coming call (`add_local_input`) -/
  | localInput (s : P2P) (t : TLState) (handle : Nat) (input : Input) :
      LkStep (s, t) ((s.addLocalInput handle input).1, t)

inductive LkStar : (P2P × TLState) → (P2P × TLState) → Prop
  | refl (x : P2P × TLState) : LkStar x x
  | step (x y z : P2P × TLState) : LkStar x y → LkStep y z → LkStar x z

theorem LkInv_step (x y : P2P × TLState) (h : ∃ gh, LkInv x.1 gh x.2) (hs : LkStep x y) : ∃ gh, LkInv y.1 gh y.2 := by
  obtain ⟨gh, h⟩ := h
  cases hs with
  | remoteInput s s' t now inp player handles addr hnl h0 hev =>
    obtain ⟨gh', h', hT, hcur, _, _, hsp⟩ := remoteInput_spec s s' gh t [] now inp player handles addr h.sess hnl h0 hev
    have hq := remoteInput_nq s s' now inp player handles addr hev
    refine ⟨gh', h', remoteInput_idle s s' now inp player handles addr h.idle hev, ?_, ?_⟩
    · intro p hp
      show s'.sync.currentFrame ≤ _
      rw [hcur, hsp p]
      have : s.sync.currentFrame ≤ ((gh.specs p).vals.length : Int) := h.full p (by rw [← hq]; exact hp)
      by_cases hpp : p = player
      · rw [if_pos hpp]
        have := (submit_facts (gh.specs p) inp.frame inp.input).1
        omega
      · rw [if_neg hpp]; exact this
    · intro f hf
      show (t.R f).length = s'.sync.queues.length ∧ _
      rw [hq]
      exact h.rows f (by rw [← hcur]; exact hf)
  | tick s s' t now reqs' hadv =>
    obtain ⟨gh', h', _⟩ := lockstepTick_spec s s' gh t now reqs' h hadv
    exact ⟨gh', h'⟩
  | localInput s t handle input =>
    obtain ⟨l, hl⟩ := P2P.addLocalInput_pending s handle input
    show ∃ gh, LkInv (s.addLocalInput handle input).1 gh t
    rw [hl]
    exact ⟨gh, SessInv_pending s gh t [] l h.sess, h.idle, h.full, h.rows⟩

/-- **L-lockstep.** -/
theorem LkInv_run (x y : P2P × TLState) (h : ∃ gh, LkInv x.1 gh x.2) (hr : LkStar x y) : ∃ gh, LkInv y.1 gh y.2 := by
  induction hr with
  | refl => exact h
  | step y z _ hs ih => exact LkInv_step y z ih hs

theorem idle_new : Idle InputQueue.new := ⟨rfl, rfl, rfl⟩

/-- A freshly built session. -/
theorem LkInv_init (s : P2P) (R : Nat → List (Input × InputStatus)) (n : Nat)
    (hq : s.sync.queues = List.replicate n InputQueue.new) (hst : s.localConnectStatus = List.replicate n {})
    (hc : s.sync.currentFrame = 0) :
    LkInv s ⟨fun _ => {}, fun _ => [], fun p f => ((R f).getD p default).1⟩ ⟨0, R⟩ := by
  refine ⟨SessInv_init s R n hq hst hc, ?_, ?_, ?_⟩
  · intro p hp
    rw [hq] at hp ⊢
    simp only [List.length_replicate] at hp
    have : rget (List.replicate n InputQueue.new) p = InputQueue.new := by
      simp [rget, List.getD_eq_getElem?_getD, hp]
    rw [this]; exact idle_new
  · intro p _
    rw [hc]; exact Int.natCast_nonneg _
  · intro f hf
    rw [hc] at hf; omega

/-! ### the game next to a lockstep session -/

inductive LWStep {G : Type} (step : G → List (Input × InputStatus) → G) : (P2P × GS G) → (P2P × GS G) → Prop
  | remoteInput (s s' : P2P) (x : GS G) (now : Nat) (inp : PlayerInput) (player : Nat) (handles : List Nat)
      (addr : Nat) : player ∉ s.localPlayerHandles → 0 ≤ inp.frame →
      s.handleEventCore now (.input inp player) handles addr = .ok s' → LWStep step (s, x) (s', x)
  | tick (s s' : P2P) (x : GS G) (now : Nat) (reqs' : List Request) :
      s.advanceLockstepFrame now [] = .ok (s', reqs') →
      LWStep step (s, x) (s', execGs step s.sync.cells.length x reqs')
  /-- the user submits a local player's input for the coming call (`add_local_input`) -/
  | localInput (s : P2P) (x : GS G) (handle : Nat) (input : Input) :
      LWStep step (s, x) ((s.addLocalInput handle input).1, x)

inductive LWStar {G : Type} (step : G → List (Input × InputStatus) → G) : (P2P × GS G) → (P2P × GS G) → Prop
  | refl (w) : LWStar step w w
  | step (a b c) : LWStar step a b → LWStep step b c → LWStar step a c

/-- Session and game: the lockstep invariant against the game's own timeline, and the game's state
the serial replay of that timeline. -/
structure LWInv {G : Type} (step : G → List (Input × InputStatus) → G) (g0 : G) (s : P2P) (x : GS G) : Prop where
  sess : ∃ gh, LkInv s gh ⟨x.cur, x.R⟩
  state : x.g = replay step g0 x.R x.cur.toNat

theorem LWInv_step {G : Type} (step : G → List (Input × InputStatus) → G) (g0 : G) (a b : P2P × GS G)
    (h : LWInv step g0 a.1 a.2) (hs : LWStep step a b) : LWInv step g0 b.1 b.2 := by
  cases hs with
  | remoteInput s s' x now inp player handles addr hnl h0 hev =>
    exact ⟨LkInv_step (s, ⟨x.cur, x.R⟩) (s', ⟨x.cur, x.R⟩) h.sess (LkStep.remoteInput s s' _ now inp player handles addr hnl h0 hev),
      h.state⟩
  | tick s s' x now reqs' hadv =>
    obtain ⟨gh, hl⟩ := h.sess
    obtain ⟨gh', hl', hcase, _⟩ := lockstepTick_spec s s' gh ⟨x.cur, x.R⟩ now reqs' hl hadv
    obtain ⟨e1, e2⟩ := execGs_cur_R step s.sync.cells.length x reqs'
    refine ⟨⟨gh', ?_⟩, ?_⟩
    · show LkInv s' gh' ⟨(execGs step s.sync.cells.length x reqs').cur, (execGs step s.sync.cells.length x reqs').R⟩
      rw [e1, e2]; exact hl'
    · show (execGs step s.sync.cells.length x reqs').g = replay step g0 (execGs step s.sync.cells.length x reqs').R
        (execGs step s.sync.cells.length x reqs').cur.toNat
      have hxc : x.cur = s.sync.currentFrame := by
        have := hl.sess.tinv.exec; simp only [execReqs, List.foldl_nil] at this; exact this
      have h0 : 0 ≤ x.cur := by rw [hxc]; exact hl.sess.tinv.sync.cur
      rcases hcase with ⟨hre, _⟩ | ⟨c, hc, hre, _⟩
      · rw [hre]; exact h.state
      · rw [hre]
        simp only [execGs, List.foldl_cons, List.foldl_nil, execG]
        have : (x.cur + 1).toNat = x.cur.toNat + 1 := by omega
        rw [this]
        simp only [replay]
        rw [replay_upd step g0 x.R _ _ _ (Nat.le_refl _), upd_self, h.state]
  | localInput s x handle input =>
    exact ⟨LkInv_step (s, ⟨x.cur, x.R⟩) ((s.addLocalInput handle input).1, ⟨x.cur, x.R⟩) h.sess
      (LkStep.localInput s _ handle input), h.state⟩

theorem LWInv_run {G : Type} (step : G → List (Input × InputStatus) → G) (g0 : G) (a b : P2P × GS G)
    (h : LWInv step g0 a.1 a.2) (hr : LWStar step a b) : LWInv step g0 b.1 b.2 := by
  induction hr with
  | refl => exact h
  | step b c _ hs ih => exact LWInv_step step g0 b c ih hs

end Ggrs
