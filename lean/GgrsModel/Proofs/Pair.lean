/-
L-pair: two sessions next to each other — the product in which "what has arrived at a peer is a
prefix of what the owner submitted" is DERIVED along the run instead of being assumed per theorem.

State: two rollback-mode sessions with their games' timelines. A step moves one of them:
* its own steps (`SStep` without arrivals): the user submits a local input, the game writes cells,
  `advance_frame` runs and the game executes the requests;
* an arrival from the other peer: the NEXT frame (the one after the last frame this session holds
  for that player) of a player the other session owns, carrying the input the OWNER'S QUEUE holds
  for that frame at this moment. This is what the per-link theorems give: the owner hands its queue
  content to `send_input` frame by frame (`C11_owner_sends_queue`), and whatever the network loses,
  duplicates or reorders, the Input events the receiving endpoint raises are the sender's frames in
  order without gap (`C05_stream_intact`). The rule is stated on the concrete ring of the owner
  (slot, frame tag, window of 128), not on a ghost.

Invariant: both session invariants (with the glue invariant), and for every player the receiver's
stream is a prefix of the owner's. Conclusion (`pair_agree`): after any run, the two games' last
simulations agree on every input both sessions hold — `C01_agree_given_links` without its
hypothesis.
-/
import GgrsModel.Proofs.Glue
import GgrsModel.Proofs.DelayStep

namespace Ggrs
open InputQueue

/-- `a` moves to `a'` next to the peer `b`. -/
inductive Half : (P2P × TLState) → (P2P × TLState) → (P2P × TLState) → Prop
  | localInput (s : P2P) (t : TLState) (b : P2P × TLState) (handle : Nat) (input : Input) :
      Half (s, t) b ((s.addLocalInput handle input).1, t)
  | saves (s : P2P) (t : TLState) (b : P2P × TLState) (sv : List (Frame × Option Nat)) :
      Half (s, t) b (s.userExecute sv, t)
  | tick (s s' : P2P) (t : TLState) (b : P2P × TLState) (now : Nat) (reqs' : List Request) :
      s.advanceRollbackFrame now [] = .ok (s', reqs') → Half (s, t) b (s', execReqs t reqs')
  /-- the user changes the input delay of one of this session's local players (`set_input_delay`) -/
  | setDelay (s s' : P2P) (t : TLState) (b : P2P × TLState) (now handle delay : Nat) (r : Except GgrsError Unit) :
      handle ∈ s.localPlayerHandles → handle < s.sync.queues.length →
      s.setInputDelay now handle delay = .ok (s', r) → Half (s, t) b (s', t)
  /-- the next frame of a player of the other peer arrives, carrying what the owner's queue holds -/
  | arrive (s s' : P2P) (t : TLState) (b : P2P × TLState) (now : Nat) (f : Nat) (v : Input) (player : Nat)
      (handles : List Nat) (addr : Nat) :
      player ∈ b.1.localPlayerHandles → player ∉ s.localPlayerHandles →
      player < b.1.sync.queues.length → player < s.sync.queues.length →
      (f : Int) = (rget s.localConnectStatus player).lastFrame + 1 →
      (f : Int) ≤ (rget b.1.sync.queues player).lastAddedFrame →
      (rget b.1.sync.queues player).lastAddedFrame < (f : Int) + INPUT_QUEUE_LENGTH →
      rget (rget b.1.sync.queues player).inputs (f % INPUT_QUEUE_LENGTH) = ⟨(f : Int), v⟩ →
      s.handleEventCore now (.input ⟨(f : Int), v⟩ player) handles addr = .ok s' →
      Half (s, t) b (s', t)

  /-- an input of a player that NEITHER of the two sessions owns arrives (a third peer's player): any
  frame, any value — whatever the rest of a larger session does is irrelevant to the pair -/
  | arriveOther (s s' : P2P) (t : TLState) (b : P2P × TLState) (now : Nat) (inp : PlayerInput) (player : Nat)
      (handles : List Nat) (addr : Nat) :
      player ∉ s.localPlayerHandles → player ∉ b.1.localPlayerHandles → 0 ≤ inp.frame →
      s.handleEventCore now (.input inp player) handles addr = .ok s' → Half (s, t) b (s', t)

/-- One step of the pair: one of the two sessions moves. -/
inductive PStep : ((P2P × TLState) × (P2P × TLState)) → ((P2P × TLState) × (P2P × TLState)) → Prop
  | left (a a' b : P2P × TLState) : Half a b a' → PStep (a, b) (a', b)
  | right (a b b' : P2P × TLState) : Half b a b' → PStep (a, b) (a, b')

inductive PStar : ((P2P × TLState) × (P2P × TLState)) → ((P2P × TLState) × (P2P × TLState)) → Prop
  | refl (x) : PStar x x
  | step (x y z) : PStar x y → PStep y z → PStar x z

/-- What the receiver `r` holds of the players the owner `o` owns is a prefix of the owner's streams. -/
def LinkRel (r o : P2P) (ghR ghO : Ghost) : Prop :=
  ∀ p, p ∈ o.localPlayerHandles → p ∉ r.localPlayerHandles → PrefixOf (ghR.specs p).vals (ghO.specs p).vals

/-- The invariant of the pair, for explicit ghosts. -/
structure PairInv (a b : P2P × TLState) (ghA ghB : Ghost) : Prop where
  sa : SessInv a.1 ghA a.2 []
  ga : GlueInv a.1 ghA
  sb : SessInv b.1 ghB b.2 []
  gb : GlueInv b.1 ghB
  ab : LinkRel a.1 b.1 ghA ghB
  ba : LinkRel b.1 a.1 ghB ghA

theorem PairInv.symm {a b : P2P × TLState} {ghA ghB : Ghost} (h : PairInv a b ghA ghB) : PairInv b a ghB ghA :=
  ⟨h.sb, h.gb, h.sa, h.ga, h.ba, h.ab⟩

theorem prefixOf_snoc (a b : List Input) (v : Input) (h : PrefixOf a b) (hlt : a.length < b.length)
    (hv : b.getD a.length 0 = v) : PrefixOf (a ++ [v]) b := by
  refine ⟨by simp; omega, ?_⟩
  intro f hf
  simp only [List.length_append, List.length_cons, List.length_nil] at hf
  by_cases hfa : f < a.length
  · rw [h.2 f hfa]
    simp [List.getD_eq_getElem?_getD, List.getElem?_append_left hfa]
  · have : f = a.length := by omega
    subst this
    rw [hv]
    simp [List.getD_eq_getElem?_getD]

theorem prefixOf_append (a l : List Input) : PrefixOf a (a ++ l) := by
  refine ⟨by simp, ?_⟩
  intro f hf
  simp [List.getD_eq_getElem?_getD, List.getElem?_append_left hf]

/-- A remote player's stream takes the next frame at its end. -/
theorem submit_next (sp : QSpec) (v : Input) (hd : sp.delay = 0) (hl : (sp.vals.length : Int) = sp.lastUser + 1) :
    (sp.submit (sp.vals.length : Int) v).1.vals = sp.vals ++ [v] := by
  unfold QSpec.submit
  have h1 : (sp.lastUser != -1 && (sp.vals.length : Int) != sp.lastUser + 1) = false := by
    rw [hl]; simp
  simp only [h1, Bool.false_eq_true, if_false, hd]
  have h2 : ¬ ((sp.vals.length : Int) > (sp.vals.length : Int) + ((0 : Nat) : Int)) := by omega
  simp only [h2, if_false]
  have h3 : ((sp.vals.length : Int) + ((0 : Nat) : Int) - (sp.vals.length : Int)).toNat = 0 := by omega
  rw [h3]
  simp

/-- One move of one side keeps the invariant. -/
theorem half_inv (a b a' : P2P × TLState) (ghA ghB : Ghost) (h : PairInv a b ghA ghB) (hs : Half a b a') :
    ∃ ghA', PairInv a' b ghA' ghB := by
  cases hs with
  | localInput s t b handle input =>
    obtain ⟨l, hl⟩ := P2P.addLocalInput_pending s handle input
    refine ⟨ghA, ?_⟩
    show PairInv ((s.addLocalInput handle input).1, t) b ghA ghB
    rw [hl]
    exact ⟨SessInv_pending s ghA t [] l h.sa, GlueInv_pending s ghA l h.ga, h.sb, h.gb, h.ab, h.ba⟩
  | saves s t b sv =>
    obtain ⟨_, _, _, _, _, uh, _⟩ := userExecute_fields s sv
    have hlp : (s.userExecute sv).localPlayerHandles = s.localPlayerHandles := by
      unfold P2P.localPlayerHandles; rw [uh]
    refine ⟨ghA, SessInv_userExecute s ghA t [] sv h.sa, GlueInv_userExecute s ghA sv h.ga, h.sb, h.gb, ?_, ?_⟩
    · intro p hp hn
      exact h.ab p hp (by rw [← hlp]; exact hn)
    · intro p hp hn
      exact h.ba p (by rw [← hlp]; exact hp) hn
  | tick s s' t b now reqs' hadv =>
    obtain ⟨gh2, gh', _, _, hinv', hg', hsp, hpre, _, _, _, hoth, hh⟩ :=
      rollbackTick_glueX s s' ghA t [] reqs' now h.sa h.ga hadv
    have hlp : s'.localPlayerHandles = s.localPlayerHandles := by unfold P2P.localPlayerHandles; rw [hh]
    refine ⟨gh', SessInv_rebase s' gh' t reqs' hinv', hg', h.sb, h.gb, ?_, ?_⟩
    · intro p hp hn
      have hn' : p ∉ s.localPlayerHandles := by rw [← hlp]; exact hn
      show PrefixOf (gh'.specs p).vals (ghB.specs p).vals
      rw [hoth p hn']
      exact h.ab p hp hn'
    · intro p hp hn
      have hp' : p ∈ s.localPlayerHandles := by rw [← hlp]; exact hp
      show PrefixOf (ghB.specs p).vals (gh'.specs p).vals
      rw [hsp]
      exact (h.ba p hp' hn).trans (hpre p)
  | setDelay s s' t b now handle delay r hloc hp hset =>
    obtain ⟨gh', hinv', hg', hcase, _, _, _, _, _, hh, _⟩ := setInputDelay_spec s s' ghA t [] now handle delay r h.sa h.ga hloc hp hset
    have hlp : s'.localPlayerHandles = s.localPlayerHandles := by unfold P2P.localPlayerHandles; rw [hh]
    have hsp : ∀ p, (p ≠ handle → gh'.specs p = ghA.specs p) ∧ PrefixOf (ghA.specs p).vals (gh'.specs p).vals := by
      intro p
      rcases hcase with he | he
      · rw [he]; exact ⟨fun _ => rfl, PrefixOf.refl _⟩
      · rw [he]
        unfold ghDelay
        by_cases hpe : p = handle
        · subst hpe
          refine ⟨fun hne => absurd rfl hne, ?_⟩
          simp only [if_true]
          obtain ⟨k, hv, _, _⟩ := setDelay_facts (ghA.specs p) delay
          rw [hv]
          exact prefixOf_append _ _
        · simp only [hpe, if_false]
          exact ⟨fun _ => trivial, PrefixOf.refl _⟩
    refine ⟨gh', hinv', hg', h.sb, h.gb, ?_, ?_⟩
    · intro p hpo hn
      have hn' : p ∉ s.localPlayerHandles := by rw [← hlp]; exact hn
      have hne : p ≠ handle := fun e => hn' (e ▸ hloc)
      show PrefixOf (gh'.specs p).vals (ghB.specs p).vals
      rw [(hsp p).1 hne]
      exact h.ab p hpo hn'
    · intro p hpo hn
      have hp' : p ∈ s.localPlayerHandles := by rw [← hlp]; exact hpo
      exact (h.ba p hp' hn).trans (hsp p).2
  | arrive s s' t b now f v player handles addr hown hnl hpb hps hnext hle hwin hslot hev =>
    obtain ⟨gh', hinv', hg', _, _, hh, hsp⟩ :=
      glue_remoteInputX s s' ghA t now ⟨(f : Int), v⟩ player handles addr h.sa h.ga hnl (Int.natCast_nonneg _) hev
    have hlp : s'.localPlayerHandles = s.localPlayerHandles := by unfold P2P.localPlayerHandles; rw [hh]
    -- the receiver's stream of that player: sequential, no delay, as long as its status says
    obtain ⟨hd, hlu, hlen⟩ := h.sa.remote player hps hnl
    have hfl : f = (ghA.specs player).vals.length := by
      have : (f : Int) = ((ghA.specs player).vals.length : Int) := by rw [hnext, ← hlu, hlen]
      exact_mod_cast this
    -- the owner's ring
    have hring := (h.sb.tinv.sync.all player hpb).ring
    have hla : (rget b.1.sync.queues player).lastAddedFrame = ((ghB.specs player).vals.length : Int) - 1 := hring.lastAdded
    have hfB : f < (ghB.specs player).vals.length := by
      have : (f : Int) ≤ ((ghB.specs player).vals.length : Int) - 1 := by rw [← hla]; exact hle
      omega
    have hwB : (ghB.specs player).vals.length ≤ f + INPUT_QUEUE_LENGTH := by
      have : ((ghB.specs player).vals.length : Int) - 1 < (f : Int) + INPUT_QUEUE_LENGTH := by rw [← hla]; exact hwin
      omega
    have hval : (ghB.specs player).vals.getD f 0 = v := by
      have e := hring.slots f hfB hwB
      have e' : rget (rget b.1.sync.queues player).inputs (f % INPUT_QUEUE_LENGTH) = ⟨(f : Int), (ghB.specs player).vals.getD f 0⟩ := e
      rw [hslot] at e'
      exact (congrArg PlayerInput.input e').symm
    have hnew : (gh'.specs player).vals = (ghA.specs player).vals ++ [v] := by
      rw [hsp player, if_pos rfl]
      show ((ghA.specs player).submit (f : Int) v).1.vals = _
      rw [hfl]
      exact submit_next (ghA.specs player) v hd hlen
    refine ⟨gh', hinv', hg', h.sb, h.gb, ?_, ?_⟩
    · intro p hp hn
      have hn' : p ∉ s.localPlayerHandles := by rw [← hlp]; exact hn
      show PrefixOf (gh'.specs p).vals (ghB.specs p).vals
      by_cases hpp : p = player
      · subst hpp
        rw [hnew]
        exact prefixOf_snoc _ _ v (h.ab p hp hn') (by rw [← hfl]; exact hfB) (by rw [← hfl]; exact hval)
      · rw [hsp p, if_neg hpp]
        exact h.ab p hp hn'
    · intro p hp hn
      have hp' : p ∈ s.localPlayerHandles := by rw [← hlp]; exact hp
      have hpp : p ≠ player := fun e => hnl (e ▸ hp')
      show PrefixOf (ghB.specs p).vals (gh'.specs p).vals
      rw [hsp p, if_neg hpp]
      exact h.ba p hp' hn
  | arriveOther s s' t b now inp player handles addr hnl hnb h0 hev =>
    obtain ⟨gh', hinv', hg', _, _, hh, hsp⟩ := glue_remoteInputX s s' ghA t now inp player handles addr h.sa h.ga hnl h0 hev
    have hlp : s'.localPlayerHandles = s.localPlayerHandles := by unfold P2P.localPlayerHandles; rw [hh]
    refine ⟨gh', hinv', hg', h.sb, h.gb, ?_, ?_⟩
    · intro p hp hn
      have hn' : p ∉ s.localPlayerHandles := by rw [← hlp]; exact hn
      have hpp : p ≠ player := fun e => hnb (e ▸ hp)
      show PrefixOf (gh'.specs p).vals (ghB.specs p).vals
      rw [hsp p, if_neg hpp]
      exact h.ab p hp hn'
    · intro p hp hn
      have hp' : p ∈ s.localPlayerHandles := by rw [← hlp]; exact hp
      have hpp : p ≠ player := fun e => hnl (e ▸ hp')
      show PrefixOf (ghB.specs p).vals (gh'.specs p).vals
      rw [hsp p, if_neg hpp]
      exact h.ba p hp' hn

/- (the case of a third peer's player is part of `half_inv` above) -/
def PPInv (x : (P2P × TLState) × (P2P × TLState)) : Prop := ∃ ghA ghB, PairInv x.1 x.2 ghA ghB

theorem PPInv_step (x y : (P2P × TLState) × (P2P × TLState)) (h : PPInv x) (hs : PStep x y) : PPInv y := by
  obtain ⟨ghA, ghB, h⟩ := h
  cases hs with
  | left a a' b hh =>
    obtain ⟨ghA', h'⟩ := half_inv a b a' ghA ghB h hh
    exact ⟨ghA', ghB, h'⟩
  | right a b b' hh =>
    obtain ⟨ghB', h'⟩ := half_inv b a b' ghB ghA h.symm hh
    exact ⟨ghA, ghB', h'.symm⟩

/-- **L-pair.** The invariant of the pair holds after every run. -/
theorem PPInv_run (x y : (P2P × TLState) × (P2P × TLState)) (h : PPInv x) (hr : PStar x y) : PPInv y := by
  induction hr with
  | refl => exact h
  | step y z _ hs ih => exact PPInv_step y z ih hs

/-- Two freshly built sessions. -/
theorem PPInv_init (a b : P2P) (RA RB : Nat → List (Input × InputStatus)) (n : Nat)
    (hqa : a.sync.queues = List.replicate n InputQueue.new) (hsta : a.localConnectStatus = List.replicate n {})
    (hca : a.sync.currentFrame = 0) (hoa : a.outgoingLocalInputs = [])
    (hqb : b.sync.queues = List.replicate n InputQueue.new) (hstb : b.localConnectStatus = List.replicate n {})
    (hcb : b.sync.currentFrame = 0) (hob : b.outgoingLocalInputs = []) :
    PPInv ((a, ⟨0, RA⟩), (b, ⟨0, RB⟩)) := by
  refine ⟨_, _, SessInv_init a RA n hqa hsta hca, GlueInv_init a _ n (fun _ => rfl) hoa hsta (by rw [hqa]; simp),
    SessInv_init b RB n hqb hstb hcb, GlueInv_init b _ n (fun _ => rfl) hob hstb (by rw [hqb]; simp), ?_, ?_⟩
  · intro p _ _; exact PrefixOf.refl _
  · intro p _ _; exact PrefixOf.refl _

/-- **L-pair, agreement.** After any run of the pair, the two games' last simulations (after the
rollback phase of the next call on either side) carry the same input for every player owned by one
of the two sessions, on every frame both have simulated and both queues hold. -/
theorem pair_agree (x y : (P2P × TLState) × (P2P × TLState)) (h0 : PPInv x) (hrun : PStar x y)
    (nowA nowB : Nat) (sA' sB' : P2P) (reqsA reqsB : List Request)
    (hcA : y.1.1.advanceRollbackFrame nowA [] = .ok (sA', reqsA))
    (hcB : y.2.1.advanceRollbackFrame nowB [] = .ok (sB', reqsB)) :
    ∃ (r1A r1B : List Request),
      (reqsA = r1A ∨ ∃ ins, reqsA = r1A ++ [.advance ins]) ∧ (reqsB = r1B ∨ ∃ ins, reqsB = r1B ++ [.advance ins]) ∧
      ∀ p, ((p ∈ y.1.1.localPlayerHandles ∧ p ∉ y.2.1.localPlayerHandles) ∨
            (p ∈ y.2.1.localPlayerHandles ∧ p ∉ y.1.1.localPlayerHandles)) →
        p < y.1.1.sync.queues.length → p < y.2.1.sync.queues.length → ∀ f : Nat,
        (f : Int) < y.1.1.sync.currentFrame → (f : Int) < y.2.1.sync.currentFrame →
        (f : Int) ≤ (rget y.1.1.sync.queues p).lastAddedFrame → (f : Int) ≤ (rget y.2.1.sync.queues p).lastAddedFrame →
        (((execReqs y.1.2 r1A).R f).getD p default).1 = (((execReqs y.2.2 r1B).R f).getD p default).1 := by
  obtain ⟨ghA, ghB, h⟩ := PPInv_run x y h0 hrun
  obtain ⟨s1A, r1A, g1A, _, _, hsetA, hrightA, _, _, _, hcaseA⟩ := advanceRollbackFrame_spec y.1.1 sA' ghA y.1.2 [] reqsA nowA h.sa hcA
  obtain ⟨s1B, r1B, g1B, _, _, hsetB, hrightB, _, _, _, hcaseB⟩ := advanceRollbackFrame_spec y.2.1 sB' ghB y.2.2 [] reqsB nowB h.sb hcB
  refine ⟨r1A, r1B, ?_, ?_, ?_⟩
  · rcases hcaseA with h | ⟨c, ins, _, h, _⟩
    · exact Or.inl h
    · exact Or.inr ⟨ins, h⟩
  · rcases hcaseB with h | ⟨c, ins, _, h, _⟩
    · exact Or.inl h
    · exact Or.inr ⟨ins, h⟩
  · intro p hown hpA hpB f hfA hfB hqA hqB
    have hlA : f < (ghA.specs p).vals.length := by
      have := lastAdded_of_QI (h.sa.tinv.sync.all p hpA)
      rw [this] at hqA; omega
    have hlB : f < (ghB.specs p).vals.length := by
      have := lastAdded_of_QI (h.sb.tinv.sync.all p hpB)
      rw [this] at hqB; omega
    have hpA1 : p < s1A.sync.queues.length := by rw [hsetA.nq]; exact hpA
    have hpB1 : p < s1B.sync.queues.length := by rw [hsetB.nq]; exact hpB
    have eA := hrightA p hpA1 f (by rw [hsetA.cur]; exact hfA) (by rw [hsetA.specs]; exact hlA)
    have eB := hrightB p hpB1 f (by rw [hsetB.cur]; exact hfB) (by rw [hsetB.specs]; exact hlB)
    rw [← hsetA.inv.rows p hpA1 f, ← hsetB.inv.rows p hpB1 f, eA, eB, hsetA.specs, hsetB.specs]
    rcases hown with ⟨ha, hnb⟩ | ⟨hb, hna⟩
    · exact ((h.ba p ha hnb).2 f hlB)
    · exact ((h.ab p hb hna).2 f hlA).symm

end Ggrs
