/-
L-events: the lifecycle events one endpoint hands to its session, over every sequence of incoming
messages, polls, `send_input` calls and disconnects, form a word of the language
  Synchronizing(1) … Synchronizing(total-1) Synchronized (NetworkInterrupted NetworkResumed)*
  [NetworkInterrupted] [Disconnected]
with nothing after Disconnected (Input events are not lifecycle events and may occur anywhere).
-/
import GgrsModel.Proofs.Endpoint
import GgrsModel.Proofs.Monad

namespace Ggrs
namespace Endpoint

/-- What the event language needs to know of an endpoint. -/
structure Ev where
  state : ProtoState
  syncRemaining : Nat
  dns : Bool
  des : Bool
  queue : List ProtoEvent

def ev (e : Endpoint) : Ev := ⟨e.state, e.syncRemaining, e.disconnectNotifySent, e.disconnectEventSent, e.eventQueue⟩

@[simp] theorem ev_queueMessage (e : Endpoint) (now : Nat) (b : MsgBody) : (e.queueMessage now b).ev = e.ev := rfl

@[simp] theorem ev_takeNonce (e : Endpoint) : e.takeNonce.1.ev = e.ev := by
  unfold takeNonce; split <;> rfl

@[simp] theorem ev_sendSyncRequest (e : Endpoint) (now : Nat) : (e.sendSyncRequest now).ev = e.ev := by
  unfold sendSyncRequest
  simp only [ev_queueMessage]
  show (ev { ({ e with lastSyncRequestTime := now } : Endpoint).takeNonce.1 with syncRandomRequests := _ }) = _
  have := ev_takeNonce { e with lastSyncRequestTime := now }
  simpa [ev] using this

@[simp] theorem ev_sendInputAck (e : Endpoint) (now : Nat) : (e.sendInputAck now).ev = e.ev := rfl

@[simp] theorem ev_popPendingOutput (e : Endpoint) (f : Frame) : (e.popPendingOutput f).ev = e.ev := rfl

theorem ev_sendPendingOutput (e e' : Endpoint) (now : Nat) (cs : List ConnStatus)
    (h : e.sendPendingOutput now cs = .ok e') : e'.ev = e.ev := by
  unfold sendPendingOutput at h
  cases hp : e.pendingOutput with
  | nil => simp only [hp] at h; have := pure_ok h; subst this; rfl
  | cons front rest =>
    simp only [hp] at h
    obtain ⟨_, h⟩ := ensure_bind_ok h
    have := pure_ok h; subst this; rfl

theorem ev_periodicReports (e : Endpoint) (now : Nat) : (e.periodicReports now).ev = e.ev := by
  unfold periodicReports sendQualityReport
  simp only
  split <;> split <;> rfl

theorem ev_retryPending (e e' : Endpoint) (now : Nat) (cs : List ConnStatus)
    (h : e.retryPending now cs = .ok e') : e'.ev = e.ev := by
  unfold retryPending at h
  split at h
  · obtain ⟨e1, h1, h⟩ := bind_ok h
    have := pure_ok h; subst this
    show e1.ev = e.ev
    exact ev_sendPendingOutput e e1 now cs h1
  · have := pure_ok h; subst this; rfl

/-- The lifecycle automaton. -/
inductive Ls where
  | sync (k : Nat)
  | running (interrupted : Bool)
  | disconnected
  deriving DecidableEq

def accEv : Ls → ProtoEvent → Option Ls
  | ls, .input _ _ => some ls
  | .sync k, .synchronizing total count =>
    if total = NUM_SYNC_PACKETS ∧ count = k + 1 ∧ count < total then some (.sync (k + 1)) else none
  | .sync k, .synchronized => if k + 1 = NUM_SYNC_PACKETS then some (.running false) else none
  | .running false, .networkInterrupted _ => some (.running true)
  | .running true, .networkResumed => some (.running false)
  | .running _, .disconnected => some .disconnected
  | _, _ => none

def accList : Ls → List ProtoEvent → Option Ls
  | ls, [] => some ls
  | ls, e :: es => match accEv ls e with
    | some ls' => accList ls' es
    | none => none

theorem accList_append (ls : Ls) (a b : List ProtoEvent) :
    accList ls (a ++ b) = (accList ls a).bind (fun l => accList l b) := by
  induction a generalizing ls with
  | nil => rfl
  | cons x xs ih =>
    simp only [List.cons_append, accList]
    cases accEv ls x with
    | none => rfl
    | some l => exact ih l

/-- Nothing more will be generated. -/
def Frozen (e : Endpoint) : Prop := e.state = .disconnected ∨ e.state = .shutdown

/-- The automaton state reached by everything emitted so far against the endpoint's flags. -/
def Live (e : Endpoint) : Ls → Prop
  | .sync k => e.disconnectEventSent = false ∧ e.disconnectNotifySent = false ∧
      ((e.state = .initializing ∧ k = 0) ∨
       (e.state = .synchronizing ∧ k + e.syncRemaining = NUM_SYNC_PACKETS ∧ 1 ≤ e.syncRemaining))
  | .running b => e.state = .running ∧ e.disconnectNotifySent = b ∧ e.disconnectEventSent = false
  | .disconnected => e.state = .running ∧ e.disconnectEventSent = true

def Cons (e : Endpoint) (lq : Ls) : Prop := Frozen e ∨ Live e lq

/-- A step that only appends events: from any automaton state consistent with the endpoint, the
appended events are accepted and lead to a state consistent with the new endpoint. -/
def StepOK (e e' : Endpoint) : Prop :=
  ∀ lq, Cons e lq → ∃ new lq', e'.eventQueue = e.eventQueue ++ new ∧ accList lq new = some lq' ∧ Cons e' lq'

theorem StepOK.refl (e : Endpoint) : StepOK e e := fun lq h => ⟨[], lq, by simp, rfl, h⟩

theorem StepOK.trans {a b c : Endpoint} (h1 : StepOK a b) (h2 : StepOK b c) : StepOK a c := by
  intro lq h
  obtain ⟨n1, l1, e1, a1, c1⟩ := h1 lq h
  obtain ⟨n2, l2, e2, a2, c2⟩ := h2 l1 c1
  refine ⟨n1 ++ n2, l2, by rw [e2, e1, List.append_assoc], ?_, c2⟩
  rw [accList_append, a1]; exact a2

/-- Steps that leave the event-relevant fields alone. -/
theorem StepOK_of_ev {e e' : Endpoint} (h : e'.ev = e.ev) : StepOK e e' := by
  have h1 : e'.state = e.state := congrArg Ev.state h
  have h2 : e'.syncRemaining = e.syncRemaining := congrArg Ev.syncRemaining h
  have h3 : e'.disconnectNotifySent = e.disconnectNotifySent := congrArg Ev.dns h
  have h4 : e'.disconnectEventSent = e.disconnectEventSent := congrArg Ev.des h
  have h5 : e'.eventQueue = e.eventQueue := congrArg Ev.queue h
  intro lq hc
  refine ⟨[], lq, by rw [h5]; simp, rfl, ?_⟩
  rcases hc with hf | hl
  · left; unfold Frozen at hf ⊢; rw [h1]; exact hf
  · right
    cases lq with
    | sync k => simp only [Live] at hl ⊢; rw [h1, h2, h3, h4]; exact hl
    | running b => simp only [Live] at hl ⊢; rw [h1, h3, h4]; exact hl
    | disconnected => simp only [Live] at hl ⊢; rw [h1, h4]; exact hl

theorem accList_inputs (ls : Ls) (pis : List (PlayerInput × Nat)) (hs : List Nat) :
    accList ls (pis.map fun (pi, j) => ProtoEvent.input pi (hs.getD j 0)) = some ls := by
  induction pis with
  | nil => rfl
  | cons x xs ih => simp only [List.map_cons, accList, accEv]; exact ih

/-- Storing a frame only adds Input events. -/
theorem StepOK_storeFrame (e : Endpoint) (f : Frame) (inp : Codec.Bytes) (pis : List PlayerInput) :
    StepOK e (e.storeFrame f inp pis) := by
  intro lq hc
  refine ⟨_, lq, rfl, accList_inputs lq _ _, ?_⟩
  rcases hc with hf | hl
  · left; exact hf
  · right
    cases lq with
    | sync k => exact hl
    | running b => exact hl
    | disconnected => exact hl

theorem StepOK_acceptInputs (start : Frame) : ∀ (xs : List Codec.Bytes) (e : Endpoint) (i : Nat),
    StepOK e (acceptInputs e start xs i).1 := by
  intro xs
  induction xs with
  | nil => intro e i; exact StepOK.refl e
  | cons x xs ih =>
    intro e i
    unfold acceptInputs
    simp only
    split
    · exact ih e (i + 1)
    · split
      · exact StepOK.refl e
      · exact (StepOK_storeFrame e _ x _).trans (ih _ (i + 1))

end Endpoint
end Ggrs

namespace Ggrs
namespace Endpoint

theorem StepOK_noteReceived (e : Endpoint) (now : Nat) : StepOK e (e.noteReceived now) := by
  unfold noteReceived
  simp only
  by_cases hc : (e.disconnectNotifySent && !e.disconnectEventSent && e.state == .running) = true
  · simp only [hc, if_true]
    simp only [Bool.and_eq_true, Bool.not_eq_true', beq_iff_eq] at hc
    obtain ⟨⟨h1, h2⟩, h3⟩ := hc
    intro lq hcons
    rcases hcons with hf | hl
    · rcases hf with hf | hf <;> rw [h3] at hf <;> cases hf
    · cases lq with
      | sync k => simp only [Live] at hl; rw [hl.2.1] at h1; cases h1
      | running b =>
        simp only [Live] at hl
        have hb : b = true := by rw [← hl.2.1, h1]
        subst hb
        exact ⟨[.networkResumed], .running false, rfl, rfl, Or.inr ⟨hl.1, rfl, hl.2.2⟩⟩
      | disconnected => simp only [Live] at hl; rw [hl.2] at h2; cases h2
  · simp only [hc, Bool.false_eq_true, if_false]
    exact StepOK_of_ev rfl

theorem StepOK_onSyncReply (e : Endpoint) (now magic random : Nat) : StepOK e (e.onSyncReply now magic random) := by
  unfold onSyncReply
  by_cases hs : (e.state != .synchronizing) = true
  · simp only [hs, if_true]; exact StepOK.refl e
  · simp only [hs, Bool.false_eq_true, if_false]
    have hst : e.state = .synchronizing := by simpa using hs
    by_cases hc : (!e.syncRandomRequests.contains random) = true
    · simp only [hc, if_true]; exact StepOK.refl e
    · simp only [hc, Bool.false_eq_true, if_false]
      by_cases hpos : e.syncRemaining - 1 > 0
      · simp only [hpos, if_true]
        refine StepOK.trans ?_ (StepOK_of_ev (ev_sendSyncRequest _ now))
        intro lq hcons
        rcases hcons with hf | hl
        · rcases hf with hf | hf <;> rw [hst] at hf <;> cases hf
        · cases lq with
          | sync k =>
            simp only [Live] at hl
            obtain ⟨hdes, hdns, hcase⟩ := hl
            rcases hcase with ⟨h1, _⟩ | ⟨_, hk, hrem⟩
            · rw [hst] at h1; cases h1
            · refine ⟨[.synchronizing NUM_SYNC_PACKETS (NUM_SYNC_PACKETS - (e.syncRemaining - 1))], .sync (k + 1), rfl, ?_, ?_⟩
              · simp only [accList, accEv]
                have : NUM_SYNC_PACKETS - (e.syncRemaining - 1) = k + 1 := by omega
                rw [this]
                have h3 : k + 1 < NUM_SYNC_PACKETS := by omega
                simp [h3]
              · right
                exact ⟨hdes, hdns, Or.inr ⟨hst, by show k + 1 + (e.syncRemaining - 1) = _; omega,
                  by show 1 ≤ e.syncRemaining - 1; omega⟩⟩
          | running b => simp only [Live] at hl; rw [hst] at hl; cases hl.1
          | disconnected => simp only [Live] at hl; rw [hst] at hl; cases hl.1
      · simp only [hpos, if_false]
        intro lq hcons
        rcases hcons with hf | hl
        · rcases hf with hf | hf <;> rw [hst] at hf <;> cases hf
        · cases lq with
          | sync k =>
            simp only [Live] at hl
            obtain ⟨hdes, hdns, hcase⟩ := hl
            rcases hcase with ⟨h1, _⟩ | ⟨_, hk, hrem⟩
            · rw [hst] at h1; cases h1
            · refine ⟨[.synchronized], .running false, rfl, ?_, Or.inr ⟨rfl, hdns, hdes⟩⟩
              simp only [accList, accEv]
              have : k + 1 = NUM_SYNC_PACKETS := by omega
              simp [this]
          | running b => simp only [Live] at hl; rw [hst] at hl; cases hl.1
          | disconnected => simp only [Live] at hl; rw [hst] at hl; cases hl.1

theorem StepOK_acceptDecoded (e : Endpoint) (now : Nat) (start : Frame) (inputs : List Codec.Bytes) :
    StepOK e (e.acceptDecoded now start inputs) := by
  unfold acceptDecoded
  simp only
  split
  · exact StepOK_acceptInputs start inputs e 0
  · exact (StepOK_acceptInputs start inputs e 0).trans (StepOK_of_ev rfl)

theorem StepOK_decodeInputs (e : Endpoint) (now : Nat) (start : Frame) (bytes : Codec.Bytes) :
    StepOK e (e.decodeInputs now start bytes) := by
  unfold decodeInputs
  simp only
  split
  · exact StepOK_of_ev rfl
  · split
    · exact StepOK_of_ev rfl
    · exact (StepOK_of_ev (e' := { e with runningLastInputRecv := now }) rfl).trans (StepOK_acceptDecoded _ now start _)

/-- `on_input` for packets that do not ask for a disconnect — the only ones an endpoint ever sends
(`sent_disconnect_flag_false`). -/
theorem StepOK_onInput (e : Endpoint) (now : Nat) (status : List ConnStatus) (start ack : Frame) (bytes : Codec.Bytes) :
    StepOK e (e.onInput now status false start ack bytes) := by
  unfold onInput
  split
  · exact StepOK.refl e
  · split
    · exact StepOK.refl e
    · have h1 : StepOK e (e.applyInputHeader status false ack) := by
        unfold applyInputHeader
        simp only [Bool.false_eq_true, if_false]
        exact StepOK_of_ev rfl
      exact h1.trans (StepOK_decodeInputs _ now start bytes)

/-- A message is "ordinary" if it is not an Input packet asking for a disconnect. -/
def Ordinary (msg : Msg) : Prop := ∀ st sf af bytes, msg.body ≠ .input st true sf af bytes

theorem StepOK_handleMessage (e e' : Endpoint) (now : Nat) (msg : Msg) (hord : Ordinary msg)
    (h : e.handleMessage now msg = .ok e') : StepOK e e' := by
  unfold handleMessage at h
  split at h
  · have := pure_ok h; subst this; exact StepOK.refl e
  · split at h
    · have := pure_ok h; subst this; exact StepOK.refl e
    · have hn := StepOK_noteReceived e now
      cases hb : msg.body with
      | syncRequest r => simp only [hb] at h; have := pure_ok h; subst this; exact hn.trans (StepOK_of_ev rfl)
      | syncReply r => simp only [hb] at h; have := pure_ok h; subst this; exact hn.trans (StepOK_onSyncReply _ now _ r)
      | input st dr sf af bytes =>
        simp only [hb] at h
        have := pure_ok h; subst this
        cases dr with
        | true => exact absurd hb (hord st sf af bytes)
        | false => exact hn.trans (StepOK_onInput _ now st sf af bytes)
      | inputAck af => simp only [hb] at h; have := pure_ok h; subst this; exact hn.trans (StepOK_of_ev rfl)
      | qualityReport adv ping => simp only [hb] at h; have := pure_ok h; subst this; exact hn.trans (StepOK_of_ev rfl)
      | qualityReply pong => simp only [hb] at h; have := pure_ok h; subst this; exact hn.trans (StepOK_of_ev rfl)
      | checksumReport cs f =>
        simp only [hb] at h
        unfold onChecksumReport at h
        simp only [bind, Except.bind, pure, Except.pure] at h
        cases hd : (e.noteReceived now).desyncInterval with
        | none => simp [hd] at h
        | some i =>
          simp only [hd] at h
          cases h
          exact hn.trans (StepOK_of_ev rfl)
      | keepAlive => simp only [hb] at h; have := pure_ok h; subst this; exact hn

end Endpoint
end Ggrs

namespace Ggrs
namespace Endpoint

theorem StepOK_checkTimeouts (e : Endpoint) (now : Nat) (hrun : e.state = .running) :
    StepOK e (e.checkTimeouts now) := by
  intro lq hcons
  have hlive : Live e lq := by
    rcases hcons with hf | hl
    · rcases hf with hf | hf <;> rw [hrun] at hf <;> cases hf
    · exact hl
  unfold checkTimeouts
  simp only
  cases lq with
  | sync k =>
    simp only [Live] at hlive
    rcases hlive.2.2 with ⟨h1, _⟩ | ⟨h1, _⟩ <;> rw [hrun] at h1 <;> cases h1
  | running b =>
    simp only [Live] at hlive
    obtain ⟨_, hdns, hdes⟩ := hlive
    by_cases c1 : (!e.disconnectNotifySent && !e.disconnectEventSent && decide (e.lastRecvTime + e.disconnectNotifyStart < now)) = true
    · simp only [c1, if_true]
      have hb : b = false := by
        simp only [Bool.and_eq_true, Bool.not_eq_true'] at c1
        rw [← hdns]; exact c1.1.1
      subst hb
      by_cases c2 : (!e.disconnectEventSent && decide (e.lastRecvTime + e.disconnectTimeout < now)) = true
      · simp only [c2, if_true]
        exact ⟨[.networkInterrupted ((e.disconnectTimeout - e.disconnectNotifyStart) / 1000), .disconnected],
          .disconnected, by simp, rfl, Or.inr ⟨hrun, rfl⟩⟩
      · simp only [c2, Bool.false_eq_true, if_false]
        exact ⟨[.networkInterrupted ((e.disconnectTimeout - e.disconnectNotifyStart) / 1000)], .running true, rfl, rfl,
          Or.inr ⟨hrun, rfl, hdes⟩⟩
    · simp only [c1, Bool.false_eq_true, if_false]
      by_cases c2 : (!e.disconnectEventSent && decide (e.lastRecvTime + e.disconnectTimeout < now)) = true
      · simp only [c2, if_true]
        refine ⟨[.disconnected], .disconnected, rfl, ?_, Or.inr ⟨hrun, rfl⟩⟩
        cases b <;> rfl
      · simp only [c2, Bool.false_eq_true, if_false]
        exact ⟨[], .running b, by simp, rfl, Or.inr ⟨hrun, hdns, hdes⟩⟩
  | disconnected =>
    simp only [Live] at hlive
    have c1 : (!e.disconnectNotifySent && !e.disconnectEventSent && decide (e.lastRecvTime + e.disconnectNotifyStart < now)) = false := by
      simp [hlive.2]
    have c2 : (!e.disconnectEventSent && decide (e.lastRecvTime + e.disconnectTimeout < now)) = false := by
      simp [hlive.2]
    simp only [c1, c2, Bool.false_eq_true, if_false]
    exact ⟨[], .disconnected, by simp, rfl, Or.inr hlive⟩

theorem StepOK_pollState (e e' : Endpoint) (now : Nat) (cs : List ConnStatus) (h : e.pollState now cs = .ok e') :
    StepOK e e' := by
  unfold pollState at h
  cases hst : e.state with
  | initializing => simp only [hst] at h; have := pure_ok h; subst this; exact StepOK.refl e
  | synchronizing =>
    simp only [hst] at h
    have := pure_ok h; subst this
    split
    · exact StepOK_of_ev (ev_sendSyncRequest e now)
    · exact StepOK.refl e
  | running =>
    simp only [hst] at h
    obtain ⟨e1, h1, h⟩ := bind_ok h
    have := pure_ok h; subst this
    have hev1 := ev_retryPending e e1 now cs h1
    have hev2 := ev_periodicReports e1 now
    have hrun : (e1.periodicReports now).state = .running := by
      have a : (e1.periodicReports now).state = e1.state := congrArg Ev.state hev2
      have b : e1.state = e.state := congrArg Ev.state hev1
      rw [a, b]; exact hst
    exact ((StepOK_of_ev hev1).trans (StepOK_of_ev hev2)).trans (StepOK_checkTimeouts _ now hrun)
  | disconnected =>
    simp only [hst] at h
    have := pure_ok h; subst this
    intro lq _
    refine ⟨[], lq, ?_, rfl, Or.inl ?_⟩
    · split <;> simp
    · split
      · exact Or.inr rfl
      · exact Or.inl hst
  | shutdown => simp only [hst] at h; have := pure_ok h; subst this; exact StepOK.refl e

theorem StepOK_sendInput (e e' : Endpoint) (now : Nat) (inputs : List (Nat × PlayerInput)) (cs : List ConnStatus)
    (h : e.sendInput now inputs cs = .ok e') : StepOK e e' := by
  unfold sendInput at h
  by_cases hst : (e.state != .running) = true
  · simp only [hst, if_true] at h
    have := pure_ok h; subst this; exact StepOK.refl e
  · simp only [hst, Bool.false_eq_true, if_false] at h
    have hrun : e.state = .running := by simpa using hst
    obtain ⟨data, _, h⟩ := bind_ok h
    -- the cap
    refine StepOK.trans ?_ (StepOK_of_ev (ev_sendPendingOutput _ e' now cs h))
    intro lq hcons
    have hlive : Live e lq := by
      rcases hcons with hf | hl
      · rcases hf with hf | hf <;> rw [hrun] at hf <;> cases hf
      · exact hl
    split
    · rename_i hcap
      simp only [Bool.and_eq_true, decide_eq_true_eq, Bool.not_eq_true'] at hcap
      cases lq with
      | sync k =>
        simp only [Live] at hlive
        rcases hlive.2.2 with ⟨h1, _⟩ | ⟨h1, _⟩ <;> rw [hrun] at h1 <;> cases h1
      | running b =>
        simp only [Live] at hlive
        refine ⟨[.disconnected], .disconnected, rfl, ?_, Or.inr ⟨hrun, rfl⟩⟩
        cases b <;> rfl
      | disconnected =>
        simp only [Live] at hlive
        have := hcap.2
        rw [hlive.2] at this; cases this
    · refine ⟨[], lq, by simp, rfl, Or.inr ?_⟩
      cases lq with
      | sync k => exact hlive
      | running b => exact hlive
      | disconnected => exact hlive

theorem Cons_disconnect (e : Endpoint) (now : Nat) (lq : Ls) : Cons (e.disconnect now) lq := by
  unfold disconnect
  split
  · rename_i h
    exact Or.inl (Or.inr (by simpa using h))
  · exact Or.inl (Or.inl rfl)

theorem disconnect_queue (e : Endpoint) (now : Nat) : (e.disconnect now).eventQueue = e.eventQueue := by
  unfold disconnect; split <;> rfl

/-- The steps of an endpoint as its session drives it. A poll hands the queued events to the
session, which disconnects the endpoint when it finds `Disconnected` among them. -/
inductive EvStep : (Endpoint × List ProtoEvent) → (Endpoint × List ProtoEvent) → Prop
  | handle (e e' : Endpoint) (out : List ProtoEvent) (now : Nat) (msg : Msg) : Ordinary msg →
      e.handleMessage now msg = .ok e' → EvStep (e, out) (e', out)
  | poll (e e' : Endpoint) (out evs : List ProtoEvent) (now : Nat) (cs : List ConnStatus) :
      e.poll now cs = .ok (e', evs) →
      EvStep (e, out) (if evs.contains .disconnected then e'.disconnect now else e', out ++ evs)
  | sendInput (e e' : Endpoint) (out : List ProtoEvent) (now : Nat) (inputs : List (Nat × PlayerInput))
      (cs : List ConnStatus) : e.sendInput now inputs cs = .ok e' → EvStep (e, out) (e', out)
  | disconnect (e : Endpoint) (out : List ProtoEvent) (now : Nat) : EvStep (e, out) (e.disconnect now, out)
  | synchronize (e e' : Endpoint) (out : List ProtoEvent) (now : Nat) :
      e.synchronize now = .ok e' → EvStep (e, out) (e', out)

inductive EvStar : (Endpoint × List ProtoEvent) → (Endpoint × List ProtoEvent) → Prop
  | refl (x) : EvStar x x
  | step (x y z) : EvStar x y → EvStep y z → EvStar x z

/-- Everything handed out so far is accepted, what is still queued is accepted behind it, and the
resulting automaton state is consistent with the endpoint. -/
def EvInv (x : Endpoint × List ProtoEvent) : Prop :=
  ∃ ls lq, accList (.sync 0) x.2 = some ls ∧ accList ls x.1.eventQueue = some lq ∧ Cons x.1 lq

theorem EvInv_append (e e' : Endpoint) (out : List ProtoEvent) (h : EvInv (e, out)) (hs : StepOK e e') :
    EvInv (e', out) := by
  obtain ⟨ls, lq, h1, h2, h3⟩ := h
  obtain ⟨new, lq', hq, ha, hc⟩ := hs lq h3
  refine ⟨ls, lq', h1, ?_, hc⟩
  show accList ls e'.eventQueue = some lq'
  rw [hq, accList_append, h2]; exact ha

theorem EvInv_step (x y : Endpoint × List ProtoEvent) (h : EvInv x) (hs : EvStep x y) : EvInv y := by
  cases hs with
  | handle e e' out now msg hord hm => exact EvInv_append e e' out h (StepOK_handleMessage e e' now msg hord hm)
  | sendInput e e' out now inputs cs hsi => exact EvInv_append e e' out h (StepOK_sendInput e e' now inputs cs hsi)
  | disconnect e out now =>
    obtain ⟨ls, lq, h1, h2, _⟩ := h
    exact ⟨ls, lq, h1, by show accList ls (e.disconnect now).eventQueue = _; rw [disconnect_queue]; exact h2,
      Cons_disconnect e now lq⟩
  | synchronize e e' out now hsy =>
    apply EvInv_append e e' out h
    unfold synchronize at hsy
    obtain ⟨hi, hsy⟩ := ensure_bind_ok hsy
    have := pure_ok hsy; subst this
    have hini : e.state = .initializing := by simpa using hi
    refine StepOK.trans ?_ (StepOK_of_ev (ev_sendSyncRequest _ now))
    intro lq hcons
    rcases hcons with hf | hl
    · rcases hf with hf | hf <;> rw [hini] at hf <;> cases hf
    · cases lq with
      | sync k =>
        simp only [Live] at hl
        obtain ⟨hdes, hdns, hcase⟩ := hl
        rcases hcase with ⟨_, hk⟩ | ⟨h1, _⟩
        · subst hk
          exact ⟨[], .sync 0, by simp, rfl, Or.inr ⟨hdes, hdns, Or.inr ⟨rfl, by show 0 + NUM_SYNC_PACKETS = _; omega,
            by show 1 ≤ NUM_SYNC_PACKETS; decide⟩⟩⟩
        · rw [hini] at h1; cases h1
      | running b => simp only [Live] at hl; rw [hini] at hl; cases hl.1
      | disconnected => simp only [Live] at hl; rw [hini] at hl; cases hl.1
  | poll e e' out evs now cs hp =>
    unfold poll at hp
    obtain ⟨e1, hps, hp⟩ := bind_ok hp
    have := pure_ok hp
    simp only [Prod.mk.injEq] at this
    obtain ⟨he', hevs⟩ := this
    obtain ⟨ls, lq, h1, h2, h3⟩ := EvInv_append e e1 out h (StepOK_pollState e e1 now cs hps)
    simp only at h2 h3
    -- everything queued is handed out
    have hout : accList (.sync 0) (out ++ evs) = some lq := by
      rw [accList_append, h1, ← hevs]; exact h2
    have hcons' : Cons e' lq := by
      rw [← he']
      rcases h3 with hf | hl
      · exact Or.inl hf
      · right
        cases lq with
        | sync k => exact hl
        | running b => exact hl
        | disconnected => exact hl
    have hq' : e'.eventQueue = [] := by rw [← he']
    split
    · exact ⟨lq, lq, hout, by show accList lq (e'.disconnect now).eventQueue = _; rw [disconnect_queue, hq']; rfl,
        Cons_disconnect e' now lq⟩
    · exact ⟨lq, lq, hout, by show accList lq e'.eventQueue = _; rw [hq']; rfl, hcons'⟩

/-- **L-events.** -/
theorem EvInv_run (x y : Endpoint × List ProtoEvent) (h : EvInv x) (hr : EvStar x y) : EvInv y := by
  induction hr with
  | refl => exact h
  | step y z _ hs ih => exact EvInv_step y z ih hs

/-- Every Input message an endpoint queues has `disconnect_requested = false`: it only sends inputs
while Running. (So peers' Input packets are `Ordinary`.) -/
theorem sendPendingOutput_flag (e e' : Endpoint) (now : Nat) (cs : List ConnStatus) (hrun : e.state = .running)
    (h : e.sendPendingOutput now cs = .ok e') :
    ∀ m ∈ e'.sendQueue, m ∈ e.sendQueue ∨ ∃ st sf af bytes, m.body = .input st false sf af bytes := by
  unfold sendPendingOutput at h
  cases hp : e.pendingOutput with
  | nil => simp only [hp] at h; have := pure_ok h; subst this; exact fun m hm => Or.inl hm
  | cons front rest =>
    simp only [hp] at h
    obtain ⟨_, h⟩ := ensure_bind_ok h
    have := pure_ok h; subst this
    intro m hm
    simp only [queueMessage, List.mem_append, List.mem_singleton] at hm
    rcases hm with hm | hm
    · exact Or.inl hm
    · right
      rw [hm]
      have : (e.state == ProtoState.disconnected) = false := by rw [hrun]; rfl
      exact ⟨_, _, _, _, by rw [this]⟩

end Endpoint
end Ggrs
