/-
C02 with sparse saving: every load names the last saved frame, whose cell is always valid.
-/
import GgrsModel.Proofs.Consistent
import GgrsModel.Proofs.ShapeSp

namespace Ggrs

/-- Check state with sparse saving: every written cell is valid, no tag exceeds the last saved
frame `L`, which is at most the current frame and sits in its cell. -/
structure SQInv (n : Nat) (c : CS) (L : Int) : Prop where
  cur : 0 ≤ c.cur
  le : L ≤ c.cur
  last : 0 ≤ L → c.tag (L.toNat % n) = L
  ok : ∀ i, i < n → 0 ≤ c.tag i → c.valid i ∧ c.tag i ≤ L ∧ (c.tag i).toNat % n = i

theorem SQInv_save (n : Nat) (hn : 0 < n) (c : CS) (L : Int) (h : SQInv n c L) :
    SQInv n { c with tag := upd c.tag (c.cur.toNat % n) c.cur, valid := fun i => i = c.cur.toNat % n ∨ c.valid i } c.cur := by
  have hc := h.cur
  have hle := h.le
  refine ⟨hc, Int.le_refl _, fun _ => by show upd c.tag (c.cur.toNat % n) c.cur (c.cur.toNat % n) = _; rw [upd_self], ?_⟩
  intro i hi htag
  have htag' : 0 ≤ upd c.tag (c.cur.toNat % n) c.cur i := htag
  by_cases hie : i = c.cur.toNat % n
  · refine ⟨Or.inl hie, ?_, ?_⟩
    · show upd c.tag (c.cur.toNat % n) c.cur i ≤ c.cur; rw [hie, upd_self]; exact Int.le_refl _
    · show (upd c.tag (c.cur.toNat % n) c.cur i).toNat % n = i; rw [hie, upd_self]
  · rw [upd_ne _ _ _ _ hie] at htag'
    obtain ⟨a, b, d⟩ := h.ok i hi htag'
    exact ⟨Or.inr a, by show upd c.tag (c.cur.toNat % n) c.cur i ≤ c.cur; rw [upd_ne _ _ _ _ hie]; omega,
      by show (upd c.tag (c.cur.toNat % n) c.cur i).toNat % n = i; rw [upd_ne _ _ _ _ hie]; exact d⟩

theorem SQInv_advance (n : Nat) (c : CS) (L : Int) (h : SQInv n c L) :
    SQInv n { c with cur := c.cur + 1, valid := fun i => c.valid i ∧ c.tag i ≤ c.cur } L := by
  have hc := h.cur
  have hle := h.le
  refine ⟨by show 0 ≤ c.cur + 1; omega, by show L ≤ c.cur + 1; omega, h.last, ?_⟩
  intro i hi htag
  obtain ⟨a, b, d⟩ := h.ok i hi htag
  exact ⟨⟨a, by omega⟩, b, d⟩

/-- The re-simulation with sparse saving keeps the invariant; the ghost `L` follows the saves. -/
theorem chk_resim_sp (n : Nat) (hn : 0 < n) : ∀ (k i : Nat) (c' : Int) (c : CS) (L : Int) (Lst : List Request),
    ResimShape true i c' k Lst → SQInv n c L → c.cur = c' →
    ∃ c2, ChkList n c Lst c2 ∧ SQInv n c2 (lastSaveOf L Lst) ∧ c2.cur = c' + k := by
  intro k
  induction k with
  | zero =>
    intro i c' c L Lst hsh hinv hc
    simp only [ResimShape] at hsh
    subst hsh
    exact ⟨c, ChkList.nil c, hinv, by simpa using hc⟩
  | succ k ih =>
    intro i c' c L Lst hsh hinv hc
    simp only [ResimShape] at hsh
    obtain ⟨mid, ins, L', hL, hmid, _, hsh'⟩ := hsh
    rcases hmid with hm | hm
    · subst hm
      let c1 : CS := { c with cur := c.cur + 1, valid := fun idx => c.valid idx ∧ c.tag idx ≤ c.cur }
      have hstep : Chk n c (.advance ins) c1 := Chk.advance c ins hinv.cur
      obtain ⟨c2, hl2, hinv2, hc2⟩ := ih (i + 1) (c' + 1) c1 L L' hsh' (SQInv_advance n c L hinv)
        (by show c.cur + 1 = c' + 1; rw [hc])
      refine ⟨c2, ?_, ?_, by rw [hc2]; push_cast; omega⟩
      · rw [hL]; simp only [List.nil_append, List.singleton_append]
        exact ChkList.cons c c1 c2 _ _ hstep hl2
      · rw [hL]; simpa [lastSaveOf] using hinv2
    · subst hm
      let c0 : CS := { c with tag := upd c.tag (c.cur.toNat % n) c.cur, valid := fun idx => idx = c.cur.toNat % n ∨ c.valid idx }
      have hs0 : Chk n c (.save c') c0 := by
        have := Chk.save (n := n) c c.cur rfl hinv.cur
        rw [← hc]
        exact this
      have hinv0 : SQInv n c0 c.cur := SQInv_save n hn c L hinv
      let c1 : CS := { c0 with cur := c0.cur + 1, valid := fun idx => c0.valid idx ∧ c0.tag idx ≤ c0.cur }
      have hs1 : Chk n c0 (.advance ins) c1 := Chk.advance c0 ins hinv.cur
      obtain ⟨c2, hl2, hinv2, hc2⟩ := ih (i + 1) (c' + 1) c1 c.cur L' hsh' (SQInv_advance n c0 c.cur hinv0)
        (by show c.cur + 1 = c' + 1; rw [hc])
      refine ⟨c2, ?_, ?_, by rw [hc2]; push_cast; omega⟩
      · rw [hL]; simp only [List.cons_append, List.nil_append]
        exact ChkList.cons c c0 c2 _ _ hs0 (ChkList.cons c0 c1 c2 _ _ hs1 hl2)
      · rw [hL]
        simp only [List.cons_append, List.nil_append, lastSaveOf]
        rw [← hc]; exact hinv2

/-- A rollback block that loads the ghost's last saved frame. -/
theorem chk_rblock_sp (n : Nat) (hn : 0 < n) (c : CS) (L : Int) (cur : Int) (B Lst : List Request)
    (hinv : SQInv n c L) (hcur : c.cur = cur) (hB : RBlock cur B) (hload : B = [.load L] ++ Lst) :
    ∃ c2, ChkList n c B c2 ∧ SQInv n c2 (lastSaveOf L B) ∧ c2.cur = cur := by
  obtain ⟨r, L1, hB1, h0, hlt, hsh⟩ := hB
  have hrl : r = L ∧ L1 = Lst := by
    rw [hB1] at hload
    simp only [List.singleton_append, List.cons.injEq, Request.load.injEq] at hload
    exact hload
  obtain ⟨hr, hL1⟩ := hrl
  subst hr
  have hidx : r.toNat % n < n := Nat.mod_lt _ hn
  have htag := hinv.last h0
  have hval := (hinv.ok _ hidx (by rw [htag]; exact h0)).1
  let c0 : CS := { c with cur := r }
  have hld : Chk n c (.load r) c0 := Chk.load c r h0 (by rw [hcur]; exact hlt) htag hval
  have hinv0 : SQInv n c0 r := ⟨h0, Int.le_refl _, hinv.last, hinv.ok⟩
  obtain ⟨c2, hl2, hinv2, hc2⟩ := chk_resim_sp n hn _ 0 r c0 r L1 hsh hinv0 rfl
  refine ⟨c2, by rw [hB1]; exact ChkList.cons c c0 c2 _ _ hld hl2, ?_, by rw [hc2]; omega⟩
  rw [hB1]
  simpa [lastSaveOf] using hinv2

/-- **C02, one call with sparse saving.** -/
theorem tick_consistent_sp (s s' : P2P) (now : Nat) (reqs reqs' : List Request) (hsp : s.sparse = true)
    (h : s.advanceRollbackFrame now reqs = .ok (s', reqs')) (c : CS) (n : Nat) (hn : 0 < n)
    (hq : SQInv n c s.sync.lastSavedFrame) (hcur : c.cur = s.sync.currentFrame) :
    ∃ (new : List Request) (c' : CS), reqs' = reqs ++ new ∧ ChkList n c new c' ∧
      SQInv n c' s'.sync.lastSavedFrame ∧ c'.cur = s'.sync.currentFrame ∧
      (s'.sync.currentFrame = s.sync.currentFrame ∨ s'.sync.currentFrame = s.sync.currentFrame + 1) ∧
      s'.sync.cells = s.sync.cells ∧ s'.sparse = s.sparse := by
  obtain ⟨B1, B2, G, hL, hb1, hb2, hg, hls, hcl, hspp⟩ := tick_shape_sp s s' now reqs reqs' hsp h
  -- first block
  have h1 : ∃ c1, ChkList n c B1 c1 ∧ SQInv n c1 (lastSaveOf s.sync.lastSavedFrame B1) ∧ c1.cur = s.sync.currentFrame := by
    rcases hb1 with he | ⟨hrb, Lst, hld⟩
    · subst he; exact ⟨c, ChkList.nil c, hq, hcur⟩
    · exact chk_rblock_sp n hn c _ _ B1 Lst hq hcur hrb hld
  obtain ⟨c1, hl1, hq1, hc1⟩ := h1
  -- second block
  have h2 : ∃ c2, ChkList n c1 B2 c2 ∧ SQInv n c2 (lastSaveOf s.sync.lastSavedFrame (B1 ++ B2)) ∧ c2.cur = s.sync.currentFrame := by
    rw [lastSaveOf_append]
    rcases hb2 with he | ⟨he, h0⟩ | ⟨hrb, Lst, hld⟩
    · subst he; exact ⟨c1, ChkList.nil c1, hq1, hc1⟩
    · subst he
      have hsv := Chk.save (n := n) c1 c1.cur rfl hq1.cur
      have hinv := SQInv_save n hn c1 _ hq1
      rw [hc1] at hsv hinv
      refine ⟨_, ChkList.cons c1 _ _ _ _ hsv (ChkList.nil _), ?_, rfl⟩
      simpa [lastSaveOf] using hinv
    · exact chk_rblock_sp n hn c1 _ _ B2 Lst hq1 hc1 hrb hld
  obtain ⟨c2, hl2, hq2, hc2⟩ := h2
  rw [← hls] at hq2
  rcases hg with ⟨hG, hcs⟩ | ⟨ins, hG, hcs⟩
  · refine ⟨B1 ++ B2, c2, by rw [hL, hG]; simp, ChkList_append n c c1 c2 _ _ hl1 hl2, hq2, by rw [hc2, hcs], Or.inl hcs, hcl, hspp⟩
  · let c3 : CS := { c2 with cur := c2.cur + 1, valid := fun i => c2.valid i ∧ c2.tag i ≤ c2.cur }
    have hadv : Chk n c2 (.advance ins) c3 := Chk.advance c2 ins hq2.cur
    refine ⟨B1 ++ B2 ++ [.advance ins], c3, by rw [hL, hG]; simp, ?_, SQInv_advance n c2 _ hq2,
      by show c2.cur + 1 = _; rw [hc2, hcs], Or.inr hcs, hcl, hspp⟩
    exact ChkList_append n c c2 c3 _ _ (ChkList_append n c c1 c2 _ _ hl1 hl2) (ChkList.cons c2 c3 c3 _ _ hadv (ChkList.nil c3))

end Ggrs
