/-
The network side of a lockstep session: what it hands to its remote endpoints (L-glue) and to its
spectators (L-spechost), for every interleaving of remote-input arrivals and lockstep calls.
-/
import GgrsModel.Proofs.DelayStep

namespace Ggrs
open InputQueue

theorem rowMap_specs (gh gh' : Ghost) (N : Nat) (h : gh'.specs = gh.specs) : rowMap gh' N = rowMap gh N := by
  funext f; unfold rowMap; rw [h]

theorem Offers_specs (gh gh' : Ghost) (N now : Nat) (h : gh'.specs = gh.specs) (a b : P2P)
    (ho : Offers gh N now a b) : Offers gh' N now a b := by
  induction ho with
  | done s => exact Offers.done s
  | step s s1 s' f hf hoff _ ih => exact Offers.step s s1 s' f hf (by rw [rowMap_specs gh gh' N h]; exact hoff) ih

/-- The frame-consuming step of lockstep, with the invariant afterwards. -/
theorem lockstepMid_spec (s1 s2 : P2P) (gh1 : Ghost) (t : TLState) (c1 : Frame) (reqs2 : List Request)
    (hl1 : LkInv s1 gh1 t) (hc1 : s1.confirmedFrame = .ok c1)
    (hstep : s1.lockstepAdvance s1.sync.currentFrame c1 [] = .ok (s2, reqs2)) :
    ∃ gh2, LkInv s2 gh2 (execReqs t reqs2) ∧ gh2.specs = gh1.specs ∧ s2.sync.queues.length = s1.sync.queues.length ∧
      s2.localConnectStatus = s1.localConnectStatus ∧ s2.handles = s1.handles ∧
      s2.nextSpectatorFrame = s1.nextSpectatorFrame ∧ s2.outgoingLocalInputs = s1.outgoingLocalInputs ∧
      s2.lastSentOutgoingInputFrame = s1.lastSentOutgoingInputFrame := by
  have hfields : s2.nextSpectatorFrame = s1.nextSpectatorFrame ∧ s2.outgoingLocalInputs = s1.outgoingLocalInputs ∧
      s2.lastSentOutgoingInputFrame = s1.lastSentOutgoingInputFrame := by
    unfold P2P.lockstepAdvance at hstep
    split at hstep
    · obtain ⟨cis, _, hstep⟩ := bind_ok hstep
      obtain ⟨inputs, _, hstep⟩ := bind_ok hstep
      have := pure_ok hstep
      simp only [Prod.mk.injEq] at this
      rw [← this.1]
      exact ⟨rfl, rfl, rfl⟩
    · have := pure_ok hstep
      simp only [Prod.mk.injEq] at this
      rw [← this.1]
      exact ⟨rfl, rfl, rfl⟩
  rcases lockstepAdvance_spec s1 s2 gh1 t c1 reqs2 hl1 hc1 hstep with ⟨hre, hse⟩ | ⟨c, gh2, hcc, hre, hsp2, hs2, hi2, hcur2, hq2, hst2, _, hh2, _, hfull2⟩
  · subst hse; subst hre
    exact ⟨gh1, hl1, rfl, rfl, rfl, rfl, rfl, rfl, rfl⟩
  · have hs2' := SessInv_rebase s2 gh2 t reqs2 hs2
    have hl2 : LkInv s2 gh2 (execReqs t reqs2) := by
      refine ⟨hs2', hi2, ?_, ?_⟩
      · intro p hp
        rw [hcur2, hcc, hsp2]
        exact hfull2 p (by rw [← hq2]; exact hp)
      · intro f hf
        rw [hq2]
        rw [hcur2, hcc] at hf
        have htc : t.cur = (c : Int) := by
          have := hl1.sess.tinv.exec; simp only [execReqs, List.foldl_nil] at this; rw [this, hcc]
        have hR : (execReqs t reqs2).R = upd t.R c (rowOf gh1 s1.sync.queues.length c) := by
          rw [hre]
          simp only [execReqs, List.foldl_cons, List.foldl_nil, execReq, htc]
          simp
        rw [hR]
        by_cases hfc : f = c
        · subst hfc
          rw [upd_self]
          exact ⟨rowOf_length _ _ _, fun p hp => by rw [rowOf_getD _ _ _ _ hp]⟩
        · rw [upd_ne _ _ _ _ hfc]
          exact hl1.rows f (by rw [hcc]; omega)
    exact ⟨gh2, hl2, hsp2, by rw [hq2], hst2, hh2, hfields.1, hfields.2.1, hfields.2.2⟩

/-- One lockstep call: the local inputs go out as queue contents, the spectators are offered the
next frames up to `min(confirmed, consumed)` as rows of real inputs. -/
theorem lockstepTick_netX (s s' : P2P) (gh : Ghost) (t : TLState) (now : Nat) (reqs' : List Request)
    (h : LkInv s gh t) (hg : GlueInv s gh) (hn : 0 ≤ s.nextSpectatorFrame)
    (hadv : s.advanceLockstepFrame now [] = .ok (s', reqs')) :
    ∃ (gh1 gh' : Ghost) (sA sB sC sD : P2P), LkInv s' gh' (execReqs t reqs') ∧ GlueInv s' gh' ∧
      0 ≤ s'.nextSpectatorFrame ∧ gh'.specs = gh1.specs ∧
      (∀ p, PrefixOf (gh.specs p).vals (gh1.specs p).vals) ∧
      sA.lastSentOutgoingInputFrame = s.lastSentOutgoingInputFrame ∧ Sends gh1 now sA sB ∧
      s'.lastSentOutgoingInputFrame = sB.lastSentOutgoingInputFrame ∧
      sC.nextSpectatorFrame = s.nextSpectatorFrame ∧ Offers gh1 s.sync.queues.length now sC sD ∧
      s'.nextSpectatorFrame = sD.nextSpectatorFrame ∧
      (∀ p, p ∉ s.localPlayerHandles → gh'.specs p = gh.specs p) ∧ s'.handles = s.handles := by
  unfold P2P.advanceLockstepFrame at hadv
  obtain ⟨s1, hreg, hadv⟩ := bind_ok hadv
  obtain ⟨c1, hc1, hadv⟩ := bind_ok hadv
  obtain ⟨r2, hstep, hadv⟩ := bind_ok hadv
  obtain ⟨s2, reqs2⟩ := r2
  simp only at hadv
  obtain ⟨c2, hc2, hadv⟩ := bind_ok hadv
  obtain ⟨s3, hspec, hadv⟩ := bind_ok hadv
  obtain ⟨sy4, hset, hadv⟩ := bind_ok hadv
  have := pure_ok hadv
  simp only [Prod.mk.injEq] at this
  obtain ⟨hs', hr'⟩ := this
  -- local inputs out
  obtain ⟨gh1, sA, hinv1, hg1, hk1, hlsA, hsends, hpre, hoth⟩ := registerLocalInputs_glueX s s1 gh t [] now h.sess hg hreg
  have hn1 : s1.nextSpectatorFrame = s.nextSpectatorFrame := P2P.registerLocalInputs_nsf _ _ _ hreg
  have hl1 : LkInv s1 gh1 t := by
    refine ⟨hinv1, registerLocalInputs_idle s s1 now h.idle hreg, ?_, ?_⟩
    · intro p hp
      rw [hk1.cur]
      have := h.full p (by rw [← hk1.nq]; exact hp)
      have := hk1.grows p
      omega
    · intro f hf
      rw [hk1.nq]
      exact h.rows f (by rw [← hk1.cur]; exact hf)
  -- the frame
  obtain ⟨gh2, hl2, hsp2, hq2, hst2, hh2, hn2, ho2, hls2⟩ := lockstepMid_spec s1 s2 gh1 t c1 reqs2 hl1 hc1 hstep
  have hg2 : GlueInv s2 gh2 := GlueInv_transfer s1 s2 gh1 gh2 hg1 ho2 hh2 hst2 hq2 hsp2
  -- spectators
  have hle : ∀ p, p < s2.sync.queues.length → min c2 (s2.sync.currentFrame - 1) ≤ (rget s2.localConnectStatus p).lastFrame := by
    intro p hp
    have := confirmedFrame_le s2 c2 hc2 hl2.sess.tinv.sync.conn p (by rw [hl2.sess.tinv.sync.nq]; exact hp)
    exact Int.le_trans (Int.min_le_left _ _) this
  obtain ⟨hoff, hnl1, _⟩ := sendConfirmed_rows s2 s3 gh2 _ [] now _ hl2.sess (by rw [hn2, hn1]; exact hn) hle hspec
  have hc3 := P2P.sendConfirmed_sameCore _ _ _ _ hspec
  obtain ⟨ho3, hls3⟩ := P2P.sendConfirmed_out _ _ _ _ hspec
  have hl4 := lockstepTail_spec s2 s3 sy4 gh2 (execReqs t reqs2) now c2 hl2 hc2 hspec hset
  have hg3 : GlueInv s3 gh2 := GlueInv_transfer s2 s3 gh2 gh2 hg2 ho3 hc3.handles hc3.statuses (by rw [hc3.sync]) rfl
  have hq4 : sy4.queues.length = s3.sync.queues.length := by
    have a := hl4.sess.tinv.sync.nq
    have b := hl2.sess.tinv.sync.nq
    have a' : s3.localConnectStatus.length = sy4.queues.length := a
    rw [hc3.sync, ← b, ← hc3.statuses]
    exact a'.symm
  subst hs'
  subst hr'
  refine ⟨gh1, gh2, sA, s1, s2, s3, hl4, GlueInv_transfer s3 _ gh2 gh2 hg3 rfl rfl rfl hq4 rfl, ?_, hsp2, hpre, hlsA, hsends, ?_,
    hn2.trans hn1, ?_, rfl, ?_, ?_⟩
  · show 0 ≤ s3.nextSpectatorFrame
    have : 0 ≤ s2.nextSpectatorFrame := by rw [hn2, hn1]; exact hn
    omega
  · show s3.lastSentOutgoingInputFrame = s1.lastSentOutgoingInputFrame
    rw [hls3, hls2]
  · rw [hq2, hk1.nq] at hoff
    exact Offers_specs gh2 gh1 _ now hsp2.symm s2 s3 hoff
  · intro p hp
    rw [hsp2]
    exact hoth p hp
  · show s3.handles = s.handles
    rw [hc3.handles, hh2, hk1.handles]

theorem lockstepTick_net (s s' : P2P) (gh : Ghost) (t : TLState) (now : Nat) (reqs' : List Request)
    (h : LkInv s gh t) (hg : GlueInv s gh) (hn : 0 ≤ s.nextSpectatorFrame)
    (hadv : s.advanceLockstepFrame now [] = .ok (s', reqs')) :
    ∃ (gh1 gh' : Ghost) (sA sB sC sD : P2P), LkInv s' gh' (execReqs t reqs') ∧ GlueInv s' gh' ∧
      0 ≤ s'.nextSpectatorFrame ∧ gh'.specs = gh1.specs ∧
      (∀ p, PrefixOf (gh.specs p).vals (gh1.specs p).vals) ∧
      sA.lastSentOutgoingInputFrame = s.lastSentOutgoingInputFrame ∧ Sends gh1 now sA sB ∧
      s'.lastSentOutgoingInputFrame = sB.lastSentOutgoingInputFrame ∧
      sC.nextSpectatorFrame = s.nextSpectatorFrame ∧ Offers gh1 s.sync.queues.length now sC sD ∧
      s'.nextSpectatorFrame = sD.nextSpectatorFrame := by
  obtain ⟨gh1, gh', sA, sB, sC, sD, a, b, c, d, e, f, g, i, j, k, l, _⟩ := lockstepTick_netX s s' gh t now reqs' h hg hn hadv
  exact ⟨gh1, gh', sA, sB, sC, sD, a, b, c, d, e, f, g, i, j, k, l⟩

/-- Lockstep invariant, glue invariant and a non-negative spectator cursor. -/
def LkNetInv (x : P2P × TLState) : Prop :=
  (∃ gh, LkInv x.1 gh x.2 ∧ GlueInv x.1 gh) ∧ 0 ≤ x.1.nextSpectatorFrame

theorem LkNetInv_step (x y : P2P × TLState) (h : LkNetInv x) (hs : LkStep x y) : LkNetInv y := by
  obtain ⟨⟨gh, hl, hg⟩, hn⟩ := h
  cases hs with
  | remoteInput s s' t now inp player handles addr hnl h0 hev =>
    obtain ⟨gh', h', hT, hcur, hh, _, hsp⟩ := remoteInput_spec s s' gh t [] now inp player handles addr hl.sess hnl h0 hev
    have hq := remoteInput_nq s s' now inp player handles addr hev
    obtain ⟨ho, _, hst⟩ := P2P.remoteInput_out s s' now inp player handles addr hev
    have hlp : s'.localPlayerHandles = s.localPlayerHandles := by unfold P2P.localPlayerHandles; rw [hh]
    refine ⟨⟨gh', ⟨h', remoteInput_idle s s' now inp player handles addr hl.idle hev, ?_, ?_⟩, ⟨?_, ?_⟩⟩, ?_⟩
    · intro p hp
      show s'.sync.currentFrame ≤ _
      rw [hcur, hsp p]
      have : s.sync.currentFrame ≤ ((gh.specs p).vals.length : Int) := hl.full p (by rw [← hq]; exact hp)
      by_cases hpp : p = player
      · rw [if_pos hpp]
        have := (submit_facts (gh.specs p) inp.frame inp.input).1
        omega
      · rw [if_neg hpp]; exact this
    · intro f hf
      show (t.R f).length = s'.sync.queues.length ∧ _
      rw [hq]
      exact hl.rows f (by rw [← hcur]; exact hf)
    · intro f m hlk
      show 0 ≤ f ∧ ∀ x ∈ m, x.1 ∈ s'.localPlayerHandles ∧ _
      rw [ho] at hlk
      obtain ⟨a, b⟩ := hg.out f m hlk
      refine ⟨a, fun x hx => ?_⟩
      obtain ⟨b1, b2, b3⟩ := b x hx
      have hne : x.1 ≠ player := fun e => hnl (e ▸ b1)
      rw [hlp, hsp x.1, if_neg hne]
      exact ⟨b1, b2, b3⟩
    · intro p hp hpq
      show (rget s'.localConnectStatus p).lastFrame = _
      have hp' : p ∈ s.localPlayerHandles := by rw [← hlp]; exact hp
      have hne : p ≠ player := fun e => hnl (e ▸ hp')
      rw [hst p hne, hsp p, if_neg hne]
      exact hg.top p hp' (by rw [← hq]; exact hpq)
    · show 0 ≤ s'.nextSpectatorFrame
      rw [P2P.remoteInput_nsf s s' now inp player handles addr hev]; exact hn
  | tick s s' t now reqs' hadv =>
    obtain ⟨_, gh', _, _, _, _, hl', hg', hn', _⟩ := lockstepTick_net s s' gh t now reqs' hl hg hn hadv
    exact ⟨⟨gh', hl', hg'⟩, hn'⟩
  | localInput s t handle input =>
    obtain ⟨l, hl'⟩ := P2P.addLocalInput_pending s handle input
    show LkNetInv ((s.addLocalInput handle input).1, t)
    rw [hl']
    exact ⟨⟨gh, ⟨SessInv_pending s gh t [] l hl.sess, hl.idle, hl.full, hl.rows⟩, GlueInv_pending s gh l hg⟩, hn⟩

theorem LkNetInv_run (x y : P2P × TLState) (h : LkNetInv x) (hr : LkStar x y) : LkNetInv y := by
  induction hr with
  | refl => exact h
  | step y z _ hs ih => exact LkNetInv_step y z ih hs

/-! ### delay changes in a lockstep session -/

theorem delayFillLoop_idle (li : PlayerInput) : ∀ (n : Nat) (q q' : InputQueue) (fills fills' : List PlayerInput),
    Idle q → delayFillLoop li n q fills = .ok (q', fills') → Idle q' := by
  intro n
  induction n with
  | zero => intro q q' f f' h hl; simp only [delayFillLoop] at hl; cases hl; exact h
  | succ k ih =>
    intro q q' f f' h hl
    simp only [delayFillLoop] at hl
    obtain ⟨q1, h1, hl⟩ := bind_ok hl
    exact ih q1 q' _ f' (addByFrame_idle q q1 li _ h h1) hl

theorem setFrameDelay_idle (q q' : InputQueue) (d : Nat) (fills : List PlayerInput) (h : Idle q)
    (hs : q.setFrameDelay d = .ok (q', fills)) : Idle q' := by
  unfold InputQueue.setFrameDelay at hs
  simp only at hs
  split at hs
  · have := pure_ok hs
    simp only [Prod.mk.injEq] at this
    rw [← this.1]; exact h
  · exact delayFillLoop_idle _ _ ({ q with frameDelay := d } : InputQueue) q' _ fills h hs

/-- `set_input_delay` keeps every queue idle. -/
theorem setInputDelay_idle (s s' : P2P) (now handle delay : Nat) (r : Except GgrsError Unit)
    (hi : AllIdle s.sync.queues) (hp : handle < s.sync.queues.length)
    (hset : s.setInputDelay now handle delay = .ok (s', r)) : AllIdle s'.sync.queues := by
  unfold P2P.setInputDelay at hset
  cases hpt : s.playerType handle with
  | none =>
    rw [hpt] at hset
    have := pure_ok hset
    simp only [Prod.mk.injEq] at this
    rw [← this.1]; exact hi
  | some ty =>
    rw [hpt] at hset
    cases ty with
    | remote a =>
      have := pure_ok hset
      simp only [Prod.mk.injEq] at this
      rw [← this.1]; exact hi
    | spectator a =>
      have := pure_ok hset
      simp only [Prod.mk.injEq] at this
      rw [← this.1]; exact hi
    | localPlayer =>
      simp only at hset
      obtain ⟨r1, hsd, hset⟩ := bind_ok hset
      obtain ⟨sy, fills⟩ := r1
      simp only at hset
      obtain ⟨s2, hfold, hset⟩ := bind_ok hset
      obtain ⟨s3, hsend, hset⟩ := bind_ok hset
      have := pure_ok hset
      simp only [Prod.mk.injEq] at this
      obtain ⟨hs', _⟩ := this
      subst hs'
      unfold SyncLayer.setFrameDelay at hsd
      obtain ⟨_, hsd⟩ := ensure_bind_ok hsd
      obtain ⟨r2, hq, hsd⟩ := bind_ok hsd
      obtain ⟨q', fl⟩ := r2
      simp only at hsd
      have := pure_ok hsd
      simp only [Prod.mk.injEq] at this
      obtain ⟨hsy, _⟩ := this
      have hi1 : AllIdle sy.queues := by
        rw [← hsy]
        exact AllIdle_rset _ _ _ hi (setFrameDelay_idle _ q' delay fl (hi handle hp) hq)
      have hc3 := P2P.sendReady_sameCore _ _ _ hsend
      -- the fold over the fills leaves the sync layer alone
      have hf : ∀ (l : List PlayerInput) (a b : P2P),
          l.foldlM (fun s (f : PlayerInput) => if f.frame != NULL_FRAME then
            (s.setStatus handle fun c => { c with lastFrame := f.frame }).queueOutgoingLocalInput handle f
          else pure s) a = .ok b → b.sync = a.sync := by
        intro l
        induction l with
        | nil => intro a b hh; simp only [List.foldlM_nil] at hh; have := pure_ok hh; subst this; rfl
        | cons x xs ih =>
          intro a b hh
          simp only [List.foldlM_cons] at hh
          obtain ⟨a1, h1, hh⟩ := bind_ok hh
          have e1 : a1.sync = a.sync := by
            split at h1
            · exact (P2P.queueOutgoing_sameCore _ _ _ _ h1).sync
            · have := pure_ok h1; subst this; rfl
          exact (ih a1 b hh).trans e1
      rw [hc3.sync, hf _ _ s2 hfold]
      exact hi1

/-- Steps of a lockstep session including run-time delay changes. -/
inductive DLkStep : (P2P × TLState) → (P2P × TLState) → Prop
  | base (x y : P2P × TLState) : LkStep x y → DLkStep x y
  | setDelay (s s' : P2P) (t : TLState) (now handle delay : Nat) (r : Except GgrsError Unit) :
      handle ∈ s.localPlayerHandles → handle < s.sync.queues.length →
      s.setInputDelay now handle delay = .ok (s', r) → DLkStep (s, t) (s', t)

inductive DLkStar : (P2P × TLState) → (P2P × TLState) → Prop
  | refl (x : P2P × TLState) : DLkStar x x
  | step (x y z : P2P × TLState) : DLkStar x y → DLkStep y z → DLkStar x z

theorem LkNetInv_dstep (x y : P2P × TLState) (h : LkNetInv x) (hs : DLkStep x y) : LkNetInv y := by
  cases hs with
  | base _ _ hl => exact LkNetInv_step x y h hl
  | setDelay s s' t now handle delay r hloc hp hset =>
    obtain ⟨⟨gh, hl, hg⟩, hn⟩ := h
    obtain ⟨gh', hinv', hg', hcase, hcur, _, _, _, hnsf, _, _, _, hq⟩ :=
      setInputDelay_spec s s' gh t [] now handle delay r hl.sess hg hloc hp hset
    refine ⟨⟨gh', ⟨hinv', setInputDelay_idle s s' now handle delay r hl.idle hp hset, ?_, ?_⟩, hg'⟩, ?_⟩
    · intro p hpq
      show s'.sync.currentFrame ≤ _
      rw [hcur]
      have hfull : s.sync.currentFrame ≤ ((gh.specs p).vals.length : Int) := hl.full p (by rw [← hq]; exact hpq)
      rcases hcase with he | he
      · rw [he]; exact hfull
      · rw [he]
        unfold ghDelay
        by_cases hpe : p = handle
        · subst hpe
          simp only [if_true]
          obtain ⟨k, hv, _, _⟩ := setDelay_facts (gh.specs p) delay
          rw [hv]
          simp only [List.length_append, List.length_replicate]
          push_cast; omega
        · simp only [hpe, if_false]; exact hfull
    · intro f hf
      show (t.R f).length = s'.sync.queues.length ∧ _
      rw [hq]
      exact hl.rows f (by rw [← hcur]; exact hf)
    · show 0 ≤ s'.nextSpectatorFrame
      rw [hnsf]; exact hn

theorem LkNetInv_drun (x y : P2P × TLState) (h : LkNetInv x) (hr : DLkStar x y) : LkNetInv y := by
  induction hr with
  | refl => exact h
  | step y z _ hs ih => exact LkNetInv_dstep y z ih hs

end Ggrs
