/-
L-detect: the prediction side of `InputQueue`.

`Proofs/Queue.lean` shows that the ring implements the stream `QSpec` as long as the queue is not
predicting. Here the prediction machinery is added: `strip` forgets the prediction fields, every
queue operation commutes with it on the ring fields (so the ring refinement carries over to
predicting queues unchanged), and `PT` is the invariant tying `prediction`, `first_incorrect_frame`,
`last_requested_frame`, `tail` and `length` to the stream and to the history `H` of predicted
values the queue has handed out since the last `reset_prediction`.
-/
import GgrsModel.Proofs.Queue

namespace Ggrs
namespace InputQueue

/-- Forget the prediction state. -/
def strip (q : InputQueue) : InputQueue :=
  { q with prediction := { q.prediction with frame := NULL_FRAME }, firstIncorrectFrame := NULL_FRAME }

theorem strip_strip (q : InputQueue) : q.strip.strip = q.strip := rfl

/-- What `add_input_by_frame` does to the fields outside the ring. -/
theorem addByFrame_fields (q q' : InputQueue) (inp : PlayerInput) (f : Frame)
    (h : q.addInputByFrame inp f = .ok q') :
    q'.lastRequestedFrame = q.lastRequestedFrame ∧ q'.prediction.input = q.prediction.input ∧
    q'.tail = q.tail ∧ q'.length = q.length + 1 ∧ q.length + 1 ≤ INPUT_QUEUE_LENGTH ∧
    q'.lastAddedFrame = f ∧
    (q.prediction.frame = NULL_FRAME → q'.prediction.frame = NULL_FRAME ∧ q'.firstIncorrectFrame = q.firstIncorrectFrame) ∧
    (q.prediction.frame ≠ NULL_FRAME → f = q.prediction.frame ∧
      q'.firstIncorrectFrame =
        (if q.firstIncorrectFrame = NULL_FRAME ∧ q.prediction.input ≠ inp.input then f else q.firstIncorrectFrame) ∧
      q'.prediction.frame =
        (if q.prediction.frame = q.lastRequestedFrame ∧
            (if q.firstIncorrectFrame = NULL_FRAME ∧ q.prediction.input ≠ inp.input then f else q.firstIncorrectFrame) = NULL_FRAME
         then NULL_FRAME else q.prediction.frame + 1)) := by
  unfold addInputByFrame at h
  simp only at h
  obtain ⟨_, h⟩ := ensure_bind_ok h
  obtain ⟨_, h⟩ := ensure_bind_ok h
  obtain ⟨hlen, h⟩ := ensure_bind_ok h
  have hlen' : q.length + 1 ≤ INPUT_QUEUE_LENGTH := by simpa using hlen
  by_cases hp : q.prediction.frame = NULL_FRAME
  · have hp' : (q.prediction.frame != NULL_FRAME) = false := by simp [hp]
    simp only [hp', Bool.false_eq_true, if_false] at h
    have := pure_ok h
    subst this
    exact ⟨rfl, rfl, rfl, rfl, hlen', rfl, fun _ => ⟨hp, rfl⟩, fun hne => absurd hp hne⟩
  · have hp' : (q.prediction.frame != NULL_FRAME) = true := by simpa using hp
    simp only [hp', if_true] at h
    obtain ⟨hfe, h⟩ := ensure_bind_ok h
    have hfe' : f = q.prediction.frame := by simpa using hfe
    by_cases hmis : q.firstIncorrectFrame = NULL_FRAME ∧ q.prediction.input ≠ inp.input
    · have hm' : (q.firstIncorrectFrame == NULL_FRAME && q.prediction.input != inp.input) = true := by
        simp [hmis.1, hmis.2]
      simp only [hm', if_true] at h
      by_cases hex : q.prediction.frame = q.lastRequestedFrame ∧ f = NULL_FRAME
      · have hx' : (q.prediction.frame == q.lastRequestedFrame && f == NULL_FRAME) = true := by
          simp [hex.1, hex.2]
        simp only [hx', if_true] at h
        have := pure_ok h
        subst this
        refine ⟨rfl, rfl, rfl, rfl, hlen', rfl, fun h0 => absurd h0 hp, fun _ => ⟨hfe', ?_, ?_⟩⟩
        · simp [hmis]
        · simp [hmis, hex]
      · have hx' : (q.prediction.frame == q.lastRequestedFrame && f == NULL_FRAME) = false := by
          rw [Bool.eq_false_iff]; intro hc
          simp only [Bool.and_eq_true, beq_iff_eq] at hc
          exact hex hc
        simp only [hx', Bool.false_eq_true, if_false] at h
        have := pure_ok h
        subst this
        refine ⟨rfl, rfl, rfl, rfl, hlen', rfl, fun h0 => absurd h0 hp, fun _ => ⟨hfe', ?_, ?_⟩⟩
        · simp [hmis]
        · simp only [hmis, and_self, ne_eq, not_false_eq_true, if_true]
          rw [if_neg hex]
    · have hm' : (q.firstIncorrectFrame == NULL_FRAME && q.prediction.input != inp.input) = false := by
        rw [Bool.eq_false_iff]; intro hc
        simp only [Bool.and_eq_true, beq_iff_eq, bne_iff_ne, ne_eq] at hc
        exact hmis hc
      simp only [hm', Bool.false_eq_true, if_false] at h
      by_cases hex : q.prediction.frame = q.lastRequestedFrame ∧ q.firstIncorrectFrame = NULL_FRAME
      · have hx' : (q.prediction.frame == q.lastRequestedFrame && q.firstIncorrectFrame == NULL_FRAME) = true := by
          simp [hex.1, hex.2]
        simp only [hx', if_true] at h
        have := pure_ok h
        subst this
        refine ⟨rfl, rfl, rfl, rfl, hlen', rfl, fun h0 => absurd h0 hp, fun _ => ⟨hfe', ?_, ?_⟩⟩
        · rw [if_neg hmis]
        · rw [if_neg hmis, if_pos hex]
      · have hx' : (q.prediction.frame == q.lastRequestedFrame && q.firstIncorrectFrame == NULL_FRAME) = false := by
          rw [Bool.eq_false_iff]; intro hc
          simp only [Bool.and_eq_true, beq_iff_eq] at hc
          exact hex hc
        simp only [hx', Bool.false_eq_true, if_false] at h
        have := pure_ok h
        subst this
        refine ⟨rfl, rfl, rfl, rfl, hlen', rfl, fun h0 => absurd h0 hp, fun _ => ⟨hfe', ?_, ?_⟩⟩
        · rw [if_neg hmis]
        · rw [if_neg hmis, if_neg hex]

/-- On the ring fields `add_input_by_frame` does not care about the prediction state. -/
theorem addByFrame_strip (q q' : InputQueue) (inp : PlayerInput) (f : Frame)
    (h : q.addInputByFrame inp f = .ok q') : q.strip.addInputByFrame inp f = .ok q'.strip := by
  unfold addInputByFrame at h ⊢
  simp only at h ⊢
  obtain ⟨c1, h⟩ := ensure_bind_ok h
  obtain ⟨c2, h⟩ := ensure_bind_ok h
  obtain ⟨c3, h⟩ := ensure_bind_ok h
  have c1' : (q.strip.lastAddedFrame == NULL_FRAME || f == q.strip.lastAddedFrame + 1) = true := c1
  have c2' : (f == 0 || (rget q.strip.inputs (prevPos q.strip.head)).frame == f - 1) = true := c2
  simp only [ensure, c1', c2', if_true, bind, Except.bind]
  have c3' : decide (q.strip.length + 1 ≤ INPUT_QUEUE_LENGTH) = true := c3
  simp only [c3', if_true]
  have hp : ((strip q).prediction.frame != NULL_FRAME) = false := by simp [strip]
  simp only [hp, Bool.false_eq_true, if_false]
  -- now the result of the original call, case by case, stripped
  by_cases hq : (q.prediction.frame != NULL_FRAME) = true
  · simp only [hq, if_true] at h
    obtain ⟨_, h⟩ := ensure_bind_ok h
    split at h <;> split at h <;> (have := pure_ok h; subst this; rfl)
  · simp only [hq, Bool.false_eq_true, if_false] at h
    have := pure_ok h
    subst this
    rfl

theorem fillLoop_strip (toRep : PlayerInput) : ∀ (n : Nat) (q q' : InputQueue) (expected : Frame),
    fillLoop toRep n q expected = .ok q' → fillLoop toRep n q.strip expected = .ok q'.strip := by
  intro n
  induction n with
  | zero => intro q q' e h; simp only [fillLoop] at h ⊢; cases h; rfl
  | succ k ih =>
    intro q q' e h
    simp only [fillLoop] at h ⊢
    obtain ⟨q1, h1, h⟩ := bind_ok h
    rw [addByFrame_strip q q1 toRep e h1]
    exact ih q1 q' (e + 1) h

theorem delayFillLoop_strip (li : PlayerInput) : ∀ (n : Nat) (q q' : InputQueue) (fills fills' : List PlayerInput),
    delayFillLoop li n q fills = .ok (q', fills') → delayFillLoop li n q.strip fills = .ok (q'.strip, fills') := by
  intro n
  induction n with
  | zero => intro q q' f f' h; simp only [delayFillLoop] at h ⊢; cases h; rfl
  | succ k ih =>
    intro q q' f f' h
    simp only [delayFillLoop] at h ⊢
    obtain ⟨q1, h1, h⟩ := bind_ok h
    have : q.strip.lastAddedFrame = q.lastAddedFrame := rfl
    rw [this, addByFrame_strip q q1 li _ h1]
    exact ih q1 q' _ f' h

end InputQueue
end Ggrs

namespace Ggrs
open InputQueue

/-- History of predicted values handed out since the last `reset_prediction`: (frame, value). -/
abbrev Hist := List (Int × Input)

/-- `fi` is the first frame in `[start, vals.length)` whose value differs from the prediction `pv`
(NULL_FRAME if there is none). -/
def FirstMismatch (vals : List Input) (pv : Input) (start : Nat) (fi : Frame) : Prop :=
  (fi = NULL_FRAME ∧ ∀ g : Nat, start ≤ g → g < vals.length → vals.getD g 0 = pv) ∨
  (∃ g : Nat, fi = (g : Int) ∧ start ≤ g ∧ g < vals.length ∧ vals.getD g 0 ≠ pv ∧
    ∀ g' : Nat, start ≤ g' → g' < g → vals.getD g' 0 = pv)

/-- The part of the ring the queue regards as valid: frames `t .. vals.length-1`. -/
def TailOk (q : InputQueue) (n : Nat) : Prop :=
  (n = 0 ∧ q.tail = 0 ∧ q.length = 0) ∨
  ∃ t : Nat, t < n ∧ n ≤ t + INPUT_QUEUE_LENGTH ∧ q.tail = t % INPUT_QUEUE_LENGTH ∧ q.length = n - t

/-- What a fresh prediction would be: the predictor applied to the newest input of the stream, the
default input if there is none yet. -/
def predValue (pr : Predictor) (vals : List Input) : Input :=
  if vals.length = 0 then 0 else pr.predict (vals.getLast?.getD 0)

/-- Prediction state against the stream and the history. -/
def PredOk (pr : Predictor) (q : InputQueue) (vals : List Input) (H : Hist) : Prop :=
  (q.prediction.frame = NULL_FRAME ∧ q.firstIncorrectFrame = NULL_FRAME ∧
    ∀ p ∈ H, 0 ≤ p.1 ∧ p.1 < vals.length ∧ vals.getD p.1.toNat 0 = p.2) ∨
  (∃ start : Nat, start ≤ vals.length ∧ q.prediction.frame = (vals.length : Int) ∧
    (start : Int) ≤ q.lastRequestedFrame ∧
    (∀ p ∈ H, (0 ≤ p.1 ∧ p.1 < start ∧ vals.getD p.1.toNat 0 = p.2) ∨
              ((start : Int) ≤ p.1 ∧ p.1 ≤ q.lastRequestedFrame ∧ p.2 = q.prediction.input)) ∧
    FirstMismatch vals q.prediction.input start q.firstIncorrectFrame ∧
    (q.firstIncorrectFrame = NULL_FRAME →
      (vals.length : Int) ≤ q.lastRequestedFrame ∧ q.prediction.input = predValue pr vals))

structure PT (pr : Predictor) (q : InputQueue) (vals : List Input) (H : Hist) : Prop where
  tail : TailOk q vals.length
  pred : PredOk pr q vals H

theorem predValue_idem (pr : Predictor) (vals : List Input) :
    predValue pr (vals ++ [predValue pr vals]) = predValue pr vals := by
  unfold predValue
  simp only [List.length_append, List.length_cons, List.length_nil, Nat.add_eq_zero_iff, Nat.succ_ne_self,
    and_false, if_false, List.getLast?_append, List.getLast?_singleton, Option.some_or, Option.getD_some]
  cases pr with
  | repeatLast => simp only [Predictor.predict]
  | default => simp [Predictor.predict]

theorem getD_append_lt (vals : List Input) (x : Input) (g : Nat) (h : g < vals.length) :
    (vals ++ [x]).getD g 0 = vals.getD g 0 := by
  simp [List.getD_eq_getElem?_getD, List.getElem?_append_left h]

theorem getD_append_eq (vals : List Input) (x : Input) : (vals ++ [x]).getD vals.length 0 = x := by
  simp [List.getD_eq_getElem?_getD]

/-- One `add_input_by_frame` at the next frame keeps `PT` for the extended stream. -/
theorem PT_addByFrame (pr : Predictor) (q q' : InputQueue) (vals : List Input) (H : Hist) (inp : PlayerInput) (f : Frame)
    (h : PT pr q vals H) (hf : f = (vals.length : Int)) (hadd : q.addInputByFrame inp f = .ok q') :
    PT pr q' (vals ++ [inp.input]) H := by
  have hnull : NULL_FRAME = (-1 : Int) := rfl
  have hq : INPUT_QUEUE_LENGTH = 128 := rfl
  obtain ⟨hlr, hpi, htl, hln, hcap, _, hnp, hpp⟩ := addByFrame_fields q q' inp f hadd
  refine ⟨?_, ?_⟩
  · -- tail
    simp only [List.length_append, List.length_cons, List.length_nil]
    rcases h.tail with ⟨h0, ht, hl⟩ | ⟨t, ht, hw, htt, hl⟩
    · right
      exact ⟨0, by omega, by omega, by rw [htl, ht]; rfl, by rw [hln, hl]; omega⟩
    · right
      exact ⟨t, by omega, by rw [hl] at hcap; omega, by rw [htl, htt], by rw [hln, hl]; omega⟩
  · rcases h.pred with ⟨hp0, hfi0, hH⟩ | ⟨start, hs, hpf, hsr, hH, hfm, hreq⟩
    · -- not predicting: nothing changes
      obtain ⟨hp', hfi'⟩ := hnp hp0
      left
      refine ⟨hp', by rw [hfi', hfi0], ?_⟩
      intro p hp
      obtain ⟨a, b, c⟩ := hH p hp
      refine ⟨a, by simp only [List.length_append, List.length_cons, List.length_nil]; omega, ?_⟩
      rw [getD_append_lt _ _ _ (by omega)]; exact c
    · -- predicting
      have hne : q.prediction.frame ≠ NULL_FRAME := by rw [hpf, hnull]; omega
      obtain ⟨_, hfi', hpf'⟩ := hpp hne
      -- the new first mismatch
      have hfm' : FirstMismatch (vals ++ [inp.input]) q.prediction.input start q'.firstIncorrectFrame := by
        rw [hfi']
        rcases hfm with ⟨hfin, hall⟩ | ⟨g, hg, hsg, hgl, hgv, hbefore⟩
        · by_cases hmis : q.prediction.input ≠ inp.input
          · rw [if_pos ⟨hfin, hmis⟩]
            right
            refine ⟨vals.length, hf, hs, by simp, ?_, ?_⟩
            · rw [getD_append_eq]; exact fun h => hmis h.symm
            · intro g' h1 h2; rw [getD_append_lt _ _ _ h2]; exact hall g' h1 h2
          · rw [if_neg (fun hc => hmis hc.2)]
            left
            refine ⟨hfin, ?_⟩
            intro g h1 h2
            simp only [List.length_append, List.length_cons, List.length_nil] at h2
            by_cases hgl : g < vals.length
            · rw [getD_append_lt _ _ _ hgl]; exact hall g h1 hgl
            · have : g = vals.length := by omega
              rw [this, getD_append_eq]
              exact (Classical.not_not.mp hmis).symm
        · have hfin : q.firstIncorrectFrame ≠ NULL_FRAME := by rw [hg, hnull]; omega
          rw [if_neg (fun hc => hfin hc.1)]
          right
          refine ⟨g, hg, hsg, by simp; omega, ?_, ?_⟩
          · rw [getD_append_lt _ _ _ hgl]; exact hgv
          · intro g' h1 h2; rw [getD_append_lt _ _ _ (by omega)]; exact hbefore g' h1 h2
      by_cases hex : q.prediction.frame = q.lastRequestedFrame ∧ q'.firstIncorrectFrame = NULL_FRAME
      · -- every requested frame has been verified: prediction mode ends
        have hpf'' : q'.prediction.frame = NULL_FRAME := by
          rw [hpf', ← hfi', if_pos hex]
        left
        refine ⟨hpf'', hex.2, ?_⟩
        rcases hfm' with ⟨_, hall⟩ | ⟨g, hg, _⟩
        · intro p hp
          simp only [List.length_append, List.length_cons, List.length_nil]
          rcases hH p hp with ⟨a, b, c⟩ | ⟨a, b, c⟩
          · refine ⟨a, by omega, ?_⟩
            rw [getD_append_lt _ _ _ (by omega)]; exact c
          · have hb : p.1 ≤ (vals.length : Int) := by rw [← hex.1, hpf] at b; exact b
            refine ⟨by omega, by omega, ?_⟩
            rw [c]
            exact hall p.1.toNat (by omega) (by simp; omega)
        · exfalso
          rw [hex.2, hnull] at hg; omega
      · have hpf'' : q'.prediction.frame = q.prediction.frame + 1 := by
          rw [hpf', ← hfi', if_neg hex]
        right
        refine ⟨start, by simp; omega, by rw [hpf'', hpf]; simp, by rw [hlr]; exact hsr, ?_, by rw [hpi]; exact hfm', ?_⟩
        · intro p hp
          rcases hH p hp with ⟨a, b, c⟩ | ⟨a, b, c⟩
          · left
            refine ⟨a, b, ?_⟩
            rw [getD_append_lt _ _ _ (by omega)]; exact c
          · right
            exact ⟨a, by rw [hlr]; exact b, by rw [hpi]; exact c⟩
        · -- still nothing wrong: the new value equals the prediction, which stays the fresh one
          intro hfin'
          have hfin : q.firstIncorrectFrame = NULL_FRAME := by
            rw [hfi'] at hfin'
            by_cases hc : q.firstIncorrectFrame = NULL_FRAME ∧ q.prediction.input ≠ inp.input
            · rw [if_pos hc, hf, hnull] at hfin'; omega
            · rw [if_neg hc] at hfin'; exact hfin'
          have hmatch : q.prediction.input = inp.input := by
            rw [hfi'] at hfin'
            by_cases hc : q.prediction.input = inp.input
            · exact hc
            · rw [if_pos ⟨hfin, hc⟩, hf, hnull] at hfin'; omega
          obtain ⟨hle, hpv⟩ := hreq hfin
          have hne2 : q.prediction.frame ≠ q.lastRequestedFrame := fun hc => hex ⟨hc, hfin'⟩
          refine ⟨by rw [hlr]; simp only [List.length_append, List.length_cons, List.length_nil]; rw [hpf] at hne2; push_cast; omega, ?_⟩
          rw [hpi, ← hmatch, hpv]
          exact (predValue_idem pr vals).symm

theorem PT_fillLoop (pr : Predictor) (toRep : PlayerInput) : ∀ (n : Nat) (q q' : InputQueue) (vals : List Input) (H : Hist)
    (expected : Frame), PT pr q vals H → expected = (vals.length : Int) →
    fillLoop toRep n q expected = .ok q' → PT pr q' (vals ++ List.replicate n toRep.input) H := by
  intro n
  induction n with
  | zero => intro q q' vals H e h _ hf; simp only [fillLoop] at hf; cases hf; simpa using h
  | succ k ih =>
    intro q q' vals H e h he hf
    simp only [fillLoop] at hf
    obtain ⟨q1, h1, hf⟩ := bind_ok hf
    have hp1 := PT_addByFrame pr q q1 vals H toRep e h he h1
    have := ih q1 q' (vals ++ [toRep.input]) H (e + 1) hp1 (by simp [he]) hf
    rw [List.replicate_succ]
    simpa using this

theorem PT_delayFillLoop (pr : Predictor) (li : PlayerInput) : ∀ (n : Nat) (q q' : InputQueue) (vals : List Input) (H : Hist)
    (fills fills' : List PlayerInput), PT pr q vals H → q.lastAddedFrame = (vals.length : Int) - 1 →
    delayFillLoop li n q fills = .ok (q', fills') → PT pr q' (vals ++ List.replicate n li.input) H := by
  intro n
  induction n with
  | zero => intro q q' vals H f f' h _ hf; simp only [delayFillLoop] at hf; cases hf; simpa using h
  | succ k ih =>
    intro q q' vals H f f' h hla hf
    simp only [delayFillLoop] at hf
    obtain ⟨q1, h1, hf⟩ := bind_ok hf
    have hp1 := PT_addByFrame pr q q1 vals H li _ h (by rw [hla]; omega) h1
    have hla1 : q1.lastAddedFrame = ((vals ++ [li.input]).length : Int) - 1 := by
      rw [(addByFrame_fields q q1 li _ h1).2.2.2.2.2.1, hla]; simp
    have := ih q1 q' (vals ++ [li.input]) H _ f' hp1 hla1 hf
    rw [List.replicate_succ]
    simpa using this

end Ggrs

namespace Ggrs
open InputQueue

/-- The full queue invariant: the ring (prediction fields ignored) implements the stream, and the
prediction/tail bookkeeping is consistent with it and with the history. -/
structure PInv (pr : Predictor) (q : InputQueue) (s : QSpec) (H : Hist) : Prop where
  ring : Refines q.strip s
  pt : PT pr q s.vals H

theorem PInv_new (pr : Predictor) : PInv pr InputQueue.new {} [] := by
  refine ⟨refines_new, ⟨Or.inl ⟨rfl, rfl, rfl⟩, Or.inl ⟨rfl, rfl, fun p hp => by cases hp⟩⟩⟩

/-- `add_input`, for a queue in any prediction state. -/
theorem PInv_add (pr : Predictor) (q q' : InputQueue) (s : QSpec) (H : Hist) (uf : Int) (v : Input) (fr : Frame)
    (h : PInv pr q s H) (hadd : q.addInput ⟨uf, v⟩ = .ok (q', fr)) :
    PInv pr q' (s.submit uf v).1 H ∧ fr = (s.submit uf v).2 := by
  have hr := h.ring
  unfold InputQueue.addInput at hadd
  unfold QSpec.submit
  simp only at hadd
  have hlu : q.lastUserFrame = s.lastUser := hr.lastUser
  by_cases hdrop : (q.lastUserFrame != NULL_FRAME && uf != q.lastUserFrame + 1) = true
  · simp only [hdrop, if_true] at hadd
    have := pure_ok hadd
    simp only [Prod.mk.injEq] at this
    have hd' : (s.lastUser != -1 && uf != s.lastUser + 1) = true := by rw [← hlu]; exact hdrop
    simp only [hd', if_true]
    exact ⟨by rw [← this.1]; exact h, this.2.symm⟩
  · have hd' : (s.lastUser != -1 && uf != s.lastUser + 1) = false := by
      rw [← hlu]; exact Bool.eq_false_iff.mpr hdrop
    simp only [hdrop, Bool.false_eq_true, if_false, hd'] at hadd ⊢
    obtain ⟨p, hadv, hadd⟩ := bind_ok hadd
    obtain ⟨q2, newFrame⟩ := p
    simp only at hadd
    have h1 : Refines ({ q with lastUserFrame := uf } : InputQueue).strip { s with lastUser := uf } :=
      ⟨hr.len, hr.head, hr.first, hr.lastAdded, rfl, hr.delay, hr.noPrediction, hr.slots, hr.empty⟩
    have hpt1 : PT pr ({ q with lastUserFrame := uf } : InputQueue) s.vals H :=
      ⟨h.pt.tail, h.pt.pred⟩
    unfold InputQueue.advanceQueueHead at hadv
    simp only at hadv
    have hps := prev_slot _ _ h1
    have hexp : (if ({ q with lastUserFrame := uf } : InputQueue).firstFrame then (0 : Frame)
        else (rget q.inputs (InputQueue.prevPos q.head)).frame + 1) = (s.vals.length : Int) := by
      by_cases hn : s.vals.length = 0
      · have : q.firstFrame = true := by have := hr.first; simp only [strip] at this; rw [this]; simp [hn]
        simp [this, hn]
      · have : q.firstFrame = false := by have := hr.first; simp only [strip] at this; rw [this]; simpa using hn
        simp only [this, Bool.false_eq_true, if_false]
        have := hps.2 (Nat.pos_of_ne_zero hn)
        simp only [strip] at this
        rw [this]; exact Int.sub_add_cancel _ _
    rw [hexp] at hadv
    have hdl : q.frameDelay = s.delay := hr.delay
    by_cases hpast : (s.vals.length : Int) > uf + (q.frameDelay : Int)
    · simp only [hpast, if_true] at hadv
      have := pure_ok hadv
      simp only [Prod.mk.injEq] at this
      obtain ⟨hq2, hnf⟩ := this
      subst hq2; subst hnf
      simp only [bne_self_eq_false, Bool.false_eq_true, if_false] at hadd
      have := pure_ok hadd
      simp only [Prod.mk.injEq] at this
      have hp' : (s.vals.length : Int) > uf + (s.delay : Int) := by rw [← hdl]; exact hpast
      simp only [hp', if_true]
      exact ⟨by rw [← this.1]; exact ⟨h1, hpt1⟩, this.2.symm⟩
    · simp only [hpast, if_false] at hadv
      obtain ⟨q3, hfill, hadv⟩ := bind_ok hadv
      obtain ⟨_, hadv⟩ := ensure_bind_ok hadv
      have := pure_ok hadv
      simp only [Prod.mk.injEq] at this
      obtain ⟨hq2, hnf⟩ := this
      subst hq2; subst hnf
      have hfill' := fillLoop_strip _ _ _ _ _ hfill
      have hr3 := refines_fillLoop _ _ _ _ _ _ h1 rfl hfill'
      have hpt3 := PT_fillLoop pr _ _ _ _ _ H _ hpt1 rfl hfill
      have hp' : ¬ (s.vals.length : Int) > uf + (s.delay : Int) := by rw [← hdl]; exact hpast
      have hnn : (uf + (q.frameDelay : Int) != NULL_FRAME) = true := by
        have : uf + (q.frameDelay : Int) ≥ 0 := by omega
        simp [NULL_FRAME]; omega
      simp only [hnn, if_true] at hadd
      obtain ⟨q4, hadd4, hadd⟩ := bind_ok hadd
      have := pure_ok hadd
      simp only [Prod.mk.injEq] at this
      obtain ⟨hq', hfr⟩ := this
      subst hq'; subst hfr
      have hadd4' := addByFrame_strip _ _ _ _ hadd4
      obtain ⟨hf4, hr4⟩ := refines_addByFrame _ _ _ ⟨uf, v⟩ _ hr3 hadd4'
      have hpt4 := PT_addByFrame pr _ _ _ H ⟨uf, v⟩ _ hpt3 hf4 hadd4
      simp only [hp', if_false]
      refine ⟨⟨?_, ?_⟩, by rw [hdl]⟩
      · have e1 := hps.1
        simp only [strip] at e1
        rw [e1] at hr4
        rw [hdl] at hr4
        simpa [List.append_assoc] using hr4
      · have e1 := hps.1
        simp only [strip] at e1
        rw [e1, hdl] at hpt4
        simpa [List.append_assoc] using hpt4

/-- `set_frame_delay`, for a queue in any prediction state. -/
theorem PInv_setDelay (pr : Predictor) (q q' : InputQueue) (s : QSpec) (H : Hist) (d : Nat) (fills : List PlayerInput)
    (h : PInv pr q s H) (hset : q.setFrameDelay d = .ok (q', fills)) :
    PInv pr q' (s.setDelay d).1 H ∧ fills = (s.setDelay d).2 := by
  have hr := h.ring
  unfold InputQueue.setFrameDelay at hset
  unfold QSpec.setDelay
  simp only at hset
  have h1 : Refines ({ q with frameDelay := d } : InputQueue).strip { s with delay := d } :=
    ⟨hr.len, hr.head, hr.first, hr.lastAdded, hr.lastUser, rfl, hr.noPrediction, hr.slots, hr.empty⟩
  have hpt1 : PT pr ({ q with frameDelay := d } : InputQueue) s.vals H := ⟨h.pt.tail, h.pt.pred⟩
  have hla0 : q.lastAddedFrame = (s.vals.length : Int) - 1 := hr.lastAdded
  by_cases hn : s.vals.length = 0
  · have hla : (q.lastAddedFrame == NULL_FRAME) = true := by rw [hla0, hn]; rfl
    simp only [hla, if_true] at hset
    have := pure_ok hset
    simp only [Prod.mk.injEq] at this
    simp only [hn, beq_self_eq_true, if_true]
    exact ⟨by rw [← this.1]; exact ⟨h1, hpt1⟩, this.2.symm⟩
  · have hla : (q.lastAddedFrame == NULL_FRAME) = false := by
      rw [hla0]
      have := int_pred_ne_neg_one _ hn
      simpa [NULL_FRAME] using this
    have hn' : (s.vals.length == 0) = false := by simpa using hn
    simp only [hla, Bool.false_eq_true, if_false] at hset
    simp only [hn', Bool.false_eq_true, if_false]
    have hset' := delayFillLoop_strip _ _ _ _ _ _ hset
    obtain ⟨hr2, hf⟩ := refines_delayFillLoop _ _ _ _ _ _ _ h1 hset'
    have hpt2 := PT_delayFillLoop pr _ _ _ _ _ H _ _ hpt1 hla0 hset
    have hps := prev_slot _ _ h1
    simp only [strip] at hps
    have hk : (q.lastUserFrame + 1 + (d : Int) - (q.lastAddedFrame + 1)).toNat
        = (s.lastUser + 1 + (d : Int) - (s.vals.length : Int)).toNat := by
      have := hr.lastUser
      simp only [strip] at this
      rw [this, hla0]; congr 1; omega
    rw [hk, hps.1] at hr2 hf hpt2
    exact ⟨⟨hr2, hpt2⟩, by simpa using hf⟩

/-- `reset_prediction` (called when a rollback loads a state): history forgotten. -/
theorem PInv_reset (pr : Predictor) (q : InputQueue) (s : QSpec) (H : Hist) (h : PInv pr q s H) : PInv pr q.resetPrediction s [] :=
  have hr := h.ring
  ⟨⟨hr.len, hr.head, hr.first, hr.lastAdded, hr.lastUser, hr.delay, hr.noPrediction, hr.slots, hr.empty⟩,
   ⟨h.pt.tail, Or.inl ⟨rfl, rfl, fun p hp => by cases hp⟩⟩⟩

end Ggrs

namespace Ggrs
open InputQueue

/-- `discard_confirmed_frames` below the newest input (the sessions never discard more: the frame
they pass is below every connected player's newest input) only moves the tail. -/
theorem PInv_discard (pr : Predictor) (q q' : InputQueue) (s : QSpec) (H : Hist) (f : Frame)
    (h : PInv pr q s H) (hlt : f < q.lastAddedFrame) (hd : q.discardConfirmedFrames f = .ok q') :
    PInv pr q' s H := by
  have hq : INPUT_QUEUE_LENGTH = 128 := rfl
  have hr := h.ring
  have hla : q.lastAddedFrame = (s.vals.length : Int) - 1 := hr.lastAdded
  unfold InputQueue.discardConfirmedFrames at hd
  simp only at hd
  have hf' : (if (q.lastRequestedFrame != NULL_FRAME) = true then min f q.lastRequestedFrame else f) ≤ f := by
    split
    · exact Int.min_le_left _ _
    · exact Int.le_refl _
  generalize (if (q.lastRequestedFrame != NULL_FRAME) = true then min f q.lastRequestedFrame else f) = f' at hd hf'
  have keepR : ∀ (t l : Nat), Refines ({ q with tail := t, length := l } : InputQueue).strip s := fun t l =>
    ⟨hr.len, hr.head, hr.first, hr.lastAdded, hr.lastUser, hr.delay, hr.noPrediction, hr.slots, hr.empty⟩
  have h1 : ¬ f' ≥ q.lastAddedFrame := by omega
  simp only [h1, if_false] at hd
  by_cases h2 : f' ≤ (rget q.inputs q.tail).frame
  · simp only [h2, if_true] at hd
    cases hd; exact h
  · simp only [h2, if_false] at hd
    by_cases h3 : (f' - (rget q.inputs q.tail).frame).toNat > q.length
    · simp only [h3, if_true] at hd; cases hd
    · simp only [h3, if_false] at hd
      cases hd
      refine ⟨keepR _ _, ⟨?_, h.pt.pred⟩⟩
      rcases h.pt.tail with ⟨h0, ht, hl⟩ | ⟨t, ht, hw, htt, hl⟩
      · exfalso
        rw [hl] at h3
        omega
      · -- the tail slot holds frame t
        have hslot := hr.slots t ht hw
        have hts : (rget q.inputs q.tail).frame = (t : Int) := by
          rw [htt]
          have : q.strip.inputs = q.inputs := rfl
          rw [← this, hslot]
        rw [hts] at h2 h3 ⊢
        right
        refine ⟨f'.toNat, by omega, by omega, ?_, ?_⟩
        · show (q.tail + (f' - (t : Int)).toNat) % INPUT_QUEUE_LENGTH = f'.toNat % INPUT_QUEUE_LENGTH
          rw [htt, hq]; omega
        · show q.length - (f' - (t : Int)).toNat = s.vals.length - f'.toNat
          rw [hl]; omega

/-- **`input`.** With `first_incorrect_frame` clear (the function asserts it) and requests not going
backwards since the last reset:
* a Confirmed answer is the stream's value for a frame that has been received;
* a Predicted answer is only given for a frame that has NOT been received, its value is the
  predictor applied to the newest received input (the default input if none), and it is recorded
  in the history;
the ring is untouched and the invariant is kept. -/
theorem PInv_input (pr : Predictor) (q q' : InputQueue) (s : QSpec) (H : Hist) (req : Frame) (v : Input)
    (st : InputStatus) (h : PInv pr q s H) (hreq0 : 0 ≤ req)
    (hmono : q.lastRequestedFrame = NULL_FRAME ∨ q.lastRequestedFrame ≤ req)
    (hin : q.input pr req = .ok (q', v, st)) :
    q'.lastRequestedFrame = req ∧
    ((st = .confirmed ∧ 0 ≤ req ∧ req < s.vals.length ∧ v = s.vals.getD req.toNat 0 ∧ PInv pr q' s H) ∨
     (st = .predicted ∧ (s.vals.length : Int) ≤ req ∧ v = predValue pr s.vals ∧ PInv pr q' s (H ++ [(req, v)]))) := by
  have hq : INPUT_QUEUE_LENGTH = 128 := rfl
  have hnull : NULL_FRAME = (-1 : Int) := rfl
  have hr := h.ring
  unfold InputQueue.input at hin
  simp only at hin
  obtain ⟨hfi, hin⟩ := ensure_bind_ok hin
  have hfi0 : q.firstIncorrectFrame = NULL_FRAME := by simpa using hfi
  obtain ⟨hge, hin⟩ := ensure_bind_ok hin
  have hge' : req ≥ (rget q.inputs q.tail).frame := by simpa using hge
  have keepR : ∀ (p : PlayerInput), Refines ({ q with lastRequestedFrame := req, prediction := p } : InputQueue).strip s :=
    fun p => ⟨hr.len, hr.head, hr.first, hr.lastAdded, hr.lastUser, hr.delay, rfl, hr.slots, hr.empty⟩
  by_cases hp : q.prediction.frame < 0
  · -- not predicting
    simp only [hp, if_true] at hin
    have hpn : q.prediction.frame = NULL_FRAME := by
      rcases h.pt.pred with ⟨a, _⟩ | ⟨start, _, b, _⟩
      · exact a
      · rw [b] at hp; omega
    have hHok : ∀ p ∈ H, 0 ≤ p.1 ∧ p.1 < s.vals.length ∧ s.vals.getD p.1.toNat 0 = p.2 := by
      rcases h.pt.pred with ⟨_, _, c⟩ | ⟨start, _, b, _⟩
      · exact c
      · rw [b] at hp; omega
    by_cases hoff : (req - (rget q.inputs q.tail).frame).toNat < q.length
    · -- confirmed
      simp only [hoff, if_true] at hin
      obtain ⟨hslotc, hin⟩ := ensure_bind_ok hin
      have := pure_ok hin
      simp only [Prod.mk.injEq] at this
      obtain ⟨hq', hv, hst⟩ := this
      subst hq'
      refine ⟨rfl, Or.inl ?_⟩
      rcases h.pt.tail with ⟨h0, ht, hl⟩ | ⟨t, ht, hw, htt, hl⟩
      · rw [hl] at hoff; omega
      · have hslot := hr.slots t ht hw
        have hts : (rget q.inputs q.tail).frame = (t : Int) := by
          rw [htt]
          have : q.strip.inputs = q.inputs := rfl
          rw [← this, hslot]
        rw [hts] at hoff hge' hv
        rw [hl] at hoff
        have hreq : req.toNat < s.vals.length := by omega
        have hpos : ((req - (t : Int)).toNat + q.tail) % INPUT_QUEUE_LENGTH = req.toNat % INPUT_QUEUE_LENGTH := by
          rw [htt, hq]; omega
        have hs2 := hr.slots req.toNat hreq (by omega)
        have : q.strip.inputs = q.inputs := rfl
        rw [this] at hs2
        rw [hpos, hs2] at hv
        refine ⟨hst.symm, by omega, by omega, hv.symm, ⟨keepR _, ⟨h.pt.tail, ?_⟩⟩⟩
        exact Or.inl ⟨hpn, hfi0, hHok⟩
    · -- start predicting
      simp only [hoff, if_false] at hin
      obtain ⟨_, hin⟩ := ensure_bind_ok hin
      have := pure_ok hin
      simp only [Prod.mk.injEq] at this
      obtain ⟨hq', hv, hst⟩ := this
      -- the request is beyond the stream
      have hbeyond : (s.vals.length : Int) ≤ req := by
        rcases h.pt.tail with ⟨h0, ht, hl⟩ | ⟨t, ht, hw, htt, hl⟩
        · rw [h0]; simpa using hreq0
        · have hslot := hr.slots t ht hw
          have hts : (rget q.inputs q.tail).frame = (t : Int) := by
            rw [htt]
            have : q.strip.inputs = q.inputs := rfl
            rw [← this, hslot]
          rw [hts] at hoff hge'
          rw [hl] at hoff
          omega
      have hla : q.lastAddedFrame = (s.vals.length : Int) - 1 := hr.lastAdded
      -- the predicted value and frame
      have hps := prev_slot _ _ hr
      simp only [strip] at hps
      have hval : v = predValue pr s.vals ∧ q'.prediction = ⟨(s.vals.length : Int), v⟩ := by
        subst hq'
        simp only at hv ⊢
        by_cases hn : s.vals.length = 0
        · have hlan : (q.lastAddedFrame == NULL_FRAME) = true := by rw [hla, hn]; rfl
          simp only [hlan, Bool.or_true, if_true] at hv ⊢
          refine ⟨by rw [← hv]; simp [predValue, hn], ?_⟩
          rw [hpn, hn, ← hv]; rfl
        · have hlan : (q.lastAddedFrame == NULL_FRAME) = false := by
            rw [hla]; have := int_pred_ne_neg_one _ hn; simpa [NULL_FRAME] using this
          have hr0 : (req == 0) = false := by
            have : req ≠ 0 := by omega
            simpa using this
          simp only [hlan, hr0, Bool.or_self, Bool.false_eq_true, if_false] at hv ⊢
          have hfr := hps.2 (Nat.pos_of_ne_zero hn)
          refine ⟨by rw [← hv, hps.1]; simp [predValue, hn, QSpec.lastVal], ?_⟩
          rw [hfr]
          congr 1
          omega
      subst hq'
      refine ⟨rfl, Or.inr ⟨hst.symm, hbeyond, hval.1, ⟨keepR _, ⟨h.pt.tail, ?_⟩⟩⟩⟩
      right
      refine ⟨s.vals.length, Nat.le_refl _, by rw [hval.2], hbeyond, ?_, ?_, fun _ => ⟨hbeyond, by rw [hval.2]; exact hval.1⟩⟩
      · intro p hp
        rcases List.mem_append.mp hp with hold | hnew
        · left; exact hHok p hold
        · simp only [List.mem_singleton] at hnew
          subst hnew
          right
          exact ⟨hbeyond, Int.le_refl _, by rw [hval.2]⟩
      · left
        exact ⟨hfi0, fun g h1 h2 => by omega⟩
  · -- already predicting
    simp only [hp, if_false] at hin
    obtain ⟨_, hin⟩ := ensure_bind_ok hin
    have := pure_ok hin
    simp only [Prod.mk.injEq] at this
    obtain ⟨hq', hv, hst⟩ := this
    subst hq'
    rcases h.pt.pred with ⟨a, _⟩ | ⟨start, hs, hpf, hsr, hH, hfm, hreq⟩
    · rw [a, hnull] at hp; omega
    · obtain ⟨hle, hpv⟩ := hreq hfi0
      have hreq2 : q.lastRequestedFrame ≤ req := by
        rcases hmono with h0 | h0
        · rw [h0, hnull] at hsr; omega
        · exact h0
      refine ⟨rfl, Or.inr ⟨hst.symm, by omega, by rw [← hv]; exact hpv, ⟨keepR _, ⟨h.pt.tail, ?_⟩⟩⟩⟩
      right
      refine ⟨start, hs, hpf, by show (start : Int) ≤ req; omega, ?_, hfm, fun _ => ⟨by show _ ≤ req; omega, hpv⟩⟩
      intro p hp
      rcases List.mem_append.mp hp with hold | hnew
      · rcases hH p hold with x | ⟨a, b, c⟩
        · exact Or.inl x
        · exact Or.inr ⟨a, by show p.1 ≤ req; omega, c⟩
      · simp only [List.mem_singleton] at hnew
        subst hnew
        right
        exact ⟨by show (start : Int) ≤ req; omega, Int.le_refl _, hv.symm⟩

end Ggrs

namespace Ggrs
open InputQueue

/-- Queue, stream specification and history of predictions handed out since the last reset. -/
structure QState where
  q : InputQueue
  s : QSpec
  H : Hist

/-- One call of the queue's API as the sessions use it. `discard` never reaches the newest input;
requests are non-negative and do not go backwards between two resets. -/
inductive QStep (pr : Predictor) : QState → QState → Prop
  | add (st : QState) (uf : Int) (v : Input) (q' : InputQueue) (fr : Frame) :
      st.q.addInput ⟨uf, v⟩ = .ok (q', fr) → QStep pr st ⟨q', (st.s.submit uf v).1, st.H⟩
  | setDelay (st : QState) (d : Nat) (q' : InputQueue) (fills : List PlayerInput) :
      st.q.setFrameDelay d = .ok (q', fills) → QStep pr st ⟨q', (st.s.setDelay d).1, st.H⟩
  | discard (st : QState) (f : Frame) (q' : InputQueue) :
      f < st.q.lastAddedFrame → st.q.discardConfirmedFrames f = .ok q' → QStep pr st ⟨q', st.s, st.H⟩
  | inputConfirmed (st : QState) (req : Frame) (v : Input) (q' : InputQueue) :
      0 ≤ req → (st.q.lastRequestedFrame = NULL_FRAME ∨ st.q.lastRequestedFrame ≤ req) →
      st.q.input pr req = .ok (q', v, .confirmed) → QStep pr st ⟨q', st.s, st.H⟩
  | inputPredicted (st : QState) (req : Frame) (v : Input) (q' : InputQueue) :
      0 ≤ req → (st.q.lastRequestedFrame = NULL_FRAME ∨ st.q.lastRequestedFrame ≤ req) →
      st.q.input pr req = .ok (q', v, .predicted) → QStep pr st ⟨q', st.s, st.H ++ [(req, v)]⟩
  | reset (st : QState) : QStep pr st ⟨st.q.resetPrediction, st.s, []⟩

inductive QStar (pr : Predictor) : QState → QState → Prop
  | refl (st : QState) : QStar pr st st
  | step (st st' st'' : QState) : QStar pr st st' → QStep pr st' st'' → QStar pr st st''

theorem PInv_step (pr : Predictor) (st st' : QState) (h : PInv pr st.q st.s st.H) (hs : QStep pr st st') :
    PInv pr st'.q st'.s st'.H := by
  cases hs with
  | add uf v q' fr hadd => exact (PInv_add pr _ _ _ _ uf v fr h hadd).1
  | setDelay d q' fills hset => exact (PInv_setDelay pr _ _ _ _ d fills h hset).1
  | discard f q' hlt hd => exact PInv_discard pr _ _ _ _ f h hlt hd
  | inputConfirmed req v q' h0 hm hin =>
    rcases (PInv_input pr _ _ _ _ req v _ h h0 hm hin).2 with ⟨_, _, _, _, hi⟩ | ⟨hc, _⟩
    · exact hi
    · cases hc
  | inputPredicted req v q' h0 hm hin =>
    rcases (PInv_input pr _ _ _ _ req v _ h h0 hm hin).2 with ⟨hc, _⟩ | ⟨_, _, _, hi⟩
    · cases hc
    · exact hi
  | reset => exact PInv_reset pr _ _ _ h

/-- **L-detect.** The invariant holds after every sequence of queue operations. -/
theorem PInv_run (pr : Predictor) (st st' : QState) (h : PInv pr st.q st.s st.H) (hr : QStar pr st st') :
    PInv pr st'.q st'.s st'.H := by
  induction hr with
  | refl => exact h
  | step st' st'' _ hs ih => exact PInv_step pr st' st'' ih hs

/-- What the invariant says about wrong predictions: none is left undetected, and the recorded
`first_incorrect_frame` is at or before every wrong one — it is the frame of a real mismatch, and
every prediction handed out for an earlier frame was right. -/
theorem PInv_detect (pr : Predictor) (q : InputQueue) (s : QSpec) (H : Hist) (h : PInv pr q s H) :
    (q.firstIncorrectFrame = NULL_FRAME →
      ∀ p ∈ H, p.1 < s.vals.length → s.vals.getD p.1.toNat 0 = p.2) ∧
    (q.firstIncorrectFrame ≠ NULL_FRAME →
      ∃ g : Nat, q.firstIncorrectFrame = (g : Int) ∧ g < s.vals.length ∧
        s.vals.getD g 0 ≠ q.prediction.input ∧
        ∀ p ∈ H, p.1 < (g : Int) → s.vals.getD p.1.toNat 0 = p.2) := by
  have hnull : NULL_FRAME = (-1 : Int) := rfl
  rcases h.pt.pred with ⟨_, hfi, hH⟩ | ⟨start, hs, hpf, hsr, hH, hfm, _⟩
  · exact ⟨fun _ p hp _ => (hH p hp).2.2, fun hne => absurd hfi hne⟩
  · rcases hfm with ⟨hfin, hall⟩ | ⟨g, hg, hsg, hgl, hgv, hbefore⟩
    · refine ⟨fun _ p hp hlt => ?_, fun hne => absurd hfin hne⟩
      rcases hH p hp with ⟨_, _, c⟩ | ⟨a, _, c⟩
      · exact c
      · rw [c]; exact hall p.1.toNat (by omega) (by omega)
    · refine ⟨fun h0 => by rw [hg, hnull] at h0; omega, fun _ => ⟨g, hg, hgl, hgv, ?_⟩⟩
      intro p hp hlt
      rcases hH p hp with ⟨_, _, c⟩ | ⟨a, _, c⟩
      · exact c
      · rw [c]; exact hbefore p.1.toNat (by omega) (by omega)

end Ggrs
