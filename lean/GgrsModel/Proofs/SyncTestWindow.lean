/-
The comparison window of a sync test, exactly: which frames one `advance_frame` call compares, which
it reports, and what it remembers afterwards — for every state.
-/
import GgrsModel.Proofs.SyncTestProof

namespace Ggrs

/-- The history after pruning, as the call sees it. -/
def stPruned (s : SyncTest) : List (Int × Option Nat) :=
  s.checksumHistory.filter fun p => decide (p.1 ≥ s.sync.currentFrame - (s.checkDistance : Int))

/-- Frame `f` is reported: its cell holds frame `f`, a checksum for `f` is remembered, and the two differ. -/
def stMismatch (s : SyncTest) (f : Frame) : Bool :=
  let cell := rget s.sync.cells (frameIdx f s.sync.cells.length)
  cell.frame == f && match alookup f (stPruned s) with
    | some c => !(c == cell.checksum)
    | none => false

theorem alookup_prune (cur : Int) (cd : Nat) (h : List (Int × Option Nat)) (k : Int) :
    alookup k (h.filter fun p => decide (p.1 ≥ cur - (cd : Int))) = if k ≥ cur - (cd : Int) then alookup k h else none := by
  rw [alookup_filter_key (fun x => decide (x ≥ cur - (cd : Int)))]
  by_cases hk : k ≥ cur - (cd : Int) <;> simp [hk]

/-- One comparison: the verdict is "not a mismatch", the sync layer is untouched, and the pruned
history afterwards agrees with the pruned history before on every other frame. -/
theorem checksumsConsistent_exact (s s' : SyncTest) (f : Frame) (ok : Bool)
    (h : s.checksumsConsistent f = .ok (s', ok)) :
    ok = !stMismatch s f ∧ s'.sync = s.sync ∧ s'.checkDistance = s.checkDistance ∧
    ∀ k, k ≠ f → alookup k (stPruned s') = alookup k (stPruned s) := by
  unfold SyncTest.checksumsConsistent at h
  simp only at h
  obtain ⟨r, hsv, h⟩ := bind_ok h
  unfold SyncLayer.savedStateByFrame at hsv
  obtain ⟨pos, hpos, hsv⟩ := bind_ok hsv
  have hr := pure_ok hsv
  unfold SyncLayer.cellPos at hpos
  obtain ⟨_, hpos⟩ := ensure_bind_ok hpos
  have hp := pure_ok hpos
  subst hp
  subst hr
  have hprune2 : ∀ (hist : List (Int × Option Nat)) (k : Int),
      alookup k ((hist.filter fun p => decide (p.1 ≥ s.sync.currentFrame - (s.checkDistance : Int))).filter
        fun p => decide (p.1 ≥ s.sync.currentFrame - (s.checkDistance : Int))) =
      alookup k (hist.filter fun p => decide (p.1 ≥ s.sync.currentFrame - (s.checkDistance : Int))) := by
    intro hist k
    rw [List.filter_filter]
    congr 1
    apply List.filter_congr
    intro x _
    simp
  by_cases hcf : ((rget s.sync.cells (frameIdx f s.sync.cells.length)).frame == f) = true
  · simp only [hcf, if_true] at h
    have hfr : (rget s.sync.cells (frameIdx f s.sync.cells.length)).frame = f := by simpa using hcf
    cases hlk : alookup (rget s.sync.cells (frameIdx f s.sync.cells.length)).frame
        (s.checksumHistory.filter fun p => decide (p.1 ≥ s.sync.currentFrame - (s.checkDistance : Int))) with
    | some cs =>
      simp only [hlk] at h
      have := pure_ok h
      simp only [Prod.mk.injEq] at this
      obtain ⟨hs', hok⟩ := this
      rw [hfr] at hlk
      refine ⟨?_, by rw [← hs'], by rw [← hs'], ?_⟩
      · rw [← hok]
        unfold stMismatch stPruned
        simp only [hcf, hlk, Bool.true_and, Bool.not_not]
      · intro k _
        rw [← hs']
        exact hprune2 s.checksumHistory k
    | none =>
      simp only [hlk] at h
      have := pure_ok h
      simp only [Prod.mk.injEq] at this
      obtain ⟨hs', hok⟩ := this
      rw [hfr] at hlk
      refine ⟨?_, by rw [← hs'], by rw [← hs'], ?_⟩
      · rw [← hok]
        unfold stMismatch stPruned
        simp only [hcf, hlk, Bool.true_and, Bool.not_false]
      · intro k hk
        rw [← hs']
        unfold stPruned
        simp only
        rw [alookup_prune, hfr, alookup_ainsert_ne' _ _ _ hk, alookup_prune]
        by_cases hkk : k ≥ s.sync.currentFrame - (s.checkDistance : Int) <;> simp [hkk]
  · simp only [hcf, Bool.false_eq_true, if_false] at h
    have := pure_ok h
    simp only [Prod.mk.injEq] at this
    obtain ⟨hs', hok⟩ := this
    refine ⟨?_, by rw [← hs'], by rw [← hs'], ?_⟩
    · rw [← hok]
      unfold stMismatch
      simp only [hcf, Bool.false_and, Bool.not_false]
    · intro k _
      rw [← hs']
      exact hprune2 s.checksumHistory k

theorem filterMap_congr' {α β} (f g : α → Option β) : ∀ (l : List α), (∀ x ∈ l, f x = g x) →
    l.filterMap f = l.filterMap g := by
  intro l
  induction l with
  | nil => intro _; rfl
  | cons a as ih =>
    intro h
    rw [List.filterMap_cons, List.filterMap_cons, h a List.mem_cons_self, ih (fun x hx => h x (List.mem_cons_of_mem _ hx))]

theorem stMismatch_congr (s s1 : SyncTest) (g : Frame) (hsy : s1.sync = s.sync)
    (hl : alookup g (stPruned s1) = alookup g (stPruned s)) : stMismatch s1 g = stMismatch s g := by
  unfold stMismatch
  rw [hsy, hl]

/-- **The comparison loop, exactly**: the frames reported are, in ascending order, precisely the
frames `oldest + i .. oldest + i + n - 1` whose cell holds that frame with a checksum different
from the one remembered for it (after pruning to `current_frame - check_distance`). -/
theorem checkFrames_exact (oldest : Frame) : ∀ (n i : Nat) (s s' : SyncTest) (mis mis' : List Frame),
    SyncTest.checkFrames oldest n i s mis = .ok (s', mis') →
    mis' = mis ++ ((List.range n).filterMap fun j =>
      if stMismatch s (oldest + ((i + j : Nat) : Int)) then some (oldest + ((i + j : Nat) : Int)) else none) ∧
    s'.sync = s.sync ∧ s'.checkDistance = s.checkDistance := by
  intro n
  induction n with
  | zero =>
    intro i s s' mis mis' h
    simp only [SyncTest.checkFrames] at h
    cases h
    exact ⟨by simp, rfl, rfl⟩
  | succ k ih =>
    intro i s s' mis mis' h
    simp only [SyncTest.checkFrames] at h
    obtain ⟨r, hcc, h⟩ := bind_ok h
    obtain ⟨s1, ok⟩ := r
    simp only at h
    obtain ⟨hok, hsy, hcd, hother⟩ := checksumsConsistent_exact s s1 _ ok hcc
    obtain ⟨hm, hsy', hcd'⟩ := ih (i + 1) s1 s' _ mis' h
    refine ⟨?_, hsy'.trans hsy, hcd'.trans hcd⟩
    rw [hm, List.range_succ_eq_map, List.filterMap_cons, List.filterMap_map]
    have hshift : (List.range k).filterMap (fun j =>
          if stMismatch s1 (oldest + ((i + 1 + j : Nat) : Int)) then some (oldest + ((i + 1 + j : Nat) : Int)) else none) =
        (List.range k).filterMap ((fun j =>
          if stMismatch s (oldest + ((i + j : Nat) : Int)) then some (oldest + ((i + j : Nat) : Int)) else none) ∘ Nat.succ) := by
      apply filterMap_congr'
      intro j _
      simp only [Function.comp]
      have e : i + 1 + j = i + (j + 1) := by omega
      rw [e]
      have hne : oldest + ((i + (j + 1) : Nat) : Int) ≠ oldest + (i : Int) := by push_cast; omega
      rw [stMismatch_congr s s1 _ hsy (hother _ hne)]
    rw [hshift]
    simp only [Nat.add_zero]
    by_cases hmm : stMismatch s (oldest + (i : Int)) = true
    · have : ok = false := by rw [hok, hmm]; rfl
      simp only [this, Bool.not_false, if_true, hmm, List.append_assoc, List.singleton_append]
    · have hmf : stMismatch s (oldest + (i : Int)) = false := by simpa using hmm
      have : ok = true := by rw [hok, hmf]; rfl
      simp only [this, Bool.not_true, Bool.false_eq_true, if_false, hmf]

/-- The frames one warm call reports: the window `current - check_distance ..= current`. -/
def stReported (s : SyncTest) : List Frame :=
  (List.range (s.checkDistance + 1)).filterMap fun j =>
    if stMismatch s (s.sync.currentFrame - (s.checkDistance : Int) + ((0 + j : Nat) : Int)) then
      some (s.sync.currentFrame - (s.checkDistance : Int) + ((0 + j : Nat) : Int)) else none

theorem finishFrame_err (s s' : SyncTest) (pre : List Request) (r : Except GgrsError (List Request))
    (hf : s.finishFrame pre = .ok (s', r)) : ∀ e, r = .error e → e = .invalidRequest := by
  unfold SyncTest.finishFrame at hf
  by_cases hnp : (s.numPlayers != s.localInputs.length) = true
  · rw [if_pos hnp] at hf
    have := pure_ok hf
    simp only [Prod.mk.injEq] at this
    rw [← this.2]
    intro e he; cases he; rfl
  rw [if_neg hnp] at hf
  obtain ⟨sy1, _, hf⟩ := bind_ok hf
  simp only at hf
  obtain ⟨r2, _, hf⟩ := bind_ok hf
  obtain ⟨s2, reqs2⟩ := r2
  simp only at hf
  obtain ⟨r3, _, hf⟩ := bind_ok hf
  obtain ⟨sy3, inputs⟩ := r3
  simp only at hf
  obtain ⟨sy4, _, hf⟩ := bind_ok hf
  have := pure_ok hf
  simp only [Prod.mk.injEq] at this
  rw [← this.2]
  intro e he; cases he

/-- **What a call of `advance_frame` reports, exactly (every state).** While warming up (check
distance 0, or `current_frame ≤ check_distance`) nothing is compared and `MismatchedChecksum` is
never returned. Otherwise the call returns `MismatchedChecksum` if and only if some frame in
`current_frame - check_distance ..= current_frame` has its cell holding that frame with a checksum
different from the first one remembered for it inside the window, and then it names exactly those
frames, in ascending order — so the first affected frame is the first one named. -/
theorem advanceFrame_reports (s s' : SyncTest) (r : Except GgrsError (List Request))
    (h : s.advanceFrame = .ok (s', r)) :
    ((decide (s.checkDistance > 0) && decide (s.sync.currentFrame > (s.checkDistance : Int))) = true ∧ stReported s ≠ [] →
      r = .error (.mismatchedChecksum s.sync.currentFrame (stReported s))) ∧
    (((decide (s.checkDistance > 0) && decide (s.sync.currentFrame > (s.checkDistance : Int))) = false ∨ stReported s = []) →
      ∀ e, r = .error e → e = .invalidRequest) := by
  unfold SyncTest.advanceFrame at h
  simp only at h
  by_cases hwarm : (decide (s.checkDistance > 0) && decide (s.sync.currentFrame > (s.checkDistance : Int))) = true
  · rw [if_pos hwarm] at h
    obtain ⟨r1, hv, h⟩ := bind_ok h
    obtain ⟨s1, res⟩ := r1
    unfold SyncTest.verifyAndRollback at hv
    simp only at hv
    obtain ⟨r2, hcf, hv⟩ := bind_ok hv
    obtain ⟨sa, mis⟩ := r2
    simp only at hv
    obtain ⟨hm, _, _⟩ := checkFrames_exact _ _ 0 s sa [] mis hcf
    simp only [List.nil_append] at hm
    have hmr : mis = stReported s := by rw [hm]; rfl
    by_cases hemp : mis = []
    · -- nothing to report
      have hemp' : stReported s = [] := by rw [← hmr]; exact hemp
      simp only [hemp, List.isEmpty_nil, Bool.not_true, Bool.false_eq_true, if_false] at hv
      obtain ⟨r3, _, hv⟩ := bind_ok hv
      have := pure_ok hv
      simp only [Prod.mk.injEq] at this
      rw [← this.2] at h
      simp only at h
      refine ⟨fun hc => absurd hemp' hc.2, fun _ => finishFrame_err _ s' _ r h⟩
    · have hne : (!mis.isEmpty) = true := by
        cases mis with
        | nil => exact absurd rfl hemp
        | cons a as => rfl
      simp only [hne, if_true] at hv
      have := pure_ok hv
      simp only [Prod.mk.injEq] at this
      rw [← this.2] at h
      simp only at h
      have hh := pure_ok h
      simp only [Prod.mk.injEq] at hh
      refine ⟨fun _ => by rw [← hh.2, hmr], fun hc => ?_⟩
      rcases hc with hc | hc
      · rw [hwarm] at hc; cases hc
      · rw [← hmr] at hc; exact absurd hc hemp
  · rw [if_neg hwarm] at h
    refine ⟨fun hc => absurd hc.1 hwarm, fun _ => finishFrame_err s s' [] r h⟩

end Ggrs
