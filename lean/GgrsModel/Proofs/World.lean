/-
The session together with the game it drives (rollback mode without sparse saving): the game
executes every request list, the user's saves reach the cells. Invariant: the session invariant,
the quiescent check state matching the cells' tags, and the game on the replay of its timeline.
-/
import GgrsModel.Proofs.Consistent
import GgrsModel.Proofs.Session

namespace Ggrs

theorem execGs_cur_R {G : Type} (step : G → List (Input × InputStatus) → G) (n : Nat) (x : GS G) (rs : List Request) :
    (execGs step n x rs).cur = (execReqs ⟨x.cur, x.R⟩ rs).cur ∧ (execGs step n x rs).R = (execReqs ⟨x.cur, x.R⟩ rs).R := by
  induction rs generalizing x with
  | nil => exact ⟨rfl, rfl⟩
  | cons r rs ih =>
    simp only [execGs, execReqs, List.foldl_cons]
    have := ih (execG step n x r)
    simp only [execGs, execReqs] at this
    cases r with
    | save f => exact this
    | load f => exact this
    | advance ins => exact this

/-- The frames of the SaveGameState requests of a list, in order. -/
def savedFrames : List Request → List Frame
  | [] => []
  | .save f :: rs => f :: savedFrames rs
  | _ :: rs => savedFrames rs

theorem userExecute_fields (s : P2P) (saves : List (Frame × Option Nat)) :
    (s.userExecute saves).sync.queues = s.sync.queues ∧ (s.userExecute saves).sync.currentFrame = s.sync.currentFrame ∧
    (s.userExecute saves).sync.cells.length = s.sync.cells.length ∧
    (s.userExecute saves).pred = s.pred ∧ (s.userExecute saves).localConnectStatus = s.localConnectStatus ∧
    (s.userExecute saves).handles = s.handles ∧ (s.userExecute saves).sparse = s.sparse := by
  unfold P2P.userExecute
  have key : ∀ (l : List (Frame × Option Nat)) (sy : SyncLayer),
      (l.foldl (fun sy (p : Frame × Option Nat) => sy.userSave p.1 p.2) sy).queues = sy.queues ∧
      (l.foldl (fun sy (p : Frame × Option Nat) => sy.userSave p.1 p.2) sy).currentFrame = sy.currentFrame ∧
      (l.foldl (fun sy (p : Frame × Option Nat) => sy.userSave p.1 p.2) sy).cells.length = sy.cells.length := by
    intro l
    induction l with
    | nil => intro sy; exact ⟨rfl, rfl, rfl⟩
    | cons a as ih =>
      intro sy
      simp only [List.foldl_cons]
      obtain ⟨h1, h2, h3⟩ := ih (sy.userSave a.1 a.2)
      exact ⟨h1, h2, by rw [h3]; simp [SyncLayer.userSave, rset]⟩
  obtain ⟨h1, h2, h3⟩ := key saves s.sync
  refine ⟨?_, ?_, ?_, rfl, rfl, rfl, rfl⟩
  · exact h1
  · exact h2
  · exact h3

/-- The cells' tags after the user executed the saves of a checked request list. -/
theorem userExecute_tags (n : Nat) (hn : 0 < n) : ∀ (rs : List Request) (saves : List (Frame × Option Nat)) (sy : SyncLayer)
    (tag : Nat → Int), sy.cells.length = n → (∀ i, i < n → tag i = (rget sy.cells i).frame) →
    saves.map (·.1) = savedFrames rs → (∀ f ∈ savedFrames rs, 0 ≤ f) →
    ∀ i, i < n → tagsAfter n tag rs i =
      (rget (saves.foldl (fun sy (p : Frame × Option Nat) => sy.userSave p.1 p.2) sy).cells i).frame := by
  intro rs
  induction rs with
  | nil =>
    intro saves sy tag _ htag hs _ i hi
    simp only [savedFrames, List.map_eq_nil_iff] at hs
    subst hs
    exact htag i hi
  | cons r rs ih =>
    intro saves sy tag hlen htag hs hpos i hi
    cases r with
    | save f =>
      simp only [savedFrames] at hs hpos
      cases saves with
      | nil => simp at hs
      | cons a as =>
        simp only [List.map_cons, List.cons.injEq] at hs
        obtain ⟨ha, has⟩ := hs
        simp only [tagsAfter, List.foldl_cons]
        have hf0 : 0 ≤ f := hpos f List.mem_cons_self
        have hidx : frameIdx a.1 sy.cells.length = f.toNat % n := by
          rw [ha, hlen]; simp [frameIdx, usizeOfFrame, hf0]
        apply ih as (sy.userSave a.1 a.2) (upd tag (f.toNat % n) f)
          (by simp [SyncLayer.userSave, rset, hlen]) ?_ has (fun g hg => hpos g (List.mem_cons_of_mem _ hg)) i hi
        intro j hj
        simp only [SyncLayer.userSave, hidx]
        by_cases hje : j = f.toNat % n
        · rw [hje, upd_self, rget_rset_eq _ _ _ (by rw [hlen]; exact Nat.mod_lt _ hn), ha]
        · rw [upd_ne _ _ _ _ hje, rget_rset_ne _ _ _ _ (fun h => hje h.symm)]
          exact htag j hj
    | load f =>
      simp only [savedFrames] at hs hpos
      simp only [tagsAfter]
      exact ih saves sy tag hlen htag hs hpos i hi
    | advance ins =>
      simp only [savedFrames] at hs hpos
      simp only [tagsAfter]
      exact ih saves sy tag hlen htag hs hpos i hi

theorem chk_saved_nonneg (n : Nat) (c c' : CS) (rs : List Request) (h : ChkList n c rs c') :
    ∀ f ∈ savedFrames rs, 0 ≤ f := by
  induction h with
  | nil c => intro f hf; cases hf
  | cons c c1 c2 r rs hr _ ih =>
    intro f hf
    cases hr with
    | save g _ h0 =>
      simp only [savedFrames] at hf
      rcases List.mem_cons.mp hf with h1 | h1
      · rw [h1]; exact h0
      · exact ih f h1
    | load g _ _ _ _ => exact ih f hf
    | advance ins _ => exact ih f hf

end Ggrs

namespace Ggrs

/-- The session invariant does not look at the cells. -/
theorem SessInv_sameQueues (s s2 : P2P) (gh : Ghost) (t : TLState) (reqs : List Request) (h : SessInv s gh t reqs)
    (hq : s2.sync.queues = s.sync.queues) (hc : s2.sync.currentFrame = s.sync.currentFrame)
    (hp : s2.pred = s.pred) (hst : s2.localConnectStatus = s.localConnectStatus) (hh : s2.handles = s.handles) :
    SessInv s2 gh t reqs := by
  have hlp : s2.localPlayerHandles = s.localPlayerHandles := by unfold P2P.localPlayerHandles; rw [hh]
  refine ⟨⟨?_, by rw [hc]; exact h.tinv.exec, by rw [hq]; exact h.tinv.rows⟩, by rw [hq, hc]; exact h.asked,
    by rw [hq, hst]; exact h.status, by rw [hq, hst, hlp]; exact h.remote⟩
  rw [hp, hst]
  exact SyncInv_congr h.tinv.sync hq hc

/-- Session, game and check state together. -/
structure WInv {G : Type} (step : G → List (Input × InputStatus) → G) (g0 : G) (s : P2P) (x : GS G) : Prop where
  sess : ∃ gh, SessInv s gh ⟨x.cur, x.R⟩ []
  ns : s.sparse = false
  ncells : 0 < s.sync.cells.length
  chk : ∃ c, QInv s.sync.cells.length c ∧ c.cur = s.sync.currentFrame ∧
    (∀ i, i < s.sync.cells.length → c.tag i = (rget s.sync.cells i).frame) ∧
    GInv step g0 s.sync.cells.length x c

/-- **One `advance_frame` call and the game executing its requests.** `pre` is what
`advance_frame_core` puts in front: nothing, or at frame 0 the initial SaveGameState. -/
theorem WInv_tick {G : Type} (step : G → List (Input × InputStatus) → G) (g0 : G) (s s' : P2P) (x : GS G)
    (now : Nat) (pre reqs' : List Request) (saves : List (Frame × Option Nat))
    (h : WInv step g0 s x) (hpre : pre = [] ∨ (s.sync.currentFrame = 0 ∧ pre = [.save 0]))
    (hadv : s.advanceRollbackFrame now pre = .ok (s', reqs'))
    (hsaves : saves.map (·.1) = savedFrames reqs') :
    WInv step g0 (s'.userExecute saves) (execGs step s.sync.cells.length x reqs') ∧
    (∃ c c', QInv s.sync.cells.length c ∧ GInv step g0 s.sync.cells.length x c ∧
      ChkList s.sync.cells.length c reqs' c' ∧ c'.cur = s'.sync.currentFrame) ∧
    (s'.sync.currentFrame = s.sync.currentFrame ∨ s'.sync.currentFrame = s.sync.currentFrame + 1) := by
  obtain ⟨gh, hsess⟩ := h.sess
  obtain ⟨c, hq, hcur, htags, hg⟩ := h.chk
  have hnpos0 := h.ncells
  have hns0 := h.ns
  generalize hn : s.sync.cells.length = n at *
  have hnpos : 0 < n := hnpos0
  -- the prefix, checked
  have hprechk : ∃ c0, ChkList n c pre c0 ∧ QInv n c0 ∧ c0.cur = s.sync.currentFrame ∧
      (0 < s.sync.currentFrame → ∀ i, i < n → c0.tag i = (rget s.sync.cells i).frame) := by
    rcases hpre with he | ⟨h0, he⟩
    · subst he; exact ⟨c, ChkList.nil c, hq, hcur, fun _ => htags⟩
    · subst he
      have hc0 : c.cur = 0 := by rw [hcur, h0]
      have hs := Chk.save (n := n) c c.cur rfl (by rw [hc0]; exact Int.le_refl _)
      rw [hc0] at hs
      refine ⟨_, ChkList.cons c _ _ _ _ hs (ChkList.nil _), ?_, by show (0 : Int) = _; rw [h0], fun hp => by omega⟩
      have := QInv_save n c hq
      rw [hc0] at this
      exact this
  obtain ⟨c0, hl0, hq0, hcur0, htags0⟩ := hprechk
  -- the session side, with `pre` already issued
  have hsess0 : SessInv s gh ⟨x.cur, x.R⟩ pre := by
    rcases hpre with he | ⟨_, he⟩
    · subst he; exact hsess
    · subst he
      exact ⟨⟨hsess.tinv.sync, hsess.tinv.exec, hsess.tinv.rows⟩, hsess.asked, hsess.status, hsess.remote⟩
  obtain ⟨_, _, _, _, gh', _, _, hsess', hh', hp', _⟩ := advanceRollbackFrame_spec s s' gh ⟨x.cur, x.R⟩ pre reqs' now hsess0 hadv
  obtain ⟨new, c', hreqs, hlnew, hq', hcur', hstepc, hcl, hsp⟩ :=
    tick_consistent_ns s s' now pre reqs' hns0 hadv c0 (by rw [hn]; exact hnpos) (by rw [hn]; exact hq0) hcur0
      (by rw [hn]; exact htags0)
  rw [hn] at hlnew hq'
  have hlall : ChkList n c reqs' c' := by rw [hreqs]; exact ChkList_append n c c0 c' _ _ hl0 hlnew
  have hg' := GInv_execs step g0 n hnpos x c c' reqs' hg hlall
  obtain ⟨ecur, eR⟩ := execGs_cur_R step n x reqs'
  obtain ⟨uq, uc, ul, up, ust, uh, usp⟩ := userExecute_fields s' saves
  have hlen' : s'.sync.cells.length = n := by rw [hcl]; exact hn
  refine ⟨⟨⟨gh', ?_⟩, by rw [usp, hsp]; exact hns0, by rw [ul, hlen']; exact hnpos, ⟨c', ?_, ?_, ?_, ?_⟩⟩,
    ⟨c, c', hq, hg, hlall, hcur'⟩, hstepc⟩
  · have hreb := SessInv_rebase s' gh' ⟨x.cur, x.R⟩ reqs' hsess'
    have ht : (⟨(execGs step n x reqs').cur, (execGs step n x reqs').R⟩ : TLState) = execReqs ⟨x.cur, x.R⟩ reqs' := by
      rw [ecur, eR]
    rw [ht]
    exact SessInv_sameQueues s' _ gh' _ [] hreb uq uc up ust uh
  · rw [ul, hlen']; exact hq'
  · rw [uc]; exact hcur'
  · rw [ul, hlen']
    intro i hi
    rw [chk_tags n c c' reqs' hlall]
    unfold P2P.userExecute
    exact userExecute_tags n hnpos reqs' saves s'.sync c.tag hlen' (by rw [hcl]; exact htags) hsaves
      (chk_saved_nonneg n c c' reqs' hlall) i hi
  · rw [ul, hlen']; exact hg'

end Ggrs

namespace Ggrs

theorem remoteInput_cells (s s' : P2P) (now : Nat) (inp : PlayerInput) (player : Nat) (handles : List Nat) (addr : Nat)
    (hev : s.handleEventCore now (.input inp player) handles addr = .ok s') :
    s'.sync.cells = s.sync.cells ∧ s'.sparse = s.sparse := by
  unfold P2P.handleEventCore at hev
  simp only at hev
  obtain ⟨_, hev⟩ := ensure_bind_ok hev
  split at hev
  · obtain ⟨_, hev⟩ := ensure_bind_ok hev
    obtain ⟨sy, hadd, hev⟩ := bind_ok hev
    have := pure_ok hev
    subst this
    unfold SyncLayer.addRemoteInput at hadd
    obtain ⟨_, hadd⟩ := ensure_bind_ok hadd
    obtain ⟨r, _, hadd⟩ := bind_ok hadd
    have := pure_ok hadd
    subst this
    exact ⟨rfl, rfl⟩
  · have := pure_ok hev
    subst this
    exact ⟨rfl, rfl⟩

/-- Steps of the world: a remote input arrives, or `advance_frame` runs and the game executes the
returned requests (its saves reaching the cells). -/
inductive WStep {G : Type} (step : G → List (Input × InputStatus) → G) : (P2P × GS G) → (P2P × GS G) → Prop
  | remoteInput (s s' : P2P) (x : GS G) (now : Nat) (inp : PlayerInput) (player : Nat) (handles : List Nat)
      (addr : Nat) : player ∉ s.localPlayerHandles → 0 ≤ inp.frame →
      s.handleEventCore now (.input inp player) handles addr = .ok s' → WStep step (s, x) (s', x)
  | tick (s s' : P2P) (x : GS G) (now : Nat) (pre reqs' : List Request) (saves : List (Frame × Option Nat)) :
      (pre = [] ∨ (s.sync.currentFrame = 0 ∧ pre = [.save 0])) →
      s.advanceRollbackFrame now pre = .ok (s', reqs') → saves.map (·.1) = savedFrames reqs' →
      WStep step (s, x) (s'.userExecute saves, execGs step s.sync.cells.length x reqs')

inductive WStar {G : Type} (step : G → List (Input × InputStatus) → G) : (P2P × GS G) → (P2P × GS G) → Prop
  | refl (w) : WStar step w w
  | step (a b c) : WStar step a b → WStep step b c → WStar step a c

theorem WInv_step {G : Type} (step : G → List (Input × InputStatus) → G) (g0 : G) (a b : P2P × GS G)
    (h : WInv step g0 a.1 a.2) (hs : WStep step a b) : WInv step g0 b.1 b.2 := by
  cases hs with
  | remoteInput s s' x now inp player handles addr hnl h0 hev =>
    obtain ⟨gh, hsess⟩ := h.sess
    obtain ⟨gh', hsess', _, hcur, _⟩ := remoteInput_spec s s' gh ⟨x.cur, x.R⟩ [] now inp player handles addr hsess hnl h0 hev
    obtain ⟨hcl, hsp⟩ := remoteInput_cells s s' now inp player handles addr hev
    obtain ⟨c, hq, hc, htags, hg⟩ := h.chk
    refine ⟨⟨gh', hsess'⟩, by show s'.sparse = false; rw [hsp]; exact h.ns,
      by show 0 < s'.sync.cells.length; rw [hcl]; exact h.ncells, ⟨c, ?_, ?_, ?_, ?_⟩⟩
    · show QInv s'.sync.cells.length c; rw [hcl]; exact hq
    · show c.cur = s'.sync.currentFrame; rw [hcur]; exact hc
    · show ∀ i, i < s'.sync.cells.length → _; rw [hcl]; exact htags
    · show GInv step g0 s'.sync.cells.length x c; rw [hcl]; exact hg
  | tick s s' x now pre reqs' saves hpre hadv hsaves =>
    exact (WInv_tick step g0 s s' x now pre reqs' saves h hpre hadv hsaves).1

/-- **L-world.** -/
theorem WInv_run {G : Type} (step : G → List (Input × InputStatus) → G) (g0 : G) (a b : P2P × GS G)
    (h : WInv step g0 a.1 a.2) (hr : WStar step a b) : WInv step g0 b.1 b.2 := by
  induction hr with
  | refl => exact h
  | step b c _ hs ih => exact WInv_step step g0 b c ih hs

/-- A freshly built session with a game at its initial state and empty cells. -/
theorem WInv_init {G : Type} (step : G → List (Input × InputStatus) → G) (g0 : G) (s : P2P)
    (R : Nat → List (Input × InputStatus)) (cellG : Nat → G) (n : Nat)
    (hq : s.sync.queues = List.replicate n InputQueue.new) (hst : s.localConnectStatus = List.replicate n {})
    (hc : s.sync.currentFrame = 0) (hns : s.sparse = false)
    (hcells : s.sync.cells = List.replicate (s.maxPrediction + 1) {}) :
    WInv step g0 s ⟨0, R, g0, cellG, fun _ => NULL_FRAME⟩ := by
  have hlen : s.sync.cells.length = s.maxPrediction + 1 := by rw [hcells]; simp
  refine ⟨⟨_, SessInv_init s R n hq hst hc⟩, hns, by rw [hlen]; omega, ⟨⟨0, fun _ => NULL_FRAME, fun _ => False⟩, ?_, ?_, ?_, ?_⟩⟩
  · exact ⟨Int.le_refl _, fun i _ h0 => by simp [NULL_FRAME] at h0⟩
  · exact hc.symm
  · intro i hi
    rw [hcells]
    rw [hlen] at hi
    simp [rget, List.getD_eq_getElem?_getD, List.getElem?_replicate, hi, NULL_FRAME]
  · exact ⟨rfl, Int.le_refl _, fun _ _ => rfl, rfl, fun _ _ hv => absurd hv (fun h => h)⟩

end Ggrs
