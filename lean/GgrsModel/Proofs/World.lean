/-
The session together with the game it drives (rollback mode without sparse saving): the game
executes every request list, the user's saves reach the cells. Invariant: the session invariant,
the quiescent check state matching the cells' tags, and the game on the replay of its timeline.
-/
import GgrsModel.Proofs.Consistent
import GgrsModel.Proofs.ConsistentSp
import GgrsModel.Proofs.Session

namespace Ggrs

theorem execGs_cur_R {G : Type} (step : G → List (Input × InputStatus) → G) (n : Nat) (x : GS G) (rs : List Request) :
    (execGs step n x rs).cur = (execReqs ⟨x.cur, x.R⟩ rs).cur ∧ (execGs step n x rs).R = (execReqs ⟨x.cur, x.R⟩ rs).R := by
  induction rs generalizing x with
  | nil => exact ⟨rfl, rfl⟩
  | cons r rs ih =>
    simp only [execGs, execReqs, List.foldl_cons]
    have := ih (execG step n x r)
    simp only [execGs, execReqs] at this
    cases r with
    | save f => exact this
    | load f => exact this
    | advance ins => exact this

/-- The frames of the SaveGameState requests of a list, in order. -/
def savedFrames : List Request → List Frame
  | [] => []
  | .save f :: rs => f :: savedFrames rs
  | _ :: rs => savedFrames rs

/-- The cells' tags after the user executed the saves of a checked request list. -/
theorem userExecute_tags (n : Nat) (hn : 0 < n) : ∀ (rs : List Request) (saves : List (Frame × Option Nat)) (sy : SyncLayer)
    (tag : Nat → Int), sy.cells.length = n → (∀ i, i < n → tag i = (rget sy.cells i).frame) →
    saves.map (·.1) = savedFrames rs → (∀ f ∈ savedFrames rs, 0 ≤ f) →
    ∀ i, i < n → tagsAfter n tag rs i =
      (rget (saves.foldl (fun sy (p : Frame × Option Nat) => sy.userSave p.1 p.2) sy).cells i).frame := by
  intro rs
  induction rs with
  | nil =>
    intro saves sy tag _ htag hs _ i hi
    simp only [savedFrames, List.map_eq_nil_iff] at hs
    subst hs
    exact htag i hi
  | cons r rs ih =>
    intro saves sy tag hlen htag hs hpos i hi
    cases r with
    | save f =>
      simp only [savedFrames] at hs hpos
      cases saves with
      | nil => simp at hs
      | cons a as =>
        simp only [List.map_cons, List.cons.injEq] at hs
        obtain ⟨ha, has⟩ := hs
        simp only [tagsAfter, List.foldl_cons]
        have hf0 : 0 ≤ f := hpos f List.mem_cons_self
        have hidx : frameIdx a.1 sy.cells.length = f.toNat % n := by
          rw [ha, hlen]; simp [frameIdx, usizeOfFrame, hf0]
        apply ih as (sy.userSave a.1 a.2) (upd tag (f.toNat % n) f)
          (by simp [SyncLayer.userSave, rset, hlen]) ?_ has (fun g hg => hpos g (List.mem_cons_of_mem _ hg)) i hi
        intro j hj
        simp only [SyncLayer.userSave, hidx]
        by_cases hje : j = f.toNat % n
        · rw [hje, upd_self, rget_rset_eq _ _ _ (by rw [hlen]; exact Nat.mod_lt _ hn), ha]
        · rw [upd_ne _ _ _ _ hje, rget_rset_ne _ _ _ _ (fun h => hje h.symm)]
          exact htag j hj
    | load f =>
      simp only [savedFrames] at hs hpos
      simp only [tagsAfter]
      exact ih saves sy tag hlen htag hs hpos i hi
    | advance ins =>
      simp only [savedFrames] at hs hpos
      simp only [tagsAfter]
      exact ih saves sy tag hlen htag hs hpos i hi

theorem chk_saved_nonneg (n : Nat) (c c' : CS) (rs : List Request) (h : ChkList n c rs c') :
    ∀ f ∈ savedFrames rs, 0 ≤ f := by
  induction h with
  | nil c => intro f hf; cases hf
  | cons c c1 c2 r rs hr _ ih =>
    intro f hf
    cases hr with
    | save g _ h0 =>
      simp only [savedFrames] at hf
      rcases List.mem_cons.mp hf with h1 | h1
      · rw [h1]; exact h0
      · exact ih f h1
    | load g _ _ _ _ => exact ih f hf
    | advance ins _ => exact ih f hf

end Ggrs

namespace Ggrs

/-- The mode-specific part of the check-state invariant: without sparse saving every written cell
is valid and the ghost tags are the cells' tags; with sparse saving every written cell is valid and
no tag exceeds `last_saved_frame`. -/
def ModeInv (s : P2P) (c : CS) : Prop :=
  (s.sparse = false ∧ QInv s.sync.cells.length c ∧
    (0 < s.sync.currentFrame → ∀ i, i < s.sync.cells.length → c.tag i = (rget s.sync.cells i).frame)) ∨
  (s.sparse = true ∧ SQInv s.sync.cells.length c s.sync.lastSavedFrame)

/-- Session, game and check state together. -/
structure WInv {G : Type} (step : G → List (Input × InputStatus) → G) (g0 : G) (s : P2P) (x : GS G) : Prop where
  sess : ∃ gh, SessInv s gh ⟨x.cur, x.R⟩ []
  ncells : 0 < s.sync.cells.length
  chk : ∃ c, c.cur = s.sync.currentFrame ∧ GInv step g0 s.sync.cells.length x c ∧
    (∀ i, i < s.sync.cells.length → c.tag i = (rget s.sync.cells i).frame) ∧ ModeInv s c

/-- The core of a call: the session `s` on which `advance_rollback_frame` runs has already issued
`pre` (checked from `c` to `c0`). -/
theorem WInv_tick_core {G : Type} (step : G → List (Input × InputStatus) → G) (g0 : G) (s s' : P2P) (x : GS G)
    (now : Nat) (pre reqs' : List Request) (saves : List (Frame × Option Nat)) (gh : Ghost) (c c0 : CS)
    (hsess : SessInv s gh ⟨x.cur, x.R⟩ pre) (hn : 0 < s.sync.cells.length)
    (hg : GInv step g0 s.sync.cells.length x c)
    (htags : ∀ i, i < s.sync.cells.length → c.tag i = (rget s.sync.cells i).frame)
    (hl0 : ChkList s.sync.cells.length c pre c0) (hcur0 : c0.cur = s.sync.currentFrame) (hmode : ModeInv s c0)
    (hadv : s.advanceRollbackFrame now pre = .ok (s', reqs'))
    (hsaves : saves.map (·.1) = savedFrames reqs') :
    WInv step g0 (s'.userExecute saves) (execGs step s.sync.cells.length x reqs') ∧
    (∃ c', ChkList s.sync.cells.length c reqs' c' ∧ c'.cur = s'.sync.currentFrame) ∧
    (s'.sync.currentFrame = s.sync.currentFrame ∨ s'.sync.currentFrame = s.sync.currentFrame + 1) := by
  unfold ModeInv at hmode
  generalize hnn : s.sync.cells.length = n at *
  obtain ⟨_, _, _, _, gh', _, _, hsess', hh', hp', _⟩ := advanceRollbackFrame_spec s s' gh ⟨x.cur, x.R⟩ pre reqs' now hsess hadv
  -- the new requests, checked, in either mode
  have hnew : ∃ (new : List Request) (c' : CS), reqs' = pre ++ new ∧ ChkList n c0 new c' ∧ c'.cur = s'.sync.currentFrame ∧
      (s'.sync.currentFrame = s.sync.currentFrame ∨ s'.sync.currentFrame = s.sync.currentFrame + 1) ∧
      s'.sync.cells = s.sync.cells ∧ s'.sparse = s.sparse ∧
      ((s.sparse = false ∧ QInv n c') ∨ (s.sparse = true ∧ SQInv n c' s'.sync.lastSavedFrame)) := by
    rcases hmode with ⟨hns, hq, ht⟩ | ⟨hsp, hq⟩
    · obtain ⟨new, c', a, b, d, e, f, g, k⟩ := tick_consistent_ns s s' now pre reqs' hns hadv c0 (by rw [hnn]; exact hn)
        (by rw [hnn]; exact hq) hcur0 (by rw [hnn]; exact ht)
      rw [hnn] at b d
      exact ⟨new, c', a, b, e, f, g, k, Or.inl ⟨hns, d⟩⟩
    · obtain ⟨new, c', a, b, d, e, f, g, k⟩ := tick_consistent_sp s s' now pre reqs' hsp hadv c0 n hn hq hcur0
      exact ⟨new, c', a, b, e, f, g, k, Or.inr ⟨hsp, d⟩⟩
  obtain ⟨new, c', hreqs, hlnew, hcur', hstepc, hcl, hspp, hmode'⟩ := hnew
  have hlall : ChkList n c reqs' c' := by rw [hreqs]; exact ChkList_append n c c0 c' _ _ hl0 hlnew
  have hg' := GInv_execs step g0 n hn x c c' reqs' hg hlall
  obtain ⟨ecur, eR⟩ := execGs_cur_R step n x reqs'
  obtain ⟨uq, uc, ul, up, ust, uh, usp⟩ := userExecute_fields s' saves
  have hlen' : s'.sync.cells.length = n := by rw [hcl]; exact hnn
  have htags' : ∀ i, i < n → c'.tag i = (rget (s'.userExecute saves).sync.cells i).frame := by
    intro i hi
    rw [chk_tags n c c' reqs' hlall]
    unfold P2P.userExecute
    exact userExecute_tags n hn reqs' saves s'.sync c.tag hlen' (by rw [hcl]; exact htags) hsaves
      (chk_saved_nonneg n c c' reqs' hlall) i hi
  have huls : (s'.userExecute saves).sync.lastSavedFrame = s'.sync.lastSavedFrame := userExecute_lastSaved s' saves
  refine ⟨⟨⟨gh', ?_⟩, by rw [ul, hlen']; exact hn, ⟨c', by rw [uc]; exact hcur', by rw [ul, hlen']; exact hg',
    by rw [ul, hlen']; exact htags', ?_⟩⟩, ⟨c', hlall, hcur'⟩, hstepc⟩
  · have hreb := SessInv_rebase s' gh' ⟨x.cur, x.R⟩ reqs' hsess'
    have ht : (⟨(execGs step n x reqs').cur, (execGs step n x reqs').R⟩ : TLState) = execReqs ⟨x.cur, x.R⟩ reqs' := by
      rw [ecur, eR]
    rw [ht]
    exact SessInv_sameQueues s' _ gh' _ [] hreb uq uc up ust uh
  · unfold ModeInv
    rw [usp, hspp, ul, hlen', huls]
    rcases hmode' with ⟨a, b⟩ | ⟨a, b⟩
    · exact Or.inl ⟨a, b, fun _ => htags'⟩
    · exact Or.inr ⟨a, b⟩

theorem remoteInput_cells (s s' : P2P) (now : Nat) (inp : PlayerInput) (player : Nat) (handles : List Nat) (addr : Nat)
    (hev : s.handleEventCore now (.input inp player) handles addr = .ok s') :
    s'.sync.cells = s.sync.cells ∧ s'.sparse = s.sparse ∧ s'.sync.lastSavedFrame = s.sync.lastSavedFrame := by
  unfold P2P.handleEventCore at hev
  simp only at hev
  obtain ⟨_, hev⟩ := ensure_bind_ok hev
  split at hev
  · obtain ⟨_, hev⟩ := ensure_bind_ok hev
    obtain ⟨sy, hadd, hev⟩ := bind_ok hev
    have := pure_ok hev
    subst this
    unfold SyncLayer.addRemoteInput at hadd
    obtain ⟨_, hadd⟩ := ensure_bind_ok hadd
    obtain ⟨r, _, hadd⟩ := bind_ok hadd
    have := pure_ok hadd
    subst this
    exact ⟨rfl, rfl, rfl⟩
  · have := pure_ok hev
    subst this
    exact ⟨rfl, rfl, rfl⟩

/-- Steps of the world: a remote input arrives, or `advance_frame` runs and the game executes the
returned requests (its saves reaching the cells). `tick0` is the very first call, where
`advance_frame_core` saves frame 0 before anything else. -/
inductive WStep {G : Type} (step : G → List (Input × InputStatus) → G) : (P2P × GS G) → (P2P × GS G) → Prop
  | remoteInput (s s' : P2P) (x : GS G) (now : Nat) (inp : PlayerInput) (player : Nat) (handles : List Nat)
      (addr : Nat) : player ∉ s.localPlayerHandles → 0 ≤ inp.frame →
      s.handleEventCore now (.input inp player) handles addr = .ok s' → WStep step (s, x) (s', x)
  | tick (s s' : P2P) (x : GS G) (now : Nat) (reqs' : List Request) (saves : List (Frame × Option Nat)) :
      s.advanceRollbackFrame now [] = .ok (s', reqs') → saves.map (·.1) = savedFrames reqs' →
      WStep step (s, x) (s'.userExecute saves, execGs step s.sync.cells.length x reqs')
  | tick0 (s s' : P2P) (x : GS G) (now : Nat) (sy : SyncLayer) (r : Request) (reqs' : List Request)
      (saves : List (Frame × Option Nat)) :
      s.sync.currentFrame = 0 → s.sync.saveCurrentState = .ok (sy, r) →
      ({ s with sync := sy } : P2P).advanceRollbackFrame now [r] = .ok (s', reqs') →
      saves.map (·.1) = savedFrames reqs' →
      WStep step (s, x) (s'.userExecute saves, execGs step s.sync.cells.length x reqs')
  /-- the user submits a local player's input for the coming call (`add_local_input`) -/
  | localInput (s : P2P) (x : GS G) (handle : Nat) (input : Input) :
      WStep step (s, x) ((s.addLocalInput handle input).1, x)

inductive WStar {G : Type} (step : G → List (Input × InputStatus) → G) : (P2P × GS G) → (P2P × GS G) → Prop
  | refl (w) : WStar step w w
  | step (a b c) : WStar step a b → WStep step b c → WStar step a c

/-- What a call guarantees about its request list. -/
def TickOK {G : Type} (step : G → List (Input × InputStatus) → G) (g0 : G) (s : P2P) (x : GS G) (s' : P2P)
    (reqs' : List Request) : Prop :=
  (∃ c c', GInv step g0 s.sync.cells.length x c ∧ ChkList s.sync.cells.length c reqs' c' ∧ c'.cur = s'.sync.currentFrame) ∧
  (s'.sync.currentFrame = s.sync.currentFrame ∨ s'.sync.currentFrame = s.sync.currentFrame + 1)

theorem WInv_tick {G : Type} (step : G → List (Input × InputStatus) → G) (g0 : G) (s s' : P2P) (x : GS G)
    (now : Nat) (reqs' : List Request) (saves : List (Frame × Option Nat)) (h : WInv step g0 s x)
    (hadv : s.advanceRollbackFrame now [] = .ok (s', reqs')) (hsaves : saves.map (·.1) = savedFrames reqs') :
    WInv step g0 (s'.userExecute saves) (execGs step s.sync.cells.length x reqs') ∧ TickOK step g0 s x s' reqs' := by
  obtain ⟨gh, hsess⟩ := h.sess
  obtain ⟨c, hcur, hg, htags, hmode⟩ := h.chk
  obtain ⟨a, ⟨c', b1, b2⟩, d⟩ := WInv_tick_core step g0 s s' x now [] reqs' saves gh c c hsess h.ncells hg htags
    (ChkList.nil c) hcur hmode hadv hsaves
  exact ⟨a, ⟨c, c', hg, b1, b2⟩, d⟩

theorem WInv_tick0 {G : Type} (step : G → List (Input × InputStatus) → G) (g0 : G) (s s' : P2P) (x : GS G)
    (now : Nat) (sy : SyncLayer) (r : Request) (reqs' : List Request) (saves : List (Frame × Option Nat))
    (h : WInv step g0 s x) (h0 : s.sync.currentFrame = 0) (hsv : s.sync.saveCurrentState = .ok (sy, r))
    (hadv : ({ s with sync := sy } : P2P).advanceRollbackFrame now [r] = .ok (s', reqs'))
    (hsaves : saves.map (·.1) = savedFrames reqs') :
    WInv step g0 (s'.userExecute saves) (execGs step s.sync.cells.length x reqs') ∧ TickOK step g0 s x s' reqs' := by
  obtain ⟨gh, hsess⟩ := h.sess
  obtain ⟨c, hcur, hg, htags, hmode⟩ := h.chk
  obtain ⟨hq, hc, hr, hls, _, hcl, _⟩ := save_fields _ _ _ hsv
  have hc0 : c.cur = 0 := by rw [hcur, h0]
  -- the session after the save, with the save issued
  have hsess1 : SessInv ({ s with sync := sy } : P2P) gh ⟨x.cur, x.R⟩ [r] := by
    have h1 := SessInv_sameQueues s ({ s with sync := sy } : P2P) gh _ [] hsess hq hc rfl rfl rfl
    rw [hr]
    exact ⟨⟨h1.tinv.sync, h1.tinv.exec, h1.tinv.rows⟩, h1.asked, h1.status, h1.remote⟩
  have hn := h.ncells
  unfold ModeInv at hmode
  unfold TickOK
  generalize hnn : s.sync.cells.length = n at *
  have hs := Chk.save (n := n) c c.cur rfl (by rw [hc0]; exact Int.le_refl _)
  have hl0 : ChkList n c [r]
      { c with tag := upd c.tag (c.cur.toNat % n) c.cur, valid := fun i => i = c.cur.toNat % n ∨ c.valid i } := by
    rw [hr, h0, ← hc0]
    exact ChkList.cons c _ _ _ _ hs (ChkList.nil _)
  have hmode1 : ModeInv ({ s with sync := sy } : P2P)
      { c with tag := upd c.tag (c.cur.toNat % n) c.cur, valid := fun i => i = c.cur.toNat % n ∨ c.valid i } := by
    unfold ModeInv
    show (s.sparse = false ∧ QInv sy.cells.length _ ∧ (0 < sy.currentFrame → _)) ∨ (s.sparse = true ∧ SQInv sy.cells.length _ sy.lastSavedFrame)
    rw [hcl, hnn, hc, hls]
    rcases hmode with ⟨a, b, _⟩ | ⟨a, b⟩
    · exact Or.inl ⟨a, QInv_save n c b, fun hp => by omega⟩
    · have := SQInv_save n hn c _ b
      rw [hcur] at this ⊢
      exact Or.inr ⟨a, this⟩
  have hlen1 : ({ s with sync := sy } : P2P).sync.cells.length = n := by show sy.cells.length = n; rw [hcl]; exact hnn
  obtain ⟨a, ⟨c', b1, b2⟩, d⟩ := WInv_tick_core step g0 ({ s with sync := sy } : P2P) s' x now [r] reqs' saves gh c _
    hsess1 (by rw [hlen1]; exact hn) (by rw [hlen1]; exact hg) (by rw [hlen1]; show ∀ i, i < n → c.tag i = (rget sy.cells i).frame; rw [hcl]; exact htags)
    (by rw [hlen1]; exact hl0) (by show c.cur = sy.currentFrame; rw [hc]; exact hcur) hmode1 hadv hsaves
  rw [hlen1] at a b1
  refine ⟨a, ⟨c, c', hg, b1, b2⟩, ?_⟩
  have : ({ s with sync := sy } : P2P).sync.currentFrame = s.sync.currentFrame := hc
  rw [this] at d
  exact d

theorem WInv_step {G : Type} (step : G → List (Input × InputStatus) → G) (g0 : G) (a b : P2P × GS G)
    (h : WInv step g0 a.1 a.2) (hs : WStep step a b) : WInv step g0 b.1 b.2 := by
  cases hs with
  | remoteInput s s' x now inp player handles addr hnl h0 hev =>
    obtain ⟨gh, hsess⟩ := h.sess
    obtain ⟨gh', hsess', _, hcur, _⟩ := remoteInput_spec s s' gh ⟨x.cur, x.R⟩ [] now inp player handles addr hsess hnl h0 hev
    obtain ⟨hcl, hsp, hls⟩ := remoteInput_cells s s' now inp player handles addr hev
    obtain ⟨c, hc, hg, htags, hmode⟩ := h.chk
    refine ⟨⟨gh', hsess'⟩, by show 0 < s'.sync.cells.length; rw [hcl]; exact h.ncells, ⟨c, ?_, ?_, ?_, ?_⟩⟩
    · show c.cur = s'.sync.currentFrame; rw [hcur]; exact hc
    · show GInv step g0 s'.sync.cells.length x c; rw [hcl]; exact hg
    · show ∀ i, i < s'.sync.cells.length → _; rw [hcl]; exact htags
    · unfold ModeInv
      show (s'.sparse = false ∧ QInv s'.sync.cells.length c ∧ (0 < s'.sync.currentFrame → _)) ∨ _
      rw [hcl, hsp, hcur, hls]
      exact hmode
  | tick s s' x now reqs' saves hadv hsaves => exact (WInv_tick step g0 s s' x now reqs' saves h hadv hsaves).1
  | tick0 s s' x now sy r reqs' saves h0 hsv hadv hsaves =>
    exact (WInv_tick0 step g0 s s' x now sy r reqs' saves h h0 hsv hadv hsaves).1
  | localInput s x handle input =>
    obtain ⟨l, hl⟩ := P2P.addLocalInput_pending s handle input
    show WInv step g0 (s.addLocalInput handle input).1 x
    rw [hl]
    obtain ⟨gh, hsess⟩ := h.sess
    exact ⟨⟨gh, SessInv_pending s gh _ [] l hsess⟩, h.ncells, h.chk⟩

/-- **L-world.** -/
theorem WInv_run {G : Type} (step : G → List (Input × InputStatus) → G) (g0 : G) (a b : P2P × GS G)
    (h : WInv step g0 a.1 a.2) (hr : WStar step a b) : WInv step g0 b.1 b.2 := by
  induction hr with
  | refl => exact h
  | step b c _ hs ih => exact WInv_step step g0 b c ih hs

/-- A freshly built session with a game at its initial state and empty cells, sparse saving or
not. -/
theorem WInv_init {G : Type} (step : G → List (Input × InputStatus) → G) (g0 : G) (s : P2P)
    (R : Nat → List (Input × InputStatus)) (cellG : Nat → G) (n : Nat)
    (hq : s.sync.queues = List.replicate n InputQueue.new) (hst : s.localConnectStatus = List.replicate n {})
    (hc : s.sync.currentFrame = 0) (hls : s.sync.lastSavedFrame = NULL_FRAME)
    (hcells : s.sync.cells = List.replicate (s.maxPrediction + 1) {}) :
    WInv step g0 s ⟨0, R, g0, cellG, fun _ => NULL_FRAME⟩ := by
  have hlen : s.sync.cells.length = s.maxPrediction + 1 := by rw [hcells]; simp
  have htags : ∀ i, i < s.sync.cells.length → (fun _ : Nat => NULL_FRAME) i = (rget s.sync.cells i).frame := by
    intro i hi
    rw [hcells]
    rw [hlen] at hi
    simp [rget, List.getD_eq_getElem?_getD, hi, NULL_FRAME]
  refine ⟨⟨_, SessInv_init s R n hq hst hc⟩, by rw [hlen]; omega,
    ⟨⟨0, fun _ => NULL_FRAME, fun _ => False⟩, hc.symm, ?_, htags, ?_⟩⟩
  · exact ⟨rfl, Int.le_refl _, fun _ _ => rfl, rfl, fun _ _ hv => absurd hv (fun h => h)⟩
  · unfold ModeInv
    cases hsp : s.sparse with
    | false =>
      exact Or.inl ⟨rfl, ⟨Int.le_refl _, fun i _ h0 => by simp [NULL_FRAME] at h0⟩, fun _ => htags⟩
    | true =>
      refine Or.inr ⟨rfl, ⟨Int.le_refl _, by rw [hls]; simp [NULL_FRAME], fun h0 => by rw [hls] at h0; simp [NULL_FRAME] at h0,
        fun i _ h0 => by simp [NULL_FRAME] at h0⟩⟩

end Ggrs
