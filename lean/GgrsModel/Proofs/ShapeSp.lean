/-
The shape of the request list with sparse saving, with `last_saved_frame` tracked.
-/
import GgrsModel.Proofs.Shape

namespace Ggrs

/-- The frame of the last SaveGameState of a list (`l0` if there is none). -/
def lastSaveOf (l0 : Int) : List Request → Int
  | [] => l0
  | .save f :: rs => lastSaveOf f rs
  | _ :: rs => lastSaveOf l0 rs

theorem lastSaveOf_append (l0 : Int) (a b : List Request) : lastSaveOf l0 (a ++ b) = lastSaveOf (lastSaveOf l0 a) b := by
  induction a generalizing l0 with
  | nil => rfl
  | cons r rs ih => cases r <;> simp [lastSaveOf, ih]

theorem syncInputs_lastSaved (pr : Predictor) (sy sy' : SyncLayer) (st : List ConnStatus) (ins : List (Input × InputStatus))
    (h : sy.synchronizedInputs pr st = .ok (sy', ins)) : sy'.lastSavedFrame = sy.lastSavedFrame :=
  (syncInputs_fields pr sy sy' st ins h).2.2

theorem save_lastSaved (sy sy' : SyncLayer) (r : Request) (h : sy.saveCurrentState = .ok (sy', r)) :
    sy'.lastSavedFrame = sy.currentFrame := by
  unfold SyncLayer.saveCurrentState at h
  simp only at h
  obtain ⟨_, _, h⟩ := bind_ok h
  have := pure_ok h
  simp only [Prod.mk.injEq] at this
  rw [← this.1]

theorem resimSave_lastSaved (s : P2P) (mc : Frame) (i : Nat) (sy sy' : SyncLayer) (reqs reqs' : List Request)
    (h : s.resimSave mc i sy reqs = .ok (sy', reqs')) :
    ∃ mid, reqs' = reqs ++ mid ∧ (mid = [] ∨ mid = [.save sy.currentFrame]) ∧
      sy'.lastSavedFrame = lastSaveOf sy.lastSavedFrame mid := by
  unfold P2P.resimSave at h
  have keep : (pure (sy, reqs) : M (SyncLayer × List Request)) = .ok (sy', reqs') →
      ∃ mid, reqs' = reqs ++ mid ∧ (mid = [] ∨ mid = [.save sy.currentFrame]) ∧
        sy'.lastSavedFrame = lastSaveOf sy.lastSavedFrame mid := by
    intro hp
    have := pure_ok hp
    simp only [Prod.mk.injEq] at this
    exact ⟨[], by rw [← this.2]; simp, Or.inl rfl, by rw [← this.1]; rfl⟩
  have sv : (do let (sync, r) ← sy.saveCurrentState; pure (sync, reqs ++ [r]) : M (SyncLayer × List Request))
      = .ok (sy', reqs') →
      ∃ mid, reqs' = reqs ++ mid ∧ (mid = [] ∨ mid = [.save sy.currentFrame]) ∧
        sy'.lastSavedFrame = lastSaveOf sy.lastSavedFrame mid := by
    intro hp
    obtain ⟨r3, hs3, hp⟩ := bind_ok hp
    obtain ⟨sy3, rq⟩ := r3
    simp only at hp
    have := pure_ok hp
    simp only [Prod.mk.injEq] at this
    obtain ⟨hr, _⟩ := save_shape sy sy3 rq hs3
    exact ⟨[.save sy.currentFrame], by rw [← this.2, hr], Or.inr rfl,
      by rw [← this.1, save_lastSaved sy sy3 rq hs3]; rfl⟩
  split at h
  · split at h
    · exact sv h
    · exact keep h
  · split at h
    · exact sv h
    · exact keep h

theorem resim_shape_ls (s : P2P) (mc : Frame) : ∀ (n i : Nat) (sy sy' : SyncLayer) (reqs reqs' : List Request),
    P2P.adjustGamestate.loop s mc n i sy reqs = .ok (sy', reqs') →
    ∃ L, reqs' = reqs ++ L ∧ ResimShape true i sy.currentFrame n L ∧
      sy'.lastSavedFrame = lastSaveOf sy.lastSavedFrame L := by
  intro n
  induction n with
  | zero =>
    intro i sy sy' reqs reqs' h
    simp only [P2P.adjustGamestate.loop] at h
    cases h
    exact ⟨[], by simp, rfl, rfl⟩
  | succ k ih =>
    intro i sy sy' reqs reqs' h
    simp only [P2P.adjustGamestate.loop] at h
    obtain ⟨r1, hsim, h⟩ := bind_ok h
    obtain ⟨sy1, ins⟩ := r1
    simp only at h
    obtain ⟨r2, hsave, h⟩ := bind_ok h
    obtain ⟨sy2, reqs2⟩ := r2
    simp only at h
    obtain ⟨hc1, _, hls1⟩ := syncInputs_fields _ _ _ _ _ hsim
    obtain ⟨mid, hr2, hmid, hls2⟩ := resimSave_lastSaved s mc i sy1 sy2 reqs reqs2 hsave
    obtain ⟨_, _, _, _, hc2, _⟩ := resimSave_shape s mc i sy1 sy2 reqs reqs2 hsave
    obtain ⟨L', hr', hsh', hls'⟩ := ih (i + 1) sy2.advanceFrame sy' _ reqs' h
    refine ⟨mid ++ [.advance ins] ++ L', by rw [hr', hr2]; simp, ?_, ?_⟩
    · refine ⟨mid, ins, L', rfl, by rw [← hc1]; exact hmid, (fun hf => by cases hf), ?_⟩
      have : sy2.advanceFrame.currentFrame = sy.currentFrame + 1 := by
        show sy2.currentFrame + 1 = _; rw [hc2, hc1]
      rw [← this]; exact hsh'
    · rw [hls']
      show lastSaveOf sy2.lastSavedFrame L' = _
      rw [hls2, hls1, lastSaveOf_append, lastSaveOf_append]
      rfl

/-- `adjust_gamestate` with `last_saved_frame` tracked; with sparse saving the loaded frame is the
last saved one. -/
theorem adjust_shape_ls (s s' : P2P) (fi mc : Frame) (reqs reqs' : List Request)
    (h : s.adjustGamestate fi mc reqs = .ok (s', reqs')) :
    ∃ (r : Frame) (L : List Request), reqs' = reqs ++ [.load r] ++ L ∧ 0 ≤ r ∧ r < s.sync.currentFrame ∧
      ResimShape true 0 r (s.sync.currentFrame - r).toNat L ∧
      s'.sync.lastSavedFrame = lastSaveOf s.sync.lastSavedFrame L ∧
      (s.sparse = true → r = s.sync.lastSavedFrame) ∧ KeepCells s s' := by
  obtain ⟨r0, L0, hL0, h00, hlt0, _, _, hcl, hcur, _⟩ := adjust_shape s s' fi mc reqs reqs' h
  unfold P2P.adjustGamestate at h
  simp only at h
  obtain ⟨_, h⟩ := ensure_bind_ok h
  generalize hr : (if s.sparse = true then s.sync.lastSavedFrame else fi) = r at h
  obtain ⟨p1, hload, h⟩ := bind_ok h
  obtain ⟨sy1, req⟩ := p1
  simp only at h
  obtain ⟨_, h⟩ := ensure_bind_ok h
  obtain ⟨p2, hloop, h⟩ := bind_ok h
  obtain ⟨sy2, reqs2⟩ := p2
  simp only at h
  obtain ⟨_, h⟩ := ensure_bind_ok h
  have := pure_ok h
  simp only [Prod.mk.injEq] at this
  obtain ⟨hs', hreqs'⟩ := this
  unfold SyncLayer.loadFrame at hload
  obtain ⟨_, hload⟩ := ensure_bind_ok hload
  obtain ⟨hlt, hload⟩ := ensure_bind_ok hload
  obtain ⟨_, hload⟩ := ensure_bind_ok hload
  obtain ⟨pos, hpos, hload⟩ := bind_ok hload
  obtain ⟨_, hload⟩ := ensure_bind_ok hload
  have := pure_ok hload
  simp only [Prod.mk.injEq] at this
  obtain ⟨hsy1, hreq⟩ := this
  unfold SyncLayer.cellPos at hpos
  obtain ⟨h0, _⟩ := ensure_bind_ok hpos
  obtain ⟨L, hL, hsh, hls⟩ := resim_shape_ls s mc _ 0 _ sy2 _ reqs2 hloop
  have hc1 : sy1.resetPrediction.currentFrame = r := by rw [← hsy1]; rfl
  have hl1 : sy1.resetPrediction.lastSavedFrame = s.sync.lastSavedFrame := by rw [← hsy1]; rfl
  rw [hc1] at hsh
  rw [hl1] at hls
  refine ⟨r, L, by rw [← hreqs', hL, ← hreq], by simpa using h0, by simpa using hlt, hsh,
    by rw [← hs']; exact hls, fun hsp => by rw [← hr, if_pos hsp], ?_⟩
  have hsp : s'.sparse = s.sparse ∧ s'.maxPrediction = s.maxPrediction := by rw [← hs']; exact ⟨rfl, rfl⟩
  exact ⟨hcl, hcur, hsp.1, hsp.2⟩

end Ggrs

namespace Ggrs

/-- A rollback block: a load of frame `r` followed by the re-simulation of `k` frames. -/
def RBlock (cur : Int) (B : List Request) : Prop :=
  ∃ (r : Frame) (L : List Request), B = [.load r] ++ L ∧ 0 ≤ r ∧ r < cur ∧ ResimShape true 0 r (cur - r).toNat L

theorem rollbackIfNeeded_shape_ls (s s' : P2P) (confirmed : Frame) (reqs reqs' : List Request)
    (hsp : s.sparse = true) (h : s.rollbackIfNeeded confirmed reqs = .ok (s', reqs')) :
    KeepCells s s' ∧ ∃ B, reqs' = reqs ++ B ∧ s'.sync.lastSavedFrame = lastSaveOf s.sync.lastSavedFrame B ∧
      (B = [] ∨ (RBlock s.sync.currentFrame B ∧ ∃ L, B = [.load s.sync.lastSavedFrame] ++ L)) := by
  unfold P2P.rollbackIfNeeded at h
  simp only at h
  split at h
  · obtain ⟨r1, hadj, h⟩ := bind_ok h
    obtain ⟨s1, reqs1⟩ := r1
    simp only at h
    have := pure_ok h
    simp only [Prod.mk.injEq] at this
    obtain ⟨hs', hr'⟩ := this
    obtain ⟨r, L, hL, h0, hlt, hsh, hls, hr, hk⟩ := adjust_shape_ls s s1 _ confirmed reqs reqs1 hadj
    subst hs'; subst hr'
    refine ⟨hk, [.load r] ++ L, by rw [hL]; simp, ?_, Or.inr ⟨⟨r, L, rfl, h0, hlt, hsh⟩, L, by rw [hr hsp]⟩⟩
    show s1.sync.lastSavedFrame = _
    rw [hls]; rfl
  · have := pure_ok h
    simp only [Prod.mk.injEq] at this
    obtain ⟨hs', hr'⟩ := this
    subst hs'; subst hr'
    exact ⟨⟨rfl, rfl, rfl, rfl⟩, [], by simp, rfl, Or.inl rfl⟩

theorem saveAfterRollback_shape_sp (s s' : P2P) (confirmed : Frame) (reqs reqs' : List Request)
    (hsp : s.sparse = true) (h : s.saveAfterRollback confirmed reqs = .ok (s', reqs')) :
    KeepCells s s' ∧ ∃ B, reqs' = reqs ++ B ∧ s'.sync.lastSavedFrame = lastSaveOf s.sync.lastSavedFrame B ∧
      (B = [] ∨ (B = [.save s.sync.currentFrame] ∧ 0 ≤ s.sync.currentFrame) ∨
       (RBlock s.sync.currentFrame B ∧ ∃ L, B = [.load s.sync.lastSavedFrame] ++ L)) := by
  unfold P2P.saveAfterRollback at h
  rw [if_pos hsp] at h
  unfold P2P.checkLastSavedState at h
  split at h
  · obtain ⟨r2, hsr, h⟩ := bind_ok h
    obtain ⟨s2, reqs2⟩ := r2
    simp only at h
    obtain ⟨_, h⟩ := ensure_bind_ok h
    have := pure_ok h
    simp only [Prod.mk.injEq] at this
    obtain ⟨hs', hr'⟩ := this
    subst hs'; subst hr'
    unfold P2P.saveOrRollbackToSaved at hsr
    split at hsr
    · obtain ⟨r3, hs3, hsr⟩ := bind_ok hsr
      obtain ⟨sy, r⟩ := r3
      simp only at hsr
      have := pure_ok hsr
      simp only [Prod.mk.injEq] at this
      obtain ⟨hs2, hr2⟩ := this
      obtain ⟨hr, h0, hc, hcl, _⟩ := save_shape _ _ _ hs3
      subst hs2; subst hr2
      refine ⟨⟨hcl, hc, rfl, rfl⟩, [.save s.sync.currentFrame], by rw [hr], ?_, Or.inr (Or.inl ⟨rfl, h0⟩)⟩
      show sy.lastSavedFrame = _
      rw [save_lastSaved _ _ _ hs3]; rfl
    · obtain ⟨r, L, hL, h0, hlt, hsh, hls, hr, hk⟩ := adjust_shape_ls s s2 _ confirmed reqs reqs2 hsr
      refine ⟨hk, [.load r] ++ L, by rw [hL]; simp, by rw [hls]; rfl,
        Or.inr (Or.inr ⟨⟨r, L, rfl, h0, hlt, hsh⟩, L, by rw [hr hsp]⟩)⟩
  · have := pure_ok h
    simp only [Prod.mk.injEq] at this
    obtain ⟨hs', hr'⟩ := this
    subst hs'; subst hr'
    exact ⟨⟨rfl, rfl, rfl, rfl⟩, [], by simp, rfl, Or.inl rfl⟩

theorem setLastConfirmed_lastSaved (sy sy' : SyncLayer) (f : Frame) (sp : Bool)
    (h : sy.setLastConfirmedFrame f sp = .ok sy') : sy'.lastSavedFrame = sy.lastSavedFrame := by
  unfold SyncLayer.setLastConfirmedFrame at h
  simp only at h
  generalize (min (if sp = true then min f sy.lastSavedFrame else f) sy.currentFrame) = fr at h
  obtain ⟨_, h⟩ := ensure_bind_ok h
  by_cases hpos : fr > 0
  · simp only [hpos, if_true] at h
    obtain ⟨qs, _, h⟩ := bind_ok h
    have := pure_ok h
    subst this
    rfl
  · simp only [hpos, if_false] at h
    have := pure_ok h
    subst this
    rfl

theorem registerOne_lastSaved (s s' : P2P) (hd : Nat) (h : s.registerOne hd = .ok s') :
    s'.sync.lastSavedFrame = s.sync.lastSavedFrame := by
  unfold P2P.registerOne at h
  obtain ⟨pi, _, h⟩ := bind_ok h
  obtain ⟨r, hadd, h⟩ := bind_ok h
  obtain ⟨sy, actual⟩ := r
  simp only at h
  unfold SyncLayer.addLocalInput at hadd
  obtain ⟨_, hadd⟩ := ensure_bind_ok hadd
  obtain ⟨_, hadd⟩ := ensure_bind_ok hadd
  obtain ⟨r2, _, hadd⟩ := bind_ok hadd
  have := pure_ok hadd
  simp only [Prod.mk.injEq] at this
  obtain ⟨hsy, _⟩ := this
  split at h
  · obtain ⟨s2, hbl, h⟩ := bind_ok h
    have hc1 := P2P.queueInitialBlanks_sameCore _ _ _ _ hbl
    have hc2 := P2P.queueOutgoing_sameCore _ _ _ _ h
    rw [hc2.sync]; show s2.sync.lastSavedFrame = _; rw [hc1.sync, ← hsy]
  · have := pure_ok h
    subst this
    show sy.lastSavedFrame = _; rw [← hsy]

theorem registerLocalInputs_lastSaved (s s' : P2P) (now : Nat) (h : s.registerLocalInputs now = .ok s') :
    s'.sync.lastSavedFrame = s.sync.lastSavedFrame := by
  unfold P2P.registerLocalInputs at h
  obtain ⟨s1, hfold, hsend⟩ := bind_ok h
  have hf : ∀ (l : List Nat) (a b : P2P), l.foldlM P2P.registerOne a = .ok b →
      b.sync.lastSavedFrame = a.sync.lastSavedFrame := by
    intro l
    induction l with
    | nil => intro a b hh; simp only [List.foldlM_nil] at hh; have := pure_ok hh; subst this; rfl
    | cons x xs ih =>
      intro a b hh
      simp only [List.foldlM_cons] at hh
      obtain ⟨a1, h1, hh⟩ := bind_ok hh
      rw [ih a1 b hh, registerOne_lastSaved a a1 x h1]
  have hc := P2P.sendReady_sameCore _ _ _ hsend
  rw [hc.sync]; exact hf _ s s1 hfold

theorem rollbackGate_lastSaved (s s' : P2P) (reqs reqs' : List Request) (h : s.rollbackGate reqs = .ok (s', reqs')) :
    s'.sync.lastSavedFrame = s.sync.lastSavedFrame := by
  unfold P2P.rollbackGate at h
  split at h
  · obtain ⟨r, hsim, h⟩ := bind_ok h
    obtain ⟨sy1, ins⟩ := r
    simp only at h
    have := pure_ok h
    simp only [Prod.mk.injEq] at this
    rw [← this.1]
    show sy1.lastSavedFrame = _
    exact syncInputs_lastSaved _ _ _ _ _ hsim
  · have := pure_ok h
    simp only [Prod.mk.injEq] at this
    rw [← this.1]

/-- **The request list of a rollback-mode `advance_frame` with sparse saving**: what was there; a
rollback block that loads the LAST SAVED frame (only if a misprediction was detected); then
nothing, a save of the current frame, or a second rollback block from the (then) last saved frame
(`check_last_saved_state`); then at most one AdvanceFrame. -/
theorem tick_shape_sp (s s' : P2P) (now : Nat) (reqs reqs' : List Request) (hsp : s.sparse = true)
    (h : s.advanceRollbackFrame now reqs = .ok (s', reqs')) :
    ∃ (B1 B2 G : List Request), reqs' = reqs ++ B1 ++ B2 ++ G ∧
      (B1 = [] ∨ (RBlock s.sync.currentFrame B1 ∧ ∃ L, B1 = [.load s.sync.lastSavedFrame] ++ L)) ∧
      (B2 = [] ∨ (B2 = [.save s.sync.currentFrame] ∧ 0 ≤ s.sync.currentFrame) ∨
       (RBlock s.sync.currentFrame B2 ∧ ∃ L, B2 = [.load (lastSaveOf s.sync.lastSavedFrame B1)] ++ L)) ∧
      ((G = [] ∧ s'.sync.currentFrame = s.sync.currentFrame) ∨
       (∃ ins, G = [.advance ins] ∧ s'.sync.currentFrame = s.sync.currentFrame + 1)) ∧
      s'.sync.lastSavedFrame = lastSaveOf s.sync.lastSavedFrame (B1 ++ B2) ∧
      s'.sync.cells = s.sync.cells ∧ s'.sparse = s.sparse := by
  unfold P2P.advanceRollbackFrame at h
  obtain ⟨confirmed, _, h⟩ := bind_ok h
  obtain ⟨r1, hrs, h⟩ := bind_ok h
  obtain ⟨s1, reqs1⟩ := r1
  simp only at h
  obtain ⟨s2, hspec, h⟩ := bind_ok h
  obtain ⟨sy3, hset, h⟩ := bind_ok h
  obtain ⟨s4, hreg, hgate⟩ := bind_ok h
  unfold P2P.handleRollbackAndSave at hrs
  obtain ⟨r0, hrb, hsv⟩ := bind_ok hrs
  obtain ⟨s0, reqs0⟩ := r0
  simp only at hsv
  obtain ⟨hk0, B1, hB1, hls0, hc0⟩ := rollbackIfNeeded_shape_ls s s0 confirmed reqs reqs0 hsp hrb
  obtain ⟨hk1, B2, hB2, hls1, hc1⟩ := saveAfterRollback_shape_sp s0 s1 confirmed reqs0 reqs1 (by rw [hk0.2.2.1]; exact hsp) hsv
  have hc2 := P2P.sendConfirmed_sameCore _ _ _ _ hspec
  obtain ⟨hcl3, hcur3⟩ := setLastConfirmed_cells _ _ _ _ hset
  have hls3 := setLastConfirmed_lastSaved _ _ _ _ hset
  have hk4 := registerLocalInputs_cells _ s4 now hreg
  have hls4 := registerLocalInputs_lastSaved _ s4 now hreg
  obtain ⟨hclg, hspg, _, hcaseg⟩ := rollbackGate_shape s4 s' reqs1 reqs' hgate
  have hlsg := rollbackGate_lastSaved s4 s' reqs1 reqs' hgate
  have hk : KeepCells s s4 := by
    refine (hk0.trans hk1).trans (KeepCells.trans ⟨?_, ?_, ?_, ?_⟩ hk4)
    · show sy3.cells = s1.sync.cells; rw [hcl3, hc2.sync]
    · show sy3.currentFrame = s1.sync.currentFrame; rw [hcur3, hc2.sync]
    · show s2.sparse = s1.sparse; exact hc2.sparse
    · show s2.maxPrediction = s1.maxPrediction; exact hc2.maxPrediction
  have hls : s'.sync.lastSavedFrame = lastSaveOf s.sync.lastSavedFrame (B1 ++ B2) := by
    rw [hlsg, hls4]
    show sy3.lastSavedFrame = _
    rw [hls3, hc2.sync, hls1, hls0, lastSaveOf_append]
  rw [hk0.2.1, hls0] at hc1
  refine ⟨B1, B2, reqs'.drop reqs1.length, ?_, hc0, hc1, ?_, hls, hclg.trans hk.1, hspg.trans hk.2.2.1⟩
  · rcases hcaseg with ⟨hg, _⟩ | ⟨ins, hg, _⟩
    · rw [hg, hB2, hB1]; simp
    · rw [hg, hB2, hB1]; simp
  · rcases hcaseg with ⟨hg, hc⟩ | ⟨ins, hg, hc⟩
    · left; rw [hg]; exact ⟨by simp, by rw [hc, hk.2.1]⟩
    · right; exact ⟨ins, by rw [hg]; simp, by rw [hc, hk.2.1]⟩

end Ggrs
