/-
L-drop (game): the world of `DropWorld.lean` with a deterministic game executing the requests and
its saves reaching the cells. The request-list discipline (`ChkList`: saves name the game's frame,
loads name an earlier frame whose cell still holds a state of the current timeline) and "game state
= serial replay of its own timeline" do not depend on who is connected; this file re-establishes
them next to the session invariant with dead players.
-/
import GgrsModel.Proofs.DropWorld
import GgrsModel.Proofs.World
import GgrsModel.Proofs.Checksums

namespace Ggrs
open InputQueue

/-- The world invariant with dead players: the session invariant against the game's timeline, and
the request-checking state that matches game and cells. -/
structure WInvD {G : Type} (step : G → List (Input × InputStatus) → G) (g0 : G) (s : P2P) (x : GS G) : Prop where
  sess : ∃ gh st0, SessInvD s gh ⟨x.cur, x.R⟩ [] st0
  ncells : 0 < s.sync.cells.length
  chk : ∃ c, c.cur = s.sync.currentFrame ∧ GInv step g0 s.sync.cells.length x c ∧
    (∀ i, i < s.sync.cells.length → c.tag i = (rget s.sync.cells i).frame) ∧ ModeInv s c

theorem WInvD_tick_core {G : Type} (step : G → List (Input × InputStatus) → G) (g0 : G) (s s' : P2P) (x : GS G)
    (now : Nat) (pre reqs' : List Request) (saves : List (Frame × Option Nat)) (gh : DGhost) (st0 : List ConnStatus) (c c0 : CS)
    (hsess : SessInvD s gh ⟨x.cur, x.R⟩ pre st0) (hn : 0 < s.sync.cells.length)
    (hg : GInv step g0 s.sync.cells.length x c)
    (htags : ∀ i, i < s.sync.cells.length → c.tag i = (rget s.sync.cells i).frame)
    (hl0 : ChkList s.sync.cells.length c pre c0) (hcur0 : c0.cur = s.sync.currentFrame) (hmode : ModeInv s c0)
    (hadv : s.advanceRollbackFrame now pre = .ok (s', reqs'))
    (hsaves : saves.map (·.1) = savedFrames reqs') :
    WInvD step g0 (s'.userExecute saves) (execGs step s.sync.cells.length x reqs') ∧
    (∃ c', ChkList s.sync.cells.length c reqs' c' ∧ c'.cur = s'.sync.currentFrame) ∧
    (s'.sync.currentFrame = s.sync.currentFrame ∨ s'.sync.currentFrame = s.sync.currentFrame + 1) := by
  unfold ModeInv at hmode
  generalize hnn : s.sync.cells.length = n at *
  obtain ⟨_, _, _, _, gh', _, _, hsess', _⟩ := advanceRollbackFrame_specD s s' gh ⟨x.cur, x.R⟩ pre reqs' now st0 hsess hadv
  have hnew : ∃ (new : List Request) (c' : CS), reqs' = pre ++ new ∧ ChkList n c0 new c' ∧ c'.cur = s'.sync.currentFrame ∧
      (s'.sync.currentFrame = s.sync.currentFrame ∨ s'.sync.currentFrame = s.sync.currentFrame + 1) ∧
      s'.sync.cells = s.sync.cells ∧ s'.sparse = s.sparse ∧
      ((s.sparse = false ∧ QInv n c') ∨ (s.sparse = true ∧ SQInv n c' s'.sync.lastSavedFrame)) := by
    rcases hmode with ⟨hns, hq, ht⟩ | ⟨hsp, hq⟩
    · obtain ⟨new, c', a, b, d, e, f, g, k⟩ := tick_consistent_ns s s' now pre reqs' hns hadv c0 (by rw [hnn]; exact hn)
        (by rw [hnn]; exact hq) hcur0 (by rw [hnn]; exact ht)
      rw [hnn] at b d
      exact ⟨new, c', a, b, e, f, g, k, Or.inl ⟨hns, d⟩⟩
    · obtain ⟨new, c', a, b, d, e, f, g, k⟩ := tick_consistent_sp s s' now pre reqs' hsp hadv c0 n hn hq hcur0
      exact ⟨new, c', a, b, e, f, g, k, Or.inr ⟨hsp, d⟩⟩
  obtain ⟨new, c', hreqs, hlnew, hcur', hstepc, hcl, hspp, hmode'⟩ := hnew
  have hlall : ChkList n c reqs' c' := by rw [hreqs]; exact ChkList_append n c c0 c' _ _ hl0 hlnew
  have hg' := GInv_execs step g0 n hn x c c' reqs' hg hlall
  obtain ⟨ecur, eR⟩ := execGs_cur_R step n x reqs'
  obtain ⟨uq, uc, ul, up, ust, uh, usp⟩ := userExecute_fields s' saves
  have hlen' : s'.sync.cells.length = n := by rw [hcl]; exact hnn
  have htags' : ∀ i, i < n → c'.tag i = (rget (s'.userExecute saves).sync.cells i).frame := by
    intro i hi
    rw [chk_tags n c c' reqs' hlall]
    unfold P2P.userExecute
    exact userExecute_tags n hn reqs' saves s'.sync c.tag hlen' (by rw [hcl]; exact htags) hsaves
      (chk_saved_nonneg n c c' reqs' hlall) i hi
  have huls : (s'.userExecute saves).sync.lastSavedFrame = s'.sync.lastSavedFrame := userExecute_lastSaved s' saves
  refine ⟨⟨⟨gh', (s'.userExecute saves).localConnectStatus, ?_⟩, by rw [ul, hlen']; exact hn, ⟨c', by rw [uc]; exact hcur', by rw [ul, hlen']; exact hg',
    by rw [ul, hlen']; exact htags', ?_⟩⟩, ⟨c', hlall, hcur'⟩, hstepc⟩
  · have hreb := SessInvD_rebase s' gh' ⟨x.cur, x.R⟩ reqs' _ hsess'
    have ht : (⟨(execGs step n x reqs').cur, (execGs step n x reqs').R⟩ : TLState) = execReqs ⟨x.cur, x.R⟩ reqs' := by
      rw [ecur, eR]
    rw [ht]
    have := SessInvD_sameQueues s' (s'.userExecute saves) gh' _ [] _ hreb uq uc huls up ust uh usp rfl
    rw [ust]
    exact this
  · unfold ModeInv
    rw [usp, hspp, ul, hlen', huls]
    rcases hmode' with ⟨a, b⟩ | ⟨a, b⟩
    · exact Or.inl ⟨a, b, fun _ => htags'⟩
    · exact Or.inr ⟨a, b⟩

/-- A step that leaves the sync layer's cells, frame, saving mode and last saved frame alone keeps
the game-side half of the invariant. -/
theorem WInvD_transfer {G : Type} (step : G → List (Input × InputStatus) → G) (g0 : G) (s s' : P2P) (x : GS G)
    (h : WInvD step g0 s x) (hsess : ∃ gh st0, SessInvD s' gh ⟨x.cur, x.R⟩ [] st0)
    (hcl : s'.sync.cells = s.sync.cells) (hsp : s'.sparse = s.sparse)
    (hcur : s'.sync.currentFrame = s.sync.currentFrame) (hls : s'.sync.lastSavedFrame = s.sync.lastSavedFrame) :
    WInvD step g0 s' x := by
  obtain ⟨c, hc, hg, htags, hmode⟩ := h.chk
  refine ⟨hsess, by rw [hcl]; exact h.ncells, ⟨c, ?_, ?_, ?_, ?_⟩⟩
  · rw [hcur]; exact hc
  · rw [hcl]; exact hg
  · rw [hcl]; exact htags
  · unfold ModeInv at hmode ⊢
    rw [hcl, hsp, hcur, hls]
    exact hmode

/-- Steps of the world with drops and a game. -/
inductive XWStep {G : Type} (step : G → List (Input × InputStatus) → G) : (P2P × GS G) → (P2P × GS G) → Prop
  /-- anything `XStep` does that is not a call (an arrival, a drop): the game is not involved -/
  | net (s s' : P2P) (x : GS G) : XStep (s, ⟨x.cur, x.R⟩) (s', ⟨x.cur, x.R⟩) →
      s'.sync.cells = s.sync.cells → s'.sparse = s.sparse → s'.sync.currentFrame = s.sync.currentFrame →
      s'.sync.lastSavedFrame = s.sync.lastSavedFrame → XWStep step (s, x) (s', x)
  | tick (s s' : P2P) (x : GS G) (now : Nat) (reqs' : List Request) (saves : List (Frame × Option Nat)) :
      s.advanceRollbackFrame now [] = .ok (s', reqs') → saves.map (·.1) = savedFrames reqs' →
      XWStep step (s, x) (s'.userExecute saves, execGs step s.sync.cells.length x reqs')
  /-- the very first call: `advance_frame_core` saves frame 0 before anything else -/
  | tick0 (s s' : P2P) (x : GS G) (now : Nat) (sy : SyncLayer) (r : Request) (reqs' : List Request)
      (saves : List (Frame × Option Nat)) :
      s.sync.currentFrame = 0 → s.sync.saveCurrentState = .ok (sy, r) →
      ({ s with sync := sy } : P2P).advanceRollbackFrame now [r] = .ok (s', reqs') →
      saves.map (·.1) = savedFrames reqs' →
      XWStep step (s, x) (s'.userExecute saves, execGs step s.sync.cells.length x reqs')

inductive XWStar {G : Type} (step : G → List (Input × InputStatus) → G) : (P2P × GS G) → (P2P × GS G) → Prop
  | refl (w) : XWStar step w w
  | step (a b c) : XWStar step a b → XWStep step b c → XWStar step a c

theorem WInvD_tick {G : Type} (step : G → List (Input × InputStatus) → G) (g0 : G) (s s' : P2P) (x : GS G)
    (now : Nat) (reqs' : List Request) (saves : List (Frame × Option Nat)) (h : WInvD step g0 s x)
    (hadv : s.advanceRollbackFrame now [] = .ok (s', reqs')) (hsaves : saves.map (·.1) = savedFrames reqs') :
    WInvD step g0 (s'.userExecute saves) (execGs step s.sync.cells.length x reqs') ∧ TickOK step g0 s x s' reqs' := by
  obtain ⟨gh, st0, hsess⟩ := h.sess
  obtain ⟨c, hcur, hg, htags, hmode⟩ := h.chk
  obtain ⟨a, ⟨c', b1, b2⟩, d⟩ := WInvD_tick_core step g0 s s' x now [] reqs' saves gh st0 c c hsess h.ncells hg htags
    (ChkList.nil c) hcur hmode hadv hsaves
  exact ⟨a, ⟨c, c', hg, b1, b2⟩, d⟩

/-- A save issued at the session's frame keeps the invariant. -/
theorem SessInvD_save (s : P2P) (gh : DGhost) (t : TLState) (reqs : List Request) (st0 : List ConnStatus)
    (sy : SyncLayer) (r : Request) (h : SessInvD s gh t reqs st0) (hsv : s.sync.saveCurrentState = .ok (sy, r)) :
    SessInvD ({ s with sync := sy } : P2P) gh t (reqs ++ [r]) st0 := by
  obtain ⟨hq, hc, hr, hls, _, _, _⟩ := save_fields _ _ _ hsv
  have hR : (execReqs t (reqs ++ [r])).R = (execReqs t reqs).R := by rw [execReqs_append, hr]; rfl
  have hC : (execReqs t (reqs ++ [r])).cur = (execReqs t reqs).cur := by rw [execReqs_append, hr]; rfl
  refine ⟨⟨SyncInvD_congr h.tinv.sync hq hc, ?_, ?_, ?_⟩, h.marks, ?_, ?_, ?_, ?_, h.localAlive, ?_, h.dfok, ?_, ?_⟩
  · show (execReqs t (reqs ++ [r])).cur = sy.currentFrame; rw [hC, hc]; exact h.tinv.exec
  · intro p hp f
    rw [hR]; exact h.tinv.rows p (by rw [← hq]; exact hp) f
  · intro p hp hd f hlf hfc
    rw [hR]; exact h.tinv.deadRows p (by rw [← hq]; exact hp) hd f hlf (by rw [← hc]; exact hfc)
  · show ∀ p, p < sy.queues.length → _ → Asked (rget sy.queues p) sy.currentFrame
    rw [hq, hc]; exact h.asked
  · show ∀ p, p < sy.queues.length → _ → _ → sy.currentFrame ≤ _ ∨ _
    rw [hq, hc]; exact h.pend
  · show ∀ p, p < sy.queues.length → _ → _ ≤ (rget sy.queues p).lastAddedFrame
    rw [hq]; exact h.status
  · show ∀ p, p < sy.queues.length → _
    rw [hq]; exact h.remote
  · show ∀ p, p < sy.queues.length → _ → _ ∧ (∀ q, q < sy.queues.length → (rget sy.queues q).firstIncorrectFrame ≠ _ → _) ∧
      (∀ q, q < sy.queues.length → _)
    rw [hq]; exact h.safe
  · show ∀ p, p < sy.queues.length → _ → (rget sy.queues p).firstIncorrectFrame = _
    rw [hq]; exact h.deadClean
  · intro _ p hp hg
    show _ < sy.lastSavedFrame
    rw [hls]
    have hp0 : p < s.sync.queues.length := by rw [← hq]; exact hp
    have := (h.tinv.sync.gone p hp0 hg).lt
    rw [h.marks.last]; exact this

theorem WInvD_tick0 {G : Type} (step : G → List (Input × InputStatus) → G) (g0 : G) (s s' : P2P) (x : GS G)
    (now : Nat) (sy : SyncLayer) (r : Request) (reqs' : List Request) (saves : List (Frame × Option Nat))
    (h : WInvD step g0 s x) (h0 : s.sync.currentFrame = 0) (hsv : s.sync.saveCurrentState = .ok (sy, r))
    (hadv : ({ s with sync := sy } : P2P).advanceRollbackFrame now [r] = .ok (s', reqs'))
    (hsaves : saves.map (·.1) = savedFrames reqs') :
    WInvD step g0 (s'.userExecute saves) (execGs step s.sync.cells.length x reqs') ∧ TickOK step g0 s x s' reqs' := by
  obtain ⟨gh, st0, hsess⟩ := h.sess
  obtain ⟨c, hcur, hg, htags, hmode⟩ := h.chk
  obtain ⟨hq, hc, hr, hls, _, hcl, _⟩ := save_fields _ _ _ hsv
  have hc0 : c.cur = 0 := by rw [hcur, h0]
  have hsess1 : SessInvD ({ s with sync := sy } : P2P) gh ⟨x.cur, x.R⟩ [r] st0 :=
    SessInvD_save s gh _ [] st0 sy r hsess hsv
  have hn := h.ncells
  unfold ModeInv at hmode
  unfold TickOK
  generalize hnn : s.sync.cells.length = n at *
  have hs := Chk.save (n := n) c c.cur rfl (by rw [hc0]; exact Int.le_refl _)
  have hl0 : ChkList n c [r]
      { c with tag := upd c.tag (c.cur.toNat % n) c.cur, valid := fun i => i = c.cur.toNat % n ∨ c.valid i } := by
    rw [hr, h0, ← hc0]
    exact ChkList.cons c _ _ _ _ hs (ChkList.nil _)
  have hmode1 : ModeInv ({ s with sync := sy } : P2P)
      { c with tag := upd c.tag (c.cur.toNat % n) c.cur, valid := fun i => i = c.cur.toNat % n ∨ c.valid i } := by
    unfold ModeInv
    show (s.sparse = false ∧ QInv sy.cells.length _ ∧ (0 < sy.currentFrame → _)) ∨ (s.sparse = true ∧ SQInv sy.cells.length _ sy.lastSavedFrame)
    rw [hcl, hnn, hc, hls]
    rcases hmode with ⟨a, b, _⟩ | ⟨a, b⟩
    · exact Or.inl ⟨a, QInv_save n c b, fun hp => by omega⟩
    · have := SQInv_save n hn c _ b
      rw [hcur] at this ⊢
      exact Or.inr ⟨a, this⟩
  have hlen1 : ({ s with sync := sy } : P2P).sync.cells.length = n := by show sy.cells.length = n; rw [hcl]; exact hnn
  obtain ⟨a, ⟨c', b1, b2⟩, d⟩ := WInvD_tick_core step g0 ({ s with sync := sy } : P2P) s' x now [r] reqs' saves gh st0 c _
    hsess1 (by rw [hlen1]; exact hn) (by rw [hlen1]; exact hg) (by rw [hlen1]; show ∀ i, i < n → c.tag i = (rget sy.cells i).frame; rw [hcl]; exact htags)
    (by rw [hlen1]; exact hl0) (by show c.cur = sy.currentFrame; rw [hc]; exact hcur) hmode1 hadv hsaves
  rw [hlen1] at a b1
  refine ⟨a, ⟨c, c', hg, b1, b2⟩, ?_⟩
  have : ({ s with sync := sy } : P2P).sync.currentFrame = s.sync.currentFrame := hc
  rw [this] at d
  exact d

theorem WInvD_step {G : Type} (step : G → List (Input × InputStatus) → G) (g0 : G) (a b : P2P × GS G)
    (h : WInvD step g0 a.1 a.2) (hs : XWStep step a b) : WInvD step g0 b.1 b.2 := by
  cases hs with
  | net s s' x hx hcl hsp hcur hls =>
    have hxi : XInv (s, ⟨x.cur, x.R⟩) := h.sess
    have := XInv_step _ _ hxi hx
    exact WInvD_transfer step g0 s s' x h this hcl hsp hcur hls
  | tick s s' x now reqs' saves hadv hsaves => exact (WInvD_tick step g0 s s' x now reqs' saves h hadv hsaves).1
  | tick0 s s' x now sy r reqs' saves h0 hsv hadv hsaves =>
    exact (WInvD_tick0 step g0 s s' x now sy r reqs' saves h h0 hsv hadv hsaves).1

/-- **L-drop with a game.** -/
theorem WInvD_run {G : Type} (step : G → List (Input × InputStatus) → G) (g0 : G) (a b : P2P × GS G)
    (h : WInvD step g0 a.1 a.2) (hr : XWStar step a b) : WInvD step g0 b.1 b.2 := by
  induction hr with
  | refl => exact h
  | step b c _ hs ih => exact WInvD_step step g0 b c ih hs

/-- An old-style world invariant with no disconnect scheduled is a world invariant with drops. -/
theorem WInvD_of_WInv {G : Type} (step : G → List (Input × InputStatus) → G) (g0 : G) (s : P2P) (x : GS G)
    (h : WInv step g0 s x) (hdf : s.disconnectFrame = NULL_FRAME) : WInvD step g0 s x := by
  obtain ⟨gh, hs⟩ := h.sess
  exact ⟨⟨_, _, SessInvD_of_SessInv s gh _ [] hs hdf⟩, h.ncells, h.chk⟩

/-! ### checksum reports with dropped players -/

/-- `reported_is_replay` only reads the game-side half of the invariant. -/
theorem reported_is_replayD {G : Type} (step : G → List (Input × InputStatus) → G) (g0 : G) (csf : G → Option Nat)
    (s : P2P) (x : GS G) (hw : WInvD step g0 s x) (hck : CkRel csf s.sync.cells x) (interval : Nat) (cell : Cell)
    (hc : s.checksumCellToReport interval = .ok (some cell)) :
    0 ≤ cell.frame ∧ cell.frame ≤ s.sync.lastConfirmedFrame ∧ s.nextReportFrame interval ≤ cell.frame ∧
    cell.checksum = csf (replay step g0 x.R cell.frame.toNat) := by
  obtain ⟨i, hi, hget, h0, hle, hnext⟩ := checksumCell_mem s interval cell hw.ncells hc
  refine ⟨h0, hle, hnext, ?_⟩
  obtain ⟨c, _, hg, htags, hmode⟩ := hw.chk
  have htag : c.tag i = cell.frame := by rw [htags i hi, hget]
  have hvalid : c.valid i := by
    rcases hmode with ⟨_, hq, _⟩ | ⟨_, hq⟩
    · exact (hq.ok i hi (by rw [htag]; exact h0)).1
    · exact (hq.ok i hi (by rw [htag]; exact h0)).1
  obtain ⟨_, hcell⟩ := hg.cells i hi hvalid
  have := hck i hi (by rw [hget]; exact h0)
  rw [hget] at this
  rw [this, hcell, htag]

theorem WInvD_netOnly {G : Type} (step : G → List (Input × InputStatus) → G) (g0 : G) (s s' : P2P) (x : GS G)
    (h : WInvD step g0 s x) (hc : P2P.SameCore s s') : WInvD step g0 s' x := by
  obtain ⟨gh, st0, hs⟩ := h.sess
  exact WInvD_transfer step g0 s s' x h ⟨gh, st0, SessInvD_congr s s' gh _ [] st0 hs hc⟩
    (by rw [hc.sync]) hc.sparse (by rw [hc.sync]) (by rw [hc.sync])

/-- The world with drops, a deterministic game whose saves hand over the state's checksum, and the
desync bookkeeping as steps. -/
inductive CXStep {G : Type} (step : G → List (Input × InputStatus) → G) (csf : G → Option Nat) :
    (P2P × GS G) → (P2P × GS G) → Prop
  | net (s s' : P2P) (x : GS G) : XStep (s, ⟨x.cur, x.R⟩) (s', ⟨x.cur, x.R⟩) →
      s'.sync.cells = s.sync.cells → s'.sparse = s.sparse → s'.sync.currentFrame = s.sync.currentFrame →
      s'.sync.lastSavedFrame = s.sync.lastSavedFrame → CXStep step csf (s, x) (s', x)
  | report (s s' : P2P) (x : GS G) (now : Nat) : s.checkChecksumSendInterval now = .ok s' → CXStep step csf (s, x) (s', x)
  | compare (s : P2P) (x : GS G) : CXStep step csf (s, x) (s.compareLocalChecksumsAgainstPeers, x)
  | waitRec (s s' : P2P) (x : GS G) : s.checkWaitRecommendation = .ok s' → CXStep step csf (s, x) (s', x)
  | tick (s s' : P2P) (x : GS G) (now : Nat) (reqs' : List Request) :
      s.advanceRollbackFrame now [] = .ok (s', reqs') →
      CXStep step csf (s, x)
        (s'.userExecute (gameSaves step csf s.sync.cells.length x reqs'), execGs step s.sync.cells.length x reqs')
  | tick0 (s s' : P2P) (x : GS G) (now : Nat) (sy : SyncLayer) (r : Request) (reqs' : List Request) :
      s.sync.currentFrame = 0 → s.sync.saveCurrentState = .ok (sy, r) →
      ({ s with sync := sy } : P2P).advanceRollbackFrame now [r] = .ok (s', reqs') →
      CXStep step csf (s, x)
        (s'.userExecute (gameSaves step csf s.sync.cells.length x reqs'), execGs step s.sync.cells.length x reqs')

inductive CXStar {G : Type} (step : G → List (Input × InputStatus) → G) (csf : G → Option Nat) :
    (P2P × GS G) → (P2P × GS G) → Prop
  | refl (w) : CXStar step csf w w
  | step (a b c) : CXStar step csf a b → CXStep step csf b c → CXStar step csf a c

def CInvD {G : Type} (step : G → List (Input × InputStatus) → G) (g0 : G) (csf : G → Option Nat) (w : P2P × GS G) : Prop :=
  WInvD step g0 w.1 w.2 ∧ CkRel csf w.1.sync.cells w.2

theorem CInvD_step {G : Type} (step : G → List (Input × InputStatus) → G) (g0 : G) (csf : G → Option Nat)
    (a b : P2P × GS G) (h : CInvD step g0 csf a) (hs : CXStep step csf a b) : CInvD step g0 csf b := by
  obtain ⟨hd, hck⟩ := h
  cases hs with
  | net s s' x hx hcl hsp hcur hls =>
    exact ⟨WInvD_step step g0 _ _ hd (XWStep.net s s' x hx hcl hsp hcur hls),
      by show CkRel csf s'.sync.cells x; rw [hcl]; exact hck⟩
  | report s s' x now hrep =>
    obtain ⟨hc, _⟩ := report_fields s s' now hrep
    exact ⟨WInvD_netOnly step g0 s s' x hd hc, by show CkRel csf s'.sync.cells x; rw [hc.sync]; exact hck⟩
  | compare s x =>
    obtain ⟨hc, _⟩ := compare_fields s
    exact ⟨WInvD_netOnly step g0 s _ x hd hc,
      by show CkRel csf s.compareLocalChecksumsAgainstPeers.sync.cells x; rw [hc.sync]; exact hck⟩
  | waitRec s s' x hw =>
    obtain ⟨hc, _⟩ := waitRec_fields s s' hw
    exact ⟨WInvD_netOnly step g0 s s' x hd hc, by show CkRel csf s'.sync.cells x; rw [hc.sync]; exact hck⟩
  | tick s s' x now reqs' hadv =>
    have hfr := gameSaves_frames step csf s.sync.cells.length reqs' x
    obtain ⟨hw', ⟨c, c', _, hchk, _⟩, _⟩ := WInvD_tick step g0 s s' x now reqs' _ hd hadv hfr
    refine ⟨hw', ?_⟩
    have hcl : s'.sync.cells = s.sync.cells := by
      cases hsp : s.sparse with
      | false => obtain ⟨_, _, _, _, _, _, hc, _⟩ := tick_shape_ns s s' now [] reqs' hsp hadv; exact hc
      | true => obtain ⟨_, _, _, _, _, _, _, _, hc, _⟩ := tick_shape_sp s s' now [] reqs' hsp hadv; exact hc
    exact CkRel_tick step csf s' x _ reqs' (by rw [hcl]) hd.ncells (by rw [hcl]; exact hck)
      (chk_saved_nonneg _ c c' reqs' hchk)
  | tick0 s s' x now sy r reqs' hf0 hsv hadv =>
    have hfr := gameSaves_frames step csf s.sync.cells.length reqs' x
    obtain ⟨hw', ⟨c, c', _, hchk, _⟩, _⟩ := WInvD_tick0 step g0 s s' x now sy r reqs' _ hd hf0 hsv hadv hfr
    refine ⟨hw', ?_⟩
    obtain ⟨_, _, _, _, _, hcl0, _⟩ := save_fields _ _ _ hsv
    have hcl : s'.sync.cells = s.sync.cells := by
      have hsp0 : ({ s with sync := sy } : P2P).sparse = s.sparse := rfl
      cases hsp : s.sparse with
      | false =>
        obtain ⟨_, _, _, _, _, _, hc, _⟩ := tick_shape_ns ({ s with sync := sy } : P2P) s' now [r] reqs' (by rw [hsp0]; exact hsp) hadv
        rw [hc]; exact hcl0
      | true =>
        obtain ⟨_, _, _, _, _, _, _, _, hc, _⟩ := tick_shape_sp ({ s with sync := sy } : P2P) s' now [r] reqs' (by rw [hsp0]; exact hsp) hadv
        rw [hc]; exact hcl0
    exact CkRel_tick step csf s' x _ reqs' (by rw [hcl]) hd.ncells (by rw [hcl]; exact hck)
      (chk_saved_nonneg _ c c' reqs' hchk)

theorem CInvD_run {G : Type} (step : G → List (Input × InputStatus) → G) (g0 : G) (csf : G → Option Nat)
    (a b : P2P × GS G) (h : CInvD step g0 csf a) (hr : CXStar step csf a b) : CInvD step g0 csf b := by
  induction hr with
  | refl => exact h
  | step b c _ hs ih => exact CInvD_step step g0 csf b c ih hs

end Ggrs
