/-
L-synctest: a SyncTestSession driving a deterministic game never reports MismatchedChecksum.
-/
import GgrsModel.Proofs.World
import GgrsModel.Model.SyncTest

namespace Ggrs
open InputQueue

/-- The row of frame `f` when every player's input is there: real values, all Confirmed. -/
def rowOf (gh : Ghost) (N : Nat) (f : Nat) : List (Input × InputStatus) :=
  (List.range N).map fun p => ((gh.specs p).vals.getD f 0, InputStatus.confirmed)

theorem rowOf_length (gh : Ghost) (N f : Nat) : (rowOf gh N f).length = N := by simp [rowOf]

theorem rowOf_congr (gh gh' : Ghost) (N f : Nat)
    (h : ∀ p, p < N → (gh'.specs p).vals.getD f 0 = (gh.specs p).vals.getD f 0) : rowOf gh' N f = rowOf gh N f := by
  unfold rowOf
  apply List.map_congr_left
  intro p hp
  rw [h p (List.mem_range.mp hp)]

/-- With every input of frame `c` present, `synchronized_inputs` returns exactly the row. -/
theorem inputs_eq_row (pr : Predictor) (gh : Ghost) (N c : Nat) (ins : List (Input × InputStatus))
    (hlen : ins.length = N) (hok : InputsOk pr gh c ins) (hfull : ∀ p, p < N → c < (gh.specs p).vals.length) :
    ins = rowOf gh N c := by
  apply List.ext_getElem (by rw [hlen, rowOf_length])
  intro p h1 h2
  have hp : p < N := by rw [hlen] at h1; exact h1
  have hget : ins[p] = ins.getD p default := by simp [List.getD_eq_getElem?_getD, List.getElem?_eq_getElem h1]
  rcases hok p h1 with ⟨a, _, b⟩ | ⟨_, a, _⟩
  · simp only [rowOf, List.getElem_map, List.getElem_range]
    rw [hget]
    exact Prod.ext b a
  · have := hfull p hp; omega

theorem execReqs_saves (t : TLState) (mid : List Request) (h : ∀ r ∈ mid, ∃ f, r = .save f) : execReqs t mid = t := by
  induction mid generalizing t with
  | nil => rfl
  | cons r rest ih =>
    obtain ⟨f, hf⟩ := h r List.mem_cons_self
    simp only [execReqs, List.foldl_cons, hf, execReq]
    exact ih t (fun r hr => h r (List.mem_cons_of_mem _ hr))

theorem replay_congr {G : Type} (step : G → List (Input × InputStatus) → G) (g0 : G)
    (R R' : Nat → List (Input × InputStatus)) : ∀ k, (∀ j, j < k → R' j = R j) →
    replay step g0 R' k = replay step g0 R k := by
  intro k
  induction k with
  | zero => intro _; rfl
  | succ k ih =>
    intro h
    simp only [replay]
    rw [ih (fun j hj => h j (by omega)), h k (by omega)]

end Ggrs

namespace Ggrs
open InputQueue

/-- The re-simulation as the game sees it: for every frame an optional save of that frame and the
advance with the intended row. -/
def STShape (Rt : Nat → List (Input × InputStatus)) : Nat → Int → Nat → List Request → Prop
  | _, _, 0, L => L = []
  | i, c, n + 1, L => ∃ L', L = (if i > 0 then [Request.save c] else []) ++ [.advance (Rt c.toNat)] ++ L' ∧
      STShape Rt (i + 1) (c + 1) n L'

theorem rowOf_specs (gh gh' : Ghost) (N : Nat) (h : gh'.specs = gh.specs) : rowOf gh' N = rowOf gh N := by
  funext f; exact rowOf_congr gh gh' N f (fun p _ => by rw [h])

theorem st_resimSave_shape (i : Nat) (sy sy' : SyncLayer) (reqs reqs' : List Request)
    (h : SyncTest.resimSave i sy reqs = .ok (sy', reqs')) :
    ∃ mid, reqs' = reqs ++ mid ∧ (mid = [] ∨ mid = [.save sy.currentFrame]) ∧
      ((i = 0 → mid = []) ∧ (i > 0 → mid = [.save sy.currentFrame])) ∧
      sy'.currentFrame = sy.currentFrame ∧ sy'.cells = sy.cells ∧ sy'.queues = sy.queues := by
  unfold SyncTest.resimSave at h
  by_cases hi : i > 0
  · rw [if_pos hi] at h
    obtain ⟨r3, hs3, h⟩ := bind_ok h
    obtain ⟨sy3, rq⟩ := r3
    simp only at h
    have := pure_ok h
    simp only [Prod.mk.injEq] at this
    obtain ⟨hr, _, hc, hcl, hq⟩ := save_shape sy sy3 rq hs3
    exact ⟨[.save sy.currentFrame], by rw [← this.2, hr], Or.inr rfl, ⟨fun h0 => by omega, fun _ => rfl⟩,
      by rw [← this.1, hc], by rw [← this.1, hcl], by rw [← this.1, hq]⟩
  · rw [if_neg hi] at h
    have := pure_ok h
    simp only [Prod.mk.injEq] at this
    exact ⟨[], by rw [← this.2]; simp, Or.inl rfl, ⟨fun _ => rfl, fun h0 => absurd h0 hi⟩,
      by rw [← this.1], by rw [← this.1], by rw [← this.1]⟩

/-- The re-simulation loop of a sync test: the invariant, the shape of the requests, and every
re-simulated row is the full row of real inputs. -/
theorem st_resim_loop (s : SyncTest) (t0 : TLState) (N : Nat) (cmax : Int) : ∀ (n i : Nat) (sy : SyncLayer)
    (reqs : List Request) (sy' : SyncLayer) (reqs' : List Request) (gh : Ghost),
    TInv s.pred sy s.dummyConnectStatus gh t0 reqs → sy.queues.length = N →
    (∀ p, p < N → cmax ≤ (gh.specs p).vals.length) → sy.currentFrame + (n : Int) ≤ cmax →
    (∀ f : Nat, (f : Int) < sy.currentFrame → (execReqs t0 reqs).R f = rowOf gh N f) →
    SyncTest.adjustGamestate.loop s n i sy reqs = .ok (sy', reqs') →
    ∃ gh' : Ghost, TInv s.pred sy' s.dummyConnectStatus gh' t0 reqs' ∧ gh'.specs = gh.specs ∧
      sy'.currentFrame = sy.currentFrame + n ∧ sy'.queues.length = N ∧ sy'.cells = sy.cells ∧
      (∀ f : Nat, (f : Int) < sy'.currentFrame → (execReqs t0 reqs').R f = rowOf gh N f) ∧
      (n > 0 → AllAsked sy'.queues sy'.currentFrame ∧
        ∀ p, p < sy'.queues.length → (rget sy'.queues p).firstIncorrectFrame = NULL_FRAME) ∧
      ∃ L, reqs' = reqs ++ L ∧ ResimShape false i sy.currentFrame n L ∧ STShape (rowOf gh N) i sy.currentFrame n L := by
  intro n
  induction n with
  | zero =>
    intro i sy reqs sy' reqs' gh h hN _ _ hrows hl
    simp only [SyncTest.adjustGamestate.loop] at hl
    cases hl
    exact ⟨gh, h, rfl, by simp, hN, rfl, hrows, fun h0 => absurd h0 (by omega), [], by simp, rfl, rfl⟩
  | succ k ih =>
    intro i sy reqs sy' reqs' gh h hN hfull hbound hrows hl
    simp only [SyncTest.adjustGamestate.loop] at hl
    obtain ⟨r1, hsim, hl⟩ := bind_ok hl
    obtain ⟨sy1, inputs⟩ := r1
    simp only at hl
    obtain ⟨r2, hsave, hl⟩ := bind_ok hl
    obtain ⟨sy2, reqs2⟩ := r2
    simp only at hl
    obtain ⟨mid, hr2, hmid, hns, hc2, hcl2, hq2⟩ := st_resimSave_shape i sy1 sy2 reqs reqs2 hsave
    have hmidsave : ∀ r ∈ mid, ∃ f, r = .save f := by
      intro r hr
      rcases hmid with hm | hm
      · rw [hm] at hr; cases hr
      · rw [hm] at hr; simp only [List.mem_singleton] at hr; exact ⟨_, hr⟩
    obtain ⟨c, gh1, hc0, hok, hsp1, hinv1, hcur1, hask1, hclean1⟩ :=
      TInv_simulate s.pred sy sy1 sy2 s.dummyConnectStatus gh t0 reqs mid inputs h hsim hmidsave hq2 hc2
    obtain ⟨_, _, _, _, hql1, hinl, hcells1, _, _, _, hcf1, _⟩ :=
      SyncInv_simulate s.pred sy sy1 s.dummyConnectStatus gh inputs h.sync hsim
    -- the row just simulated is the full row
    have hrow : inputs = rowOf gh N c := by
      apply inputs_eq_row s.pred gh N c inputs (by rw [hinl, hN]) hok
      intro p hp
      have := hfull p hp
      have hcn : (c : Int) < cmax := by rw [← hc0]; push_cast at hbound; omega
      omega
    rw [hr2] at hl
    have hN1 : sy2.advanceFrame.queues.length = N := by
      show sy2.queues.length = N; rw [hq2, hql1]; exact hN
    have hrows1 : ∀ f : Nat, (f : Int) < sy2.advanceFrame.currentFrame →
        (execReqs t0 (reqs ++ mid ++ [.advance inputs])).R f = rowOf gh1 N f := by
      intro f hf
      rw [hcur1, hc0] at hf
      have hR : (execReqs t0 (reqs ++ mid ++ [.advance inputs])).R = upd (execReqs t0 reqs).R c inputs := by
        rw [execReqs_append, execReqs_append, execReqs_saves _ mid hmidsave]
        simp only [execReqs, List.foldl_cons, List.foldl_nil, execReq]
        have : (List.foldl execReq t0 reqs).cur = (c : Int) := by
          have := h.exec; simp only [execReqs] at this; rw [this, hc0]
        rw [this]; simp
      rw [hR, rowOf_congr gh gh1 N f (fun p _ => by rw [hsp1])]
      by_cases hfc : f = c
      · subst hfc; rw [upd_self, hrow]
      · rw [upd_ne _ _ _ _ hfc]
        exact hrows f (by rw [hc0]; omega)
    obtain ⟨gh', hinv', hsp', hcur', hN', hcl', hrows', hrest, L', hL', hsh', hst'⟩ :=
      ih (i + 1) sy2.advanceFrame _ sy' reqs' gh1 hinv1 hN1 (fun p hp => by rw [hsp1]; exact hfull p hp)
        (by rw [hcur1]; push_cast at hbound; omega) hrows1 hl
    refine ⟨gh', hinv', by rw [hsp', hsp1], by rw [hcur', hcur1]; push_cast; omega, hN',
      by rw [hcl']; show sy2.cells = _; rw [hcl2, hcells1], ?_, fun _ => ?_, mid ++ [.advance inputs] ++ L', ?_, ?_, ?_⟩
    · intro f hf
      rw [hrows' f hf, rowOf_congr gh gh1 N f (fun p _ => by rw [hsp1])]
    · by_cases hk : k > 0
      · exact hrest hk
      · have hk0 : k = 0 := by omega
        subst hk0
        simp only [SyncTest.adjustGamestate.loop] at hl
        cases hl
        exact ⟨hask1, hclean1⟩
    · rw [hL']; simp
    · refine ⟨mid, inputs, L', rfl, by rw [hcf1] at hmid; exact hmid, fun _ => by rw [hcf1] at hns; exact hns, ?_⟩
      have : sy2.advanceFrame.currentFrame = sy.currentFrame + 1 := hcur1
      rw [← this]; exact hsh'
    · have hcc : sy2.advanceFrame.currentFrame = sy.currentFrame + 1 := hcur1
      rw [hcc, rowOf_specs gh gh1 N hsp1] at hst'
      refine ⟨L', ?_, hst'⟩
      have hcn : sy.currentFrame.toNat = c := by rw [hc0]; simp
      rw [hcn, ← hrow]
      by_cases hi : i > 0
      · rw [if_pos hi, hns.2 hi, hcf1]
      · rw [if_neg hi, hns.1 (by omega)]

end Ggrs

namespace Ggrs
open InputQueue

/-- `adjust_gamestate` of a sync test: load `frame_to`, re-simulate back to the current frame. -/
theorem st_adjust_spec (s s' : SyncTest) (frameTo : Frame) (t0 : TLState) (reqs reqs' : List Request) (gh : Ghost)
    (N : Nat) (h : TInv s.pred s.sync s.dummyConnectStatus gh t0 reqs) (hN : s.sync.queues.length = N)
    (hfull : ∀ p, p < N → s.sync.currentFrame ≤ (gh.specs p).vals.length)
    (hclean : ∀ p, p < s.sync.queues.length → (rget s.sync.queues p).firstIncorrectFrame = NULL_FRAME)
    (hrows : ∀ f : Nat, (f : Int) < s.sync.currentFrame → (execReqs t0 reqs).R f = rowOf gh N f)
    (hadj : s.adjustGamestate frameTo reqs = .ok (s', reqs')) :
    ∃ gh' : Ghost, TInv s.pred s'.sync s.dummyConnectStatus gh' t0 reqs' ∧ gh'.specs = gh.specs ∧
      s' = { s with sync := s'.sync } ∧ s'.sync.currentFrame = s.sync.currentFrame ∧ s'.sync.queues.length = N ∧
      s'.sync.cells = s.sync.cells ∧
      (∀ f : Nat, (f : Int) < s'.sync.currentFrame → (execReqs t0 reqs').R f = rowOf gh N f) ∧
      AllAsked s'.sync.queues s'.sync.currentFrame ∧
      (∀ p, p < s'.sync.queues.length → (rget s'.sync.queues p).firstIncorrectFrame = NULL_FRAME) ∧
      0 ≤ frameTo ∧ frameTo < s.sync.currentFrame ∧
      (rget s.sync.cells (frameTo.toNat % s.sync.cells.length)).frame = frameTo ∧
      ∃ L, reqs' = reqs ++ [.load frameTo] ++ L ∧ ResimShape false 0 frameTo (s.sync.currentFrame - frameTo).toNat L ∧
        STShape (rowOf gh N) 0 frameTo (s.sync.currentFrame - frameTo).toNat L := by
  unfold SyncTest.adjustGamestate at hadj
  simp only at hadj
  obtain ⟨p1, hload, hadj⟩ := bind_ok hadj
  obtain ⟨sy1, req⟩ := p1
  simp only at hadj
  obtain ⟨_, hadj⟩ := ensure_bind_ok hadj
  obtain ⟨p2, hloop, hadj⟩ := bind_ok hadj
  obtain ⟨sy2, reqs2⟩ := p2
  simp only at hadj
  obtain ⟨hback, hadj⟩ := ensure_bind_ok hadj
  have := pure_ok hadj
  simp only [Prod.mk.injEq] at this
  obtain ⟨hs', hreqs'⟩ := this
  obtain ⟨hsy1, hreq, hlt, h0⟩ := loadFrame_fields s.sync sy1 frameTo req hload
  -- the tag check of load_frame
  have htag : (rget s.sync.cells (frameTo.toNat % s.sync.cells.length)).frame = frameTo := by
    unfold SyncLayer.loadFrame at hload
    obtain ⟨_, hload⟩ := ensure_bind_ok hload
    obtain ⟨_, hload⟩ := ensure_bind_ok hload
    obtain ⟨_, hload⟩ := ensure_bind_ok hload
    obtain ⟨pos, hpos, hload⟩ := bind_ok hload
    obtain ⟨ht, _⟩ := ensure_bind_ok hload
    unfold SyncLayer.cellPos at hpos
    obtain ⟨_, hpos⟩ := ensure_bind_ok hpos
    have hp := pure_ok hpos
    have : pos = frameTo.toNat % s.sync.cells.length := by rw [← hp]; simp [frameIdx, usizeOfFrame, h0]
    rw [← this]; simpa using ht
  have hq : sy1.resetPrediction.queues = s.sync.queues.map InputQueue.resetPrediction := by rw [hsy1]; rfl
  have hc : sy1.resetPrediction.currentFrame = frameTo := by rw [hsy1]; rfl
  have hcells1 : sy1.resetPrediction.cells = s.sync.cells := by rw [hsy1]; rfl
  have hinv1 : TInv s.pred sy1.resetPrediction s.dummyConnectStatus { gh with hists := fun _ => [] } t0 (reqs ++ [req]) := by
    refine ⟨⟨by rw [hc]; exact h0, by rw [hq, List.length_map]; exact h.sync.nq, h.sync.conn, ?_⟩, ?_, ?_⟩
    · intro p hp
      rw [hq, List.length_map] at hp
      rw [hq, rget_map_lt _ _ _ hp, hc]
      exact QI_reset s.pred _ _ _ _ _ frameTo (h.sync.all p hp) (Int.le_of_lt hlt)
        (fun hne => absurd (hclean p hp) hne)
    · rw [execReqs_append, hreq, hc]; rfl
    · intro p hp f
      rw [hq, List.length_map] at hp
      rw [execReqs_append, hreq]
      exact h.rows p hp f
  have hrows1 : ∀ f : Nat, (f : Int) < sy1.resetPrediction.currentFrame →
      (execReqs t0 (reqs ++ [req])).R f = rowOf ({ gh with hists := fun _ => [] } : Ghost) N f := by
    intro f hf
    rw [hc] at hf
    rw [execReqs_append, hreq]
    exact hrows f (by omega)
  obtain ⟨gh', hinv', hsp', hcur', hN', hcl', hrows', hrest, L, hL, hsh, hst⟩ :=
    st_resim_loop s t0 N s.sync.currentFrame _ 0 _ _ sy2 reqs2 _ hinv1 (by rw [hq, List.length_map]; exact hN)
      hfull (by rw [hc]; omega) hrows1 hloop
  have hcnt : (s.sync.currentFrame - frameTo).toNat > 0 := by omega
  obtain ⟨hask, hcl⟩ := hrest hcnt
  have hcur2 : sy2.currentFrame = s.sync.currentFrame := by simpa using hback
  rw [hc] at hsh hst
  subst hs'
  subst hreqs'
  refine ⟨gh', hinv', by rw [hsp'], rfl, hcur2, hN', by show sy2.cells = _; rw [hcl', hcells1], ?_, hask, hcl, h0, hlt, htag,
    L, by rw [hL, hreq], hsh, hst⟩
  intro f hf
  exact hrows' f hf

end Ggrs

namespace Ggrs

/-! ### generic association-list facts -/

theorem alookup_filter_key {β} (keep : Int → Bool) (f : Int) : ∀ (l : List (Int × β)),
    alookup f (l.filter fun p => keep p.1) = if keep f then alookup f l else none := by
  intro l
  induction l with
  | nil => simp [alookup]
  | cons x xs ih =>
    obtain ⟨k, v⟩ := x
    simp only [List.filter_cons]
    by_cases hk : keep k = true
    · simp only [hk, if_true, alookup]
      by_cases hkf : (k == f) = true
      · have : k = f := by simpa using hkf
        subst this
        simp [hk]
      · simp only [hkf, Bool.false_eq_true, if_false]; exact ih
    · simp only [hk, Bool.false_eq_true, if_false, alookup]
      by_cases hkf : (k == f) = true
      · have : k = f := by simpa using hkf
        subst this
        simp only [hk, Bool.false_eq_true, if_false] at ih ⊢
        exact ih
      · simp only [hkf, Bool.false_eq_true, if_false]; exact ih

theorem alookup_ainsert_self' {β} (k : Int) (v : β) : ∀ (l : List (Int × β)), alookup k (ainsert k v l) = some v := by
  intro l
  induction l with
  | nil => simp [ainsert, alookup]
  | cons x xs ih =>
    obtain ⟨k', v'⟩ := x
    simp only [ainsert]
    by_cases h1 : k < k'
    · simp [h1, alookup]
    · simp only [h1, if_false]
      by_cases h2 : (k == k') = true
      · simp [h2, alookup]
      · simp only [h2, Bool.false_eq_true, if_false, alookup]
        have : (k' == k) = false := by
          simp only [beq_eq_false_iff_ne, ne_eq]
          intro h; apply h2; simp [h]
        simp [this, ih]

theorem alookup_ainsert_ne' {β} (k j : Int) (v : β) (hj : j ≠ k) : ∀ (l : List (Int × β)),
    alookup j (ainsert k v l) = alookup j l := by
  intro l
  induction l with
  | nil =>
    have : (k == j) = false := by simp only [beq_eq_false_iff_ne, ne_eq]; exact fun h => hj h.symm
    simp [ainsert, alookup, this]
  | cons x xs ih =>
    obtain ⟨k', v'⟩ := x
    have hkj : (k == j) = false := by simp only [beq_eq_false_iff_ne, ne_eq]; exact fun h => hj h.symm
    simp only [ainsert]
    by_cases h1 : k < k'
    · simp [h1, alookup, hkj]
    · simp only [h1, if_false]
      by_cases h2 : (k == k') = true
      · have hk : k = k' := by simpa using h2
        have : (k' == j) = false := by rw [← hk]; exact hkj
        simp [h2, alookup, hkj, this]
      · simp only [h2, Bool.false_eq_true, if_false, alookup, ih]

/-- The history of first-sighted checksums against the game: every remembered checksum is the
checksum of the replay of the timeline up to that frame. -/
def HistOk {G : Type} (step : G → List (Input × InputStatus) → G) (g0 : G) (csf : G → Option Nat)
    (hist : List (Int × Option Nat)) (R : Nat → List (Input × InputStatus)) (cur : Int) : Prop :=
  ∀ f c, alookup f hist = some c → 0 ≤ f ∧ f ≤ cur ∧ c = csf (replay step g0 R f.toNat)

/-- The cells against the game: every written cell is tagged with a non-negative frame, holds the
replay up to that frame, and carries its checksum. -/
def CellsOk {G : Type} (step : G → List (Input × InputStatus) → G) (g0 : G) (csf : G → Option Nat)
    (cells : List Cell) (R : Nat → List (Input × InputStatus)) : Prop :=
  ∀ i, i < cells.length → 0 ≤ (rget cells i).frame →
    (rget cells i).checksum = csf (replay step g0 R (rget cells i).frame.toNat)

/-- **One comparison never fails.** -/
theorem checksumsConsistent_true {G : Type} (step : G → List (Input × InputStatus) → G) (g0 : G)
    (csf : G → Option Nat) (s s' : SyncTest) (f : Frame) (ok : Bool) (R : Nat → List (Input × InputStatus))
    (cur : Int) (hh : HistOk step g0 csf s.checksumHistory R cur) (hc : CellsOk step g0 csf s.sync.cells R)
    (hn : 0 < s.sync.cells.length) (htle : ∀ i, i < s.sync.cells.length → (rget s.sync.cells i).frame ≤ cur)
    (h : s.checksumsConsistent f = .ok (s', ok)) :
    ok = true ∧ HistOk step g0 csf s'.checksumHistory R cur ∧ s'.sync = s.sync ∧ s'.pred = s.pred ∧
    s'.dummyConnectStatus = s.dummyConnectStatus ∧ s'.checkDistance = s.checkDistance ∧
    s'.numPlayers = s.numPlayers ∧ s'.localInputs = s.localInputs ∧ s'.maxPrediction = s.maxPrediction := by
  unfold SyncTest.checksumsConsistent at h
  simp only at h
  -- pruning keeps the invariant
  have hh1 : HistOk step g0 csf (s.checksumHistory.filter fun p => decide (p.1 ≥ s.sync.currentFrame - (s.checkDistance : Int))) R cur := by
    intro f' c' hl
    rw [alookup_filter_key (fun k => decide (k ≥ s.sync.currentFrame - (s.checkDistance : Int)))] at hl
    split at hl
    · exact hh f' c' hl
    · cases hl
  obtain ⟨r, hsv, h⟩ := bind_ok h
  unfold SyncLayer.savedStateByFrame at hsv
  obtain ⟨pos, hpos, hsv⟩ := bind_ok hsv
  have hr := pure_ok hsv
  unfold SyncLayer.cellPos at hpos
  obtain ⟨h0, hpos⟩ := ensure_bind_ok hpos
  have hp := pure_ok hpos
  have hf0 : 0 ≤ f := by simpa using h0
  have hposlt : pos < s.sync.cells.length := by
    rw [← hp]; exact Nat.mod_lt _ hn
  subst hr
  by_cases hcf : ((rget s.sync.cells pos).frame == f) = true
  · -- the cell holds the frame
    simp only [hcf, if_true] at h
    have hfr : (rget s.sync.cells pos).frame = f := by simpa using hcf
    have hsum := hc pos hposlt (by rw [hfr]; exact hf0)
    rw [hfr] at hsum
    cases hlk : alookup (rget s.sync.cells pos).frame
        (s.checksumHistory.filter fun p => decide (p.1 ≥ s.sync.currentFrame - (s.checkDistance : Int))) with
    | some cs =>
      simp only [hlk] at h
      have := pure_ok h
      simp only [Prod.mk.injEq] at this
      obtain ⟨hs', hok⟩ := this
      have hcs := (hh1 _ cs hlk).2.2
      rw [hfr] at hcs
      refine ⟨?_, by rw [← hs']; exact hh1, by rw [← hs'], by rw [← hs'], by rw [← hs'], by rw [← hs'], by rw [← hs'],
        by rw [← hs'], by rw [← hs']⟩
      rw [← hok, hcs, hsum]; simp
    | none =>
      simp only [hlk] at h
      have := pure_ok h
      simp only [Prod.mk.injEq] at this
      obtain ⟨hs', hok⟩ := this
      refine ⟨hok.symm, ?_, by rw [← hs'], by rw [← hs'], by rw [← hs'], by rw [← hs'], by rw [← hs'],
        by rw [← hs'], by rw [← hs']⟩
      rw [← hs']
      intro f' c' hl
      simp only at hl
      by_cases hff : f' = (rget s.sync.cells pos).frame
      · rw [hff, alookup_ainsert_self'] at hl
        cases hl
        rw [hff, hfr]
        exact ⟨hf0, by rw [← hfr]; exact htle pos hposlt, hsum⟩
      · rw [alookup_ainsert_ne' _ _ _ hff] at hl
        exact hh1 f' c' hl
  · simp only [hcf, Bool.false_eq_true, if_false] at h
    have := pure_ok h
    simp only [Prod.mk.injEq] at this
    obtain ⟨hs', hok⟩ := this
    exact ⟨hok.symm, by rw [← hs']; exact hh1, by rw [← hs'], by rw [← hs'], by rw [← hs'], by rw [← hs'], by rw [← hs'],
      by rw [← hs'], by rw [← hs']⟩

/-- The whole comparison loop finds nothing. -/
theorem checkFrames_none {G : Type} (step : G → List (Input × InputStatus) → G) (g0 : G)
    (csf : G → Option Nat) (R : Nat → List (Input × InputStatus)) (oldest : Frame) (cur : Int) :
    ∀ (n i : Nat) (s s' : SyncTest) (mis mis' : List Frame),
    HistOk step g0 csf s.checksumHistory R cur → CellsOk step g0 csf s.sync.cells R → 0 < s.sync.cells.length →
    (∀ i, i < s.sync.cells.length → (rget s.sync.cells i).frame ≤ cur) →
    SyncTest.checkFrames oldest n i s mis = .ok (s', mis') →
    mis' = mis ∧ HistOk step g0 csf s'.checksumHistory R cur ∧ s'.sync = s.sync ∧ s'.pred = s.pred ∧
    s'.dummyConnectStatus = s.dummyConnectStatus ∧ s'.checkDistance = s.checkDistance ∧
    s'.numPlayers = s.numPlayers ∧ s'.localInputs = s.localInputs ∧ s'.maxPrediction = s.maxPrediction := by
  intro n
  induction n with
  | zero =>
    intro i s s' mis mis' hh _ _ _ h
    simp only [SyncTest.checkFrames] at h
    cases h
    exact ⟨rfl, hh, rfl, rfl, rfl, rfl, rfl, rfl, rfl⟩
  | succ k ih =>
    intro i s s' mis mis' hh hc hn htle h
    simp only [SyncTest.checkFrames] at h
    obtain ⟨r, hcc, h⟩ := bind_ok h
    obtain ⟨s1, ok⟩ := r
    simp only at h
    obtain ⟨hok, hh1, hs1, a1, a2, a3, a4, a5, a6⟩ := checksumsConsistent_true step g0 csf s s1 _ ok R cur hh hc hn htle hcc
    subst hok
    simp only [Bool.not_true, Bool.false_eq_true, if_false] at h
    obtain ⟨b0, b1, b2, b3, b4, b5, b6, b7, b8⟩ := ih (i + 1) s1 s' mis mis' hh1 (by rw [hs1]; exact hc) (by rw [hs1]; exact hn)
      (by rw [hs1]; exact htle) h
    exact ⟨b0, b1, b2.trans hs1, b3.trans a1, b4.trans a2, b5.trans a3, b6.trans a4, b7.trans a5, b8.trans a6⟩

end Ggrs

namespace Ggrs
open InputQueue

/-- `set_last_confirmed_frame` at the sync-layer level. -/
theorem setLastConfirmed_sync (pr : Predictor) (sy sy' : SyncLayer) (statuses : List ConnStatus) (gh : Ghost)
    (t0 : TLState) (reqs : List Request) (frame : Frame) (sp : Bool)
    (h : TInv pr sy statuses gh t0 reqs) (hask : AllAsked sy.queues sy.currentFrame)
    (hle : ∀ p, p < sy.queues.length → frame - 1 < (rget sy.queues p).lastAddedFrame)
    (hset : sy.setLastConfirmedFrame frame sp = .ok sy') :
    TInv pr sy' statuses gh t0 reqs ∧ AllAsked sy'.queues sy'.currentFrame ∧ sy'.currentFrame = sy.currentFrame ∧
    sy'.queues.length = sy.queues.length ∧ sy'.cells = sy.cells ∧
    (∀ p, p < sy'.queues.length → (rget sy'.queues p).firstIncorrectFrame = (rget sy.queues p).firstIncorrectFrame) := by
  unfold SyncLayer.setLastConfirmedFrame at hset
  simp only at hset
  have hfrle : min (if sp = true then min frame sy.lastSavedFrame else frame) sy.currentFrame ≤ frame := by
    split
    · exact Int.le_trans (Int.min_le_left _ _) (Int.min_le_left _ _)
    · exact Int.min_le_left _ _
  generalize (min (if sp = true then min frame sy.lastSavedFrame else frame) sy.currentFrame) = fr at hset hfrle
  obtain ⟨_, hset⟩ := ensure_bind_ok hset
  by_cases hpos : fr > 0
  · simp only [hpos, if_true] at hset
    obtain ⟨qs, hmap, hset⟩ := bind_ok hset
    have := pure_ok hset
    subst this
    obtain ⟨hl, hpt⟩ := mapM_ok _ _ _ hmap
    have hstep : ∀ p, p < sy.queues.length →
        QI pr (rget qs p) (gh.specs p) (gh.hists p) (gh.T p) sy.currentFrame ∧ Asked (rget qs p) sy.currentFrame ∧
        (rget qs p).firstIncorrectFrame = (rget sy.queues p).firstIncorrectFrame := by
      intro p hp
      have hd := hpt p hp
      have hlt : fr - 1 < (rget sy.queues p).lastAddedFrame := by have := hle p hp; omega
      obtain ⟨hqi, hask'⟩ := QI_discard pr _ _ _ _ _ _ (fr - 1) (h.sync.all p hp) (hask p hp) hlt hd
      exact ⟨hqi, hask', (discard_fields _ _ _ hd).2.1⟩
    refine ⟨⟨⟨h.sync.cur, by show _ = qs.length; rw [hl]; exact h.sync.nq, h.sync.conn, ?_⟩, h.exec, ?_⟩, ?_, rfl, hl, rfl, ?_⟩
    · intro p hp; exact (hstep p (by rw [← hl]; exact hp)).1
    · intro p hp f; exact h.rows p (by rw [← hl]; exact hp) f
    · intro p hp; exact (hstep p (by rw [← hl]; exact hp)).2.1
    · intro p hp; exact (hstep p (by rw [← hl]; exact hp)).2.2
  · simp only [hpos, if_false] at hset
    have := pure_ok hset
    subst this
    exact ⟨⟨SyncInv_congr h.sync rfl rfl, h.exec, h.rows⟩, hask, rfl, rfl, rfl, fun _ _ => rfl⟩

/-- A stream that has the current frame's submission in. -/
def Submitted (s : QSpec) (cur : Int) : Prop := s.lastUser = cur ∧ cur + 1 ≤ (s.vals.length : Int)

theorem submit_state (s : QSpec) (cur : Int) (v : Input) (h0 : 0 ≤ cur) :
    (s.lastUser = cur - 1 → Submitted (s.submit cur v).1 cur) ∧
    (Submitted s cur → Submitted (s.submit cur v).1 cur) := by
  constructor
  · intro h1
    unfold QSpec.submit
    have hseq : (s.lastUser != -1 && cur != s.lastUser + 1) = false := by rw [h1]; simp
    simp only [hseq, Bool.false_eq_true, if_false]
    by_cases hpast : (s.vals.length : Int) > cur + (s.delay : Int)
    · simp only [hpast, if_true]
      exact ⟨rfl, by show cur + 1 ≤ (s.vals.length : Int); omega⟩
    · simp only [hpast, if_false]
      refine ⟨rfl, ?_⟩
      show cur + 1 ≤ ((s.vals ++ List.replicate (cur + (s.delay : Int) - (s.vals.length : Int)).toNat s.lastVal ++ [v]).length : Int)
      simp only [List.length_append, List.length_replicate, List.length_cons, List.length_nil]
      push_cast; omega
  · intro ⟨h1, h2⟩
    unfold QSpec.submit
    have hseq : (s.lastUser != -1 && cur != s.lastUser + 1) = true := by
      rw [h1]
      have : cur ≠ -1 := by omega
      have h3 : ¬ cur = cur + 1 := by omega
      simp [this, h3]
    simp only [hseq, if_true]
    exact ⟨h1, h2⟩

/-- The streams after the local inputs of one tick: every player that submitted has its input for
the current frame in (or the stream was already past it). -/
theorem addLocalInputs_spec (pr : Predictor) (statuses : List ConnStatus) (t0 : TLState) (reqs : List Request) :
    ∀ (l : List (Nat × PlayerInput)) (sy sy' : SyncLayer) (gh : Ghost),
    TInv pr sy statuses gh t0 reqs → AllAsked sy.queues sy.currentFrame →
    (∀ p, p < sy.queues.length → (gh.specs p).lastUser = sy.currentFrame - 1 ∨ Submitted (gh.specs p) sy.currentFrame) →
    SyncTest.addLocalInputs l sy = .ok sy' →
    ∃ gh' : Ghost, TInv pr sy' statuses gh' t0 reqs ∧ AllAsked sy'.queues sy'.currentFrame ∧ gh'.T = gh.T ∧
      sy'.currentFrame = sy.currentFrame ∧ sy'.queues.length = sy.queues.length ∧ sy'.cells = sy.cells ∧
      sy'.lastSavedFrame = sy.lastSavedFrame ∧
      (∀ p, (gh.specs p).vals.length ≤ (gh'.specs p).vals.length ∧
        ∀ f, f < (gh.specs p).vals.length → (gh'.specs p).vals.getD f 0 = (gh.specs p).vals.getD f 0) ∧
      (∀ p, p < sy.queues.length → (gh'.specs p).lastUser = sy.currentFrame - 1 ∨ Submitted (gh'.specs p) sy.currentFrame) ∧
      (∀ p, p < sy.queues.length → Submitted (gh.specs p) sy.currentFrame → Submitted (gh'.specs p) sy.currentFrame) ∧
      (∀ p inp, (p, inp) ∈ l → p < sy.queues.length → Submitted (gh'.specs p) sy.currentFrame) := by
  intro l
  induction l with
  | nil =>
    intro sy sy' gh h hask hlu hadd
    simp only [SyncTest.addLocalInputs] at hadd
    cases hadd
    exact ⟨gh, h, hask, rfl, rfl, rfl, rfl, rfl, (fun p => ⟨Nat.le_refl _, fun _ _ => rfl⟩), hlu, (fun _ _ hs => hs),
      (fun p inp hin _ => by cases hin)⟩
  | cons x xs ih =>
    intro sy sy' gh h hask hlu hadd
    obtain ⟨hd, inp⟩ := x
    simp only [SyncTest.addLocalInputs] at hadd
    obtain ⟨r, hadd1, hadd⟩ := bind_ok hadd
    obtain ⟨sy1, fr⟩ := r
    simp only at hadd
    unfold SyncLayer.addLocalInput at hadd1
    obtain ⟨hfr0, hadd1⟩ := ensure_bind_ok hadd1
    have hinpf : inp.frame = sy.currentFrame := by simpa using hfr0
    obtain ⟨hpl, hadd1⟩ := ensure_bind_ok hadd1
    have hp : hd < sy.queues.length := of_decide_eq_true hpl
    obtain ⟨r2, haq, hadd1⟩ := bind_ok hadd1
    obtain ⟨q', fr2⟩ := r2
    simp only at hadd1
    have := pure_ok hadd1
    simp only [Prod.mk.injEq] at this
    obtain ⟨hsy1, _⟩ := this
    have haq' : (rget sy.queues hd).addInput ⟨inp.frame, inp.input⟩ = .ok (q', fr2) := haq
    obtain ⟨hqi, hask1, _⟩ := QI_add pr _ q' _ _ _ _ inp.frame inp.input fr2 (h.sync.all hd hp) (hask hd hp) haq'
    let gh1 : Ghost := { gh with specs := fun i => if i = hd then ((gh.specs hd).submit inp.frame inp.input).1 else gh.specs i }
    have hlen1 : (rset sy.queues hd q').length = sy.queues.length := rset_length _ _ _
    have hinv1 : TInv pr sy1 statuses gh1 t0 reqs := by
      rw [← hsy1]
      refine ⟨⟨h.sync.cur, by show _ = (rset sy.queues hd q').length; rw [hlen1]; exact h.sync.nq, h.sync.conn, ?_⟩, h.exec, ?_⟩
      · intro i hi
        show QI pr (rget (rset sy.queues hd q') i) _ _ _ _
        rw [hlen1] at hi
        by_cases hie : i = hd
        · subst hie
          simp only [gh1, if_true]
          rw [rget_rset_eq _ _ _ hi]; exact hqi
        · simp only [gh1, hie, if_false]
          rw [rget_rset_ne _ _ _ _ (fun h => hie h.symm)]; exact h.sync.all i hi
      · intro i hi f
        exact h.rows i (by rw [← hlen1]; exact hi) f
    have hask1' : AllAsked sy1.queues sy1.currentFrame := by
      rw [← hsy1]
      intro i hi
      show Asked (rget (rset sy.queues hd q') i) _
      rw [hlen1] at hi
      by_cases hie : i = hd
      · subst hie; rw [rget_rset_eq _ _ _ hi]; exact hask1
      · rw [rget_rset_ne _ _ _ _ (fun h => hie h.symm)]; exact hask i hi
    have hc1 : sy1.currentFrame = sy.currentFrame := by rw [← hsy1]
    have hq1 : sy1.queues.length = sy.queues.length := by rw [← hsy1]; exact hlen1
    have hcur0 := h.sync.cur
    obtain ⟨hst1, hst2⟩ := submit_state (gh.specs hd) sy.currentFrame inp.input hcur0
    -- the head's stream is submitted afterwards
    have hsub1 : Submitted (gh1.specs hd) sy.currentFrame := by
      simp only [gh1, if_true]
      rw [hinpf]
      rcases hlu hd hp with h1 | h1
      · exact hst1 h1
      · exact hst2 h1
    have hlu1 : ∀ p, p < sy1.queues.length → (gh1.specs p).lastUser = sy1.currentFrame - 1 ∨ Submitted (gh1.specs p) sy1.currentFrame := by
      intro p hpp
      rw [hq1] at hpp
      rw [hc1]
      by_cases hie : p = hd
      · subst hie; exact Or.inr hsub1
      · simp only [gh1, hie, if_false]; exact hlu p hpp
    obtain ⟨ext, hext⟩ : ∃ ext, ((gh.specs hd).submit inp.frame inp.input).1.vals = (gh.specs hd).vals ++ ext := by
      unfold QSpec.submit
      split
      · exact ⟨[], by simp⟩
      · simp only
        split
        · exact ⟨[], by simp⟩
        · exact ⟨_, by simp only [List.append_assoc]; rfl⟩
    obtain ⟨gh', hinv', hask', hT', hc', hq', hcl', hls', hgrow', hlu', hstab', hin'⟩ := ih sy1 sy' gh1 hinv1 hask1' hlu1 hadd
    refine ⟨gh', hinv', hask', hT', hc'.trans hc1, hq'.trans hq1, by rw [hcl', ← hsy1], by rw [hls', ← hsy1], ?_, ?_, ?_, ?_⟩
    · intro p
      obtain ⟨g1, g2⟩ := hgrow' p
      by_cases hie : p = hd
      · subst hie
        simp only [gh1, if_true] at g1 g2
        have hge : (gh.specs p).vals.length ≤ ((gh.specs p).submit inp.frame inp.input).1.vals.length := by
          rw [hext]; simp
        refine ⟨Nat.le_trans hge g1, fun f hf => ?_⟩
        rw [g2 f (by omega), hext]
        simp [List.getD_eq_getElem?_getD, List.getElem?_append_left hf]
      · simp only [gh1, hie, if_false] at g1 g2
        exact ⟨g1, g2⟩
    · intro p hpp
      have := hlu' p (by rw [hq1]; exact hpp)
      rw [hc1] at this; exact this
    · intro p hpp hs
      have hs1 : Submitted (gh1.specs p) sy1.currentFrame := by
        rw [hc1]
        by_cases hie : p = hd
        · subst hie; exact hsub1
        · simp only [gh1, hie, if_false]; exact hs
      have := hstab' p (by rw [hq1]; exact hpp) hs1
      rw [hc1] at this; exact this
    · intro p inp' hin hpp
      rcases List.mem_cons.mp hin with heq | hin2
      · have hpd : p = hd := by cases heq; rfl
        subst hpd
        have := hstab' p (by rw [hq1]; exact hpp) (by rw [hc1]; exact hsub1)
        rw [hc1] at this; exact this
      · have := hin' p inp' hin2 (by rw [hq1]; exact hpp)
        rw [hc1] at this; exact this

end Ggrs

namespace Ggrs

/-! ### the game next to a sync test -/

/-- The user's side of one request: the game executes it; a save also stores the game's checksum
in the session's cell. -/
def execSW {G : Type} (step : G → List (Input × InputStatus) → G) (csf : G → Option Nat)
    (w : List Cell × GS G) : Request → List Cell × GS G
  | .save f => (rset w.1 (frameIdx f w.1.length) ⟨f, csf w.2.g⟩, execG step w.1.length w.2 (.save f))
  | .load f => (w.1, execG step w.1.length w.2 (.load f))
  | .advance ins => (w.1, execG step w.1.length w.2 (.advance ins))

def execSWs {G : Type} (step : G → List (Input × InputStatus) → G) (csf : G → Option Nat)
    (w : List Cell × GS G) (rs : List Request) : List Cell × GS G := rs.foldl (execSW step csf) w

theorem execSWs_append {G : Type} (step : G → List (Input × InputStatus) → G) (csf : G → Option Nat)
    (w : List Cell × GS G) (a b : List Request) :
    execSWs step csf w (a ++ b) = execSWs step csf (execSWs step csf w a) b := by
  simp [execSWs, List.foldl_append]

/-- Game and cells against the intended timeline `Rt`: the game's state, every stored state and
every stored checksum is the replay of `Rt` up to the frame it is tagged with. -/
structure GW {G : Type} (step : G → List (Input × InputStatus) → G) (g0 : G) (csf : G → Option Nat)
    (Rt : Nat → List (Input × InputStatus)) (cells : List Cell) (x : GS G) (cmax : Int) : Prop where
  nonneg : 0 ≤ x.cur
  le : x.cur ≤ cmax
  rows : ∀ f : Nat, (f : Int) < x.cur → x.R f = Rt f
  state : x.g = replay step g0 Rt x.cur.toNat
  cells : ∀ i, i < cells.length → 0 ≤ (rget cells i).frame →
    (rget cells i).frame ≤ cmax ∧ x.cellG i = replay step g0 Rt (rget cells i).frame.toNat ∧
    (rget cells i).checksum = csf (replay step g0 Rt (rget cells i).frame.toNat)

theorem GW_save {G : Type} (step : G → List (Input × InputStatus) → G) (g0 : G) (csf : G → Option Nat)
    (Rt : Nat → List (Input × InputStatus)) (cells : List Cell) (x : GS G) (cmax : Int)
    (h : GW step g0 csf Rt cells x cmax) (hn : 0 < cells.length) :
    GW step g0 csf Rt (execSW step csf (cells, x) (.save x.cur)).1 (execSW step csf (cells, x) (.save x.cur)).2 cmax ∧
    (execSW step csf (cells, x) (.save x.cur)).1.length = cells.length ∧
    (execSW step csf (cells, x) (.save x.cur)).2.cur = x.cur := by
  have hidx : frameIdx x.cur cells.length = x.cur.toNat % cells.length := by
    simp [frameIdx, usizeOfFrame, h.nonneg]
  have hlt : x.cur.toNat % cells.length < cells.length := Nat.mod_lt _ hn
  simp only [execSW, execG, hidx]
  refine ⟨⟨h.nonneg, h.le, h.rows, h.state, ?_⟩, rset_length _ _ _, trivial⟩
  intro i hi h0
  rw [rset_length] at hi
  by_cases hie : i = x.cur.toNat % cells.length
  · subst hie
    rw [rget_rset_eq _ _ _ hlt] at h0 ⊢
    simp only [upd_self]
    exact ⟨h.le, h.state, by rw [h.state]⟩
  · rw [rget_rset_ne _ _ _ _ (fun e => hie e.symm)] at h0 ⊢
    simp only [upd_ne _ _ _ _ hie]
    exact h.cells i hi h0

theorem GW_load {G : Type} (step : G → List (Input × InputStatus) → G) (g0 : G) (csf : G → Option Nat)
    (Rt : Nat → List (Input × InputStatus)) (cells : List Cell) (x : GS G) (cmax : Int) (f : Frame)
    (h : GW step g0 csf Rt cells x cmax) (hn : 0 < cells.length) (h0 : 0 ≤ f) (hlt : f ≤ x.cur)
    (htag : (rget cells (f.toNat % cells.length)).frame = f) :
    GW step g0 csf Rt (execSW step csf (cells, x) (.load f)).1 (execSW step csf (cells, x) (.load f)).2 cmax ∧
    (execSW step csf (cells, x) (.load f)).1 = cells ∧ (execSW step csf (cells, x) (.load f)).2.cur = f := by
  simp only [execSW, execG]
  have hidx : f.toNat % cells.length < cells.length := Nat.mod_lt _ hn
  obtain ⟨a, b, _⟩ := h.cells _ hidx (by rw [htag]; exact h0)
  rw [htag] at a b
  refine ⟨⟨h0, a, fun g hg => h.rows g (by have : (g : Int) < f := hg; omega), b, h.cells⟩, trivial, trivial⟩

theorem GW_advance {G : Type} (step : G → List (Input × InputStatus) → G) (g0 : G) (csf : G → Option Nat)
    (Rt : Nat → List (Input × InputStatus)) (cells : List Cell) (x : GS G) (cmax : Int)
    (h : GW step g0 csf Rt cells x cmax) (hlt : x.cur < cmax) :
    GW step g0 csf Rt (execSW step csf (cells, x) (.advance (Rt x.cur.toNat))).1
      (execSW step csf (cells, x) (.advance (Rt x.cur.toNat))).2 cmax ∧
    (execSW step csf (cells, x) (.advance (Rt x.cur.toNat))).1 = cells ∧
    (execSW step csf (cells, x) (.advance (Rt x.cur.toNat))).2.cur = x.cur + 1 := by
  simp only [execSW, execG]
  have h0 := h.nonneg
  refine ⟨⟨by show 0 ≤ x.cur + 1; omega, by show x.cur + 1 ≤ cmax; omega, ?_, ?_, h.cells⟩, trivial, trivial⟩
  · intro f hf
    show upd x.R x.cur.toNat (Rt x.cur.toNat) f = Rt f
    have hf' : (f : Int) < x.cur + 1 := hf
    by_cases hfe : f = x.cur.toNat
    · rw [hfe, upd_self]
    · rw [upd_ne _ _ _ _ hfe]; exact h.rows f (by omega)
  · show step x.g (Rt x.cur.toNat) = replay step g0 Rt (x.cur + 1).toNat
    have : (x.cur + 1).toNat = x.cur.toNat + 1 := by omega
    rw [this]; simp only [replay]; rw [h.state]

/-- The invariant only reads the intended timeline below `cmax`. -/
theorem GW_congr {G : Type} (step : G → List (Input × InputStatus) → G) (g0 : G) (csf : G → Option Nat)
    (Rt Rt' : Nat → List (Input × InputStatus)) (cells : List Cell) (x : GS G) (cmax cmax' : Int)
    (h : GW step g0 csf Rt cells x cmax) (hle : cmax ≤ cmax')
    (hag : ∀ f : Nat, (f : Int) < cmax → Rt' f = Rt f) : GW step g0 csf Rt' cells x cmax' := by
  have hrep : ∀ k : Nat, (k : Int) ≤ cmax → replay step g0 Rt' k = replay step g0 Rt k :=
    fun k hk => replay_congr step g0 Rt Rt' k (fun j hj => hag j (by omega))
  have h0 := h.nonneg
  have hl := h.le
  refine ⟨h.nonneg, by omega, fun f hf => by rw [h.rows f hf, hag f (by omega)], ?_, ?_⟩
  · rw [h.state, hrep _ (by omega)]
  · intro i hi hp
    obtain ⟨a, b, c⟩ := h.cells i hi hp
    have := hrep (rget cells i).frame.toNat (by omega)
    exact ⟨by omega, by rw [b, this], by rw [c, this]⟩

theorem GW_resim {G : Type} (step : G → List (Input × InputStatus) → G) (g0 : G) (csf : G → Option Nat)
    (Rt : Nat → List (Input × InputStatus)) (cmax : Int) : ∀ (n i : Nat) (cells : List Cell) (x : GS G) (L : List Request),
    GW step g0 csf Rt cells x cmax → 0 < cells.length → x.cur + (n : Int) ≤ cmax → STShape Rt i x.cur n L →
    GW step g0 csf Rt (execSWs step csf (cells, x) L).1 (execSWs step csf (cells, x) L).2 cmax ∧
    (execSWs step csf (cells, x) L).1.length = cells.length ∧ (execSWs step csf (cells, x) L).2.cur = x.cur + n := by
  intro n
  induction n with
  | zero =>
    intro i cells x L h _ _ hs
    simp only [STShape] at hs
    subst hs
    exact ⟨h, rfl, by simp [execSWs]⟩
  | succ k ih =>
    intro i cells x L h hn hb hs
    simp only [STShape] at hs
    obtain ⟨L', hL, hs'⟩ := hs
    subst hL
    by_cases hi : i > 0
    · simp only [hi, if_true]
      rw [execSWs_append, execSWs_append]
      obtain ⟨g1, l1, c1⟩ := GW_save step g0 csf Rt cells x cmax h hn
      have e1 : execSWs step csf (cells, x) [.save x.cur] = execSW step csf (cells, x) (.save x.cur) := rfl
      rw [e1]
      generalize execSW step csf (cells, x) (.save x.cur) = w1 at g1 l1 c1
      obtain ⟨cells1, x1⟩ := w1
      simp only at g1 l1 c1
      obtain ⟨g2, l2, c2⟩ := GW_advance step g0 csf Rt cells1 x1 cmax g1 (by rw [c1]; push_cast at hb; omega)
      have e2 : execSWs step csf (cells1, x1) [.advance (Rt x.cur.toNat)] = execSW step csf (cells1, x1) (.advance (Rt x1.cur.toNat)) := by
        rw [c1]; rfl
      rw [e2]
      generalize execSW step csf (cells1, x1) (.advance (Rt x1.cur.toNat)) = w2 at g2 l2 c2
      obtain ⟨cells2, x2⟩ := w2
      simp only at g2 l2 c2
      have hc2 : x2.cur = x.cur + 1 := by rw [c2, c1]
      obtain ⟨g3, l3, c3⟩ := ih (i + 1) cells2 x2 L' g2 (by rw [l2, l1]; exact hn) (by rw [hc2]; push_cast at hb; omega)
        (by rw [hc2]; exact hs')
      exact ⟨g3, by rw [l3, l2, l1], by rw [c3, hc2]; push_cast; omega⟩
    · simp only [hi, if_false, List.nil_append]
      rw [execSWs_append]
      obtain ⟨g2, l2, c2⟩ := GW_advance step g0 csf Rt cells x cmax h (by push_cast at hb; omega)
      have e2 : execSWs step csf (cells, x) [.advance (Rt x.cur.toNat)] = execSW step csf (cells, x) (.advance (Rt x.cur.toNat)) := rfl
      rw [e2]
      generalize execSW step csf (cells, x) (.advance (Rt x.cur.toNat)) = w2 at g2 l2 c2
      obtain ⟨cells2, x2⟩ := w2
      simp only at g2 l2 c2
      obtain ⟨g3, l3, c3⟩ := ih (i + 1) cells2 x2 L' g2 (by rw [l2]; exact hn) (by rw [c2]; push_cast at hb; omega)
        (by rw [c2]; exact hs')
      exact ⟨g3, by rw [l3, l2], by rw [c3, c2]; push_cast; omega⟩

end Ggrs

namespace Ggrs
open InputQueue

/-- Distinct handles below `N`, `N` of them: every handle is there. -/
theorem pigeon : ∀ (N : Nat) (l : List Nat), l.Nodup → (∀ h ∈ l, h < N) →
    l.length ≤ N ∧ (l.length = N → ∀ p, p < N → p ∈ l) := by
  intro N
  induction N with
  | zero =>
    intro l _ hlt
    cases l with
    | nil => exact ⟨Nat.le_refl _, fun _ p hp => absurd hp (by omega)⟩
    | cons a as => exact absurd (hlt a List.mem_cons_self) (by omega)
  | succ N ih =>
    intro l hnd hlt
    by_cases hN : N ∈ l
    · have hnd' : (l.erase N).Nodup := hnd.erase N
      have hlen : (l.erase N).length = l.length - 1 := List.length_erase_of_mem hN
      have hpos : 0 < l.length := List.length_pos_of_mem hN
      have hlt' : ∀ h ∈ l.erase N, h < N := by
        intro h hh
        have h1 : h ∈ l := List.mem_of_mem_erase hh
        have h2 : h ≠ N := by
          intro e; subst e
          exact (List.Nodup.mem_erase_iff hnd).mp hh |>.1 rfl
        have := hlt h h1; omega
      obtain ⟨a, b⟩ := ih (l.erase N) hnd' hlt'
      refine ⟨by omega, fun hl p hp => ?_⟩
      by_cases hpN : p = N
      · rw [hpN]; exact hN
      · exact List.mem_of_mem_erase (b (by omega) p (by omega))
    · have hlt' : ∀ h ∈ l, h < N := by
        intro h hh
        have := hlt h hh
        have : h ≠ N := fun e => hN (e ▸ hh)
        omega
      obtain ⟨a, _⟩ := ih l hnd hlt'
      exact ⟨by omega, fun hl => absurd hl (by omega)⟩

/-- What a sync test knows at the start of a call, besides the timeline invariant. -/
structure Ready (s : SyncTest) (gh : Ghost) : Prop where
  nq : s.sync.queues.length = s.numPlayers
  asked : AllAsked s.sync.queues s.sync.currentFrame
  lu : ∀ p, p < s.numPlayers → (gh.specs p).lastUser = s.sync.currentFrame - 1 ∧
    s.sync.currentFrame ≤ ((gh.specs p).vals.length : Int)
  liNodup : (s.localInputs.map (·.1)).Nodup
  liOk : ∀ x ∈ s.localInputs, x.1 < s.numPlayers ∧ x.2.frame = s.sync.currentFrame
  cd : 0 < s.checkDistance

/-- Every stream only grows. -/
def Grows (gh gh' : Ghost) : Prop :=
  ∀ p, (gh.specs p).vals.length ≤ (gh'.specs p).vals.length ∧
    ∀ f, f < (gh.specs p).vals.length → (gh'.specs p).vals.getD f 0 = (gh.specs p).vals.getD f 0

theorem saveBeforeAdvance_fields (s s' : SyncTest) (reqs reqs' : List Request) (hcd : 0 < s.checkDistance)
    (h : s.saveBeforeAdvance reqs = .ok (s', reqs')) :
    reqs' = reqs ++ [.save s.sync.currentFrame] ∧ s' = { s with sync := s'.sync } ∧
    s'.sync.currentFrame = s.sync.currentFrame ∧ s'.sync.cells = s.sync.cells ∧ s'.sync.queues = s.sync.queues := by
  unfold SyncTest.saveBeforeAdvance at h
  rw [if_pos hcd] at h
  obtain ⟨r, hs, h⟩ := bind_ok h
  obtain ⟨sy, rq⟩ := r
  simp only at h
  have := pure_ok h
  simp only [Prod.mk.injEq] at this
  obtain ⟨h1, h2⟩ := this
  obtain ⟨hr, _, hc, hcl, hq⟩ := save_shape s.sync sy rq hs
  subst h1
  exact ⟨by rw [← h2, hr], rfl, hc, hcl, hq⟩

/-- **The second half of a call**: with every player's input in, the new frame is simulated on the
full row of real inputs. -/
theorem finishFrame_spec (s s' : SyncTest) (gh : Ghost) (t0 : TLState) (pre : List Request)
    (r : Except GgrsError (List Request))
    (h : TInv s.pred s.sync s.dummyConnectStatus gh t0 pre) (hr : Ready s gh)
    (hrows : ∀ f : Nat, (f : Int) < s.sync.currentFrame → (execReqs t0 pre).R f = rowOf gh s.numPlayers f)
    (hf : s.finishFrame pre = .ok (s', r)) :
    (r = .error .invalidRequest ∧ s' = s) ∨
    ∃ (gh' : Ghost) (reqs' : List Request), r = .ok reqs' ∧
      reqs' = pre ++ [.save s.sync.currentFrame, .advance (rowOf gh' s.numPlayers s.sync.currentFrame.toNat)] ∧
      TInv s'.pred s'.sync s'.dummyConnectStatus gh' t0 reqs' ∧ Ready s' gh' ∧
      s'.sync.currentFrame = s.sync.currentFrame + 1 ∧
      (∀ p, p < s'.sync.queues.length → (rget s'.sync.queues p).firstIncorrectFrame = NULL_FRAME) ∧
      Grows gh gh' ∧ s'.sync.cells = s.sync.cells ∧ s'.checksumHistory = s.checksumHistory ∧
      s'.checkDistance = s.checkDistance ∧ s'.numPlayers = s.numPlayers ∧ s'.pred = s.pred ∧
      s'.maxPrediction = s.maxPrediction ∧ s'.localInputs = [] ∧
      (∀ f : Nat, (f : Int) < s'.sync.currentFrame → (execReqs t0 reqs').R f = rowOf gh' s.numPlayers f) := by
  unfold SyncTest.finishFrame at hf
  by_cases hnp : (s.numPlayers != s.localInputs.length) = true
  · rw [if_pos hnp] at hf
    have := pure_ok hf
    simp only [Prod.mk.injEq] at this
    exact Or.inl ⟨this.2.symm, this.1.symm⟩
  rw [if_neg hnp] at hf
  right
  have hlen : s.localInputs.length = s.numPlayers := by
    have : ¬ s.numPlayers ≠ s.localInputs.length := by simpa using hnp
    omega
  obtain ⟨sy1, hadd, hf⟩ := bind_ok hf
  simp only at hf
  obtain ⟨r2, hsb, hf⟩ := bind_ok hf
  obtain ⟨s2, reqs2⟩ := r2
  simp only at hf
  obtain ⟨r3, hsim, hf⟩ := bind_ok hf
  obtain ⟨sy3, inputs⟩ := r3
  simp only at hf
  obtain ⟨sy4, hset, hf⟩ := bind_ok hf
  have := pure_ok hf
  simp only [Prod.mk.injEq] at this
  obtain ⟨hs', hreq⟩ := this
  -- all inputs in
  obtain ⟨gh1, hinv1, hask1, _, hc1, hq1, hcl1, _, hgrow1, _, _, hin1⟩ :=
    addLocalInputs_spec s.pred s.dummyConnectStatus t0 pre s.localInputs s.sync sy1 gh h hr.asked
      (fun p hp => Or.inl (hr.lu p (by rw [← hr.nq]; exact hp)).1) hadd
  have hall : ∀ p, p < s.numPlayers → Submitted (gh1.specs p) s.sync.currentFrame := by
    intro p hp
    have hmem := (pigeon s.numPlayers (s.localInputs.map (·.1)) hr.liNodup
      (fun h hh => by
        obtain ⟨x, hx, hxe⟩ := List.mem_map.mp hh
        rw [← hxe]; exact (hr.liOk x hx).1)).2 (by rw [List.length_map]; exact hlen) p hp
    obtain ⟨x, hx, hxe⟩ := List.mem_map.mp hmem
    obtain ⟨a, b⟩ := x
    simp only at hxe
    subst hxe
    exact hin1 a b hx (by rw [hr.nq]; exact hp)
  -- the save
  obtain ⟨hreqs2, hs2, hc2, hcl2, hq2⟩ := saveBeforeAdvance_fields _ s2 pre reqs2 (by exact hr.cd) hsb
  have hpred2 : s2.pred = s.pred := by rw [hs2]
  have hst2 : s2.dummyConnectStatus = s.dummyConnectStatus := by rw [hs2]
  have hcd2 : s2.checkDistance = s.checkDistance := by rw [hs2]
  have hc2 : s2.sync.currentFrame = sy1.currentFrame := hc2
  have hq2 : s2.sync.queues = sy1.queues := hq2
  have hcl2 : s2.sync.cells = sy1.cells := hcl2
  have hc2' : s2.sync.currentFrame = s.sync.currentFrame := by rw [hc2]; exact hc1
  have hinv2 : TInv s.pred s2.sync s.dummyConnectStatus gh1 t0 reqs2 := by
    refine ⟨SyncInv_congr hinv1.sync hq2 hc2, ?_, ?_⟩
    · rw [hreqs2, execReqs_append]
      show (execReqs t0 pre).cur = _
      rw [hc2]; exact hinv1.exec
    · intro p hp f
      rw [hreqs2, execReqs_append]
      show gh1.T p f = (((execReqs t0 pre).R f).getD p default).1
      exact hinv1.rows p (by rw [← hq2]; exact hp) f
  rw [hpred2, hst2] at hsim
  obtain ⟨c, gh3, hc0, hok, hsp3, hinv3, hcur3, hask3, hclean3⟩ :=
    TInv_simulate s.pred s2.sync sy3 sy3 s.dummyConnectStatus gh1 t0 reqs2 [] inputs hinv2 hsim
      (fun r hr => by cases hr) rfl rfl
  obtain ⟨_, _, _, _, hql3, hinl, hcells3, _, _, _, _, _⟩ :=
    SyncInv_simulate s.pred s2.sync sy3 s.dummyConnectStatus gh1 inputs hinv2.sync hsim
  have hN2 : s2.sync.queues.length = s.numPlayers := by rw [hq2, hq1]; exact hr.nq
  have hcc : (c : Int) = s.sync.currentFrame := by rw [← hc0]; exact hc2'
  have hrow : inputs = rowOf gh1 s.numPlayers c := by
    apply inputs_eq_row s.pred gh1 s.numPlayers c inputs (by rw [hinl, hN2]) hok
    intro p hp
    have := (hall p hp).2
    omega
  simp only [List.append_nil] at hinv3
  -- discarding
  have hN3 : sy3.advanceFrame.queues.length = s.numPlayers := by show sy3.queues.length = _; rw [hql3]; exact hN2
  have hle : ∀ p, p < sy3.advanceFrame.queues.length →
      (sy3.advanceFrame.currentFrame - (s2.checkDistance : Int)) - 1 < (rget sy3.advanceFrame.queues p).lastAddedFrame := by
    intro p hp
    rw [lastAdded_of_QI (hinv3.sync.all p hp), hsp3, hcur3, hcd2]
    have := (hall p (by rw [← hN3]; exact hp)).2
    have := hr.cd
    rw [hc2']
    omega
  obtain ⟨hinv4, hask4, hcur4, hql4, hcl4, hfi4⟩ :=
    setLastConfirmed_sync s.pred sy3.advanceFrame sy4 s.dummyConnectStatus gh3 t0 _ _ false hinv3 hask3 hle hset
  have hcur4' : sy4.currentFrame = s.sync.currentFrame + 1 := by rw [hcur4, hcur3, hc2']
  have hcn : s.sync.currentFrame.toNat = c := by rw [← hcc]; simp
  have hreqs' : reqs2 ++ [Request.advance inputs] =
      pre ++ [.save s.sync.currentFrame, .advance (rowOf gh3 s.numPlayers s.sync.currentFrame.toNat)] := by
    rw [hreqs2, hrow, hcn, rowOf_specs gh1 gh3 _ hsp3]
    show pre ++ [Request.save sy1.currentFrame] ++ _ = _
    rw [hc1]; simp
  subst hs'
  refine ⟨gh3, _, hreq.symm, hreqs', ?_, ?_, hcur4', ?_, ?_, ?_, by rw [hs2], hcd2, by rw [hs2], hpred2, by rw [hs2],
    by rw [hs2], ?_⟩
  · -- the invariant under the new dummy statuses
    show TInv s2.pred sy4 (s2.dummyConnectStatus.map _) gh3 t0 _
    rw [hpred2, hst2]
    refine ⟨⟨hinv4.sync.cur, by rw [List.length_map]; exact hinv4.sync.nq, ?_, hinv4.sync.all⟩, hinv4.exec, hinv4.rows⟩
    intro cs hcs
    obtain ⟨c0, hc0m, hce⟩ := List.mem_map.mp hcs
    rw [← hce]
    exact hinv4.sync.conn c0 hc0m
  · refine ⟨?_, hask4, ?_, ?_, ?_, ?_⟩
    · show sy4.queues.length = s2.numPlayers; rw [hql4, hN3, hs2]
    · intro p hp
      show (gh3.specs p).lastUser = sy4.currentFrame - 1 ∧ sy4.currentFrame ≤ _
      have hp' : p < s.numPlayers := by have : s2.numPlayers = s.numPlayers := by rw [hs2]
                                        rw [← this]; exact hp
      obtain ⟨a, b⟩ := hall p hp'
      rw [hsp3, hcur4', a]
      exact ⟨by omega, b⟩
    · have : s2.localInputs = [] := by rw [hs2]
      show (s2.localInputs.map (·.1)).Nodup
      rw [this]; exact List.nodup_nil
    · intro x hx
      have h2 : s2.localInputs = [] := by rw [hs2]
      have : x ∈ s2.localInputs := hx
      rw [h2] at this
      cases this
    · show 0 < s2.checkDistance; rw [hcd2]; exact hr.cd
  · intro p hp
    show (rget sy4.queues p).firstIncorrectFrame = NULL_FRAME
    rw [hfi4 p hp]
    exact hclean3 p (by rw [← hql4]; exact hp)
  · intro p
    rw [hsp3]
    exact hgrow1 p
  · show sy4.cells = s.sync.cells
    rw [hcl4]; show sy3.cells = _
    rw [hcells3, hcl2, hcl1]
  · intro f hf
    have hf' : (f : Int) < s.sync.currentFrame + 1 := by rw [← hcur4']; exact hf
    have hR : (execReqs t0 (reqs2 ++ [Request.advance inputs])).R = upd (execReqs t0 pre).R c inputs := by
      rw [hreqs2, execReqs_append, execReqs_append]
      simp only [execReqs, List.foldl_cons, List.foldl_nil, execReq]
      have : (List.foldl execReq t0 pre).cur = (c : Int) := by
        have := h.exec; simp only [execReqs] at this; rw [this, hcc]
      rw [this]; simp
    rw [hR]
    by_cases hfc : f = c
    · subst hfc; rw [upd_self, hrow, rowOf_specs gh1 gh3 _ hsp3]
    · rw [upd_ne _ _ _ _ hfc, hrows f (by omega)]
      symm
      apply rowOf_congr gh gh3 s.numPlayers f
      intro p hp
      rw [hsp3]
      exact (hgrow1 p).2 f (by have := (hr.lu p hp).2; omega)

end Ggrs

namespace Ggrs
open InputQueue

/-- **The first half of a call**: the comparison finds nothing, then the rollback re-simulates the
last `check_distance` frames on the same rows. -/
theorem verifyAndRollback_spec {G : Type} (step : G → List (Input × InputStatus) → G) (g0 : G)
    (csf : G → Option Nat) (s s1 : SyncTest) (gh : Ghost) (t0 : TLState)
    (res : Except GgrsError (List Request))
    (h : TInv s.pred s.sync s.dummyConnectStatus gh t0 []) (hr : Ready s gh)
    (hclean : ∀ p, p < s.sync.queues.length → (rget s.sync.queues p).firstIncorrectFrame = NULL_FRAME)
    (hrows : ∀ f : Nat, (f : Int) < s.sync.currentFrame → t0.R f = rowOf gh s.numPlayers f)
    (hh : HistOk step g0 csf s.checksumHistory (rowOf gh s.numPlayers) s.sync.currentFrame)
    (hc : CellsOk step g0 csf s.sync.cells (rowOf gh s.numPlayers)) (hn : 0 < s.sync.cells.length)
    (htle : ∀ i, i < s.sync.cells.length → (rget s.sync.cells i).frame ≤ s.sync.currentFrame)
    (hv : s.verifyAndRollback s.sync.currentFrame = .ok (s1, res)) :
    ∃ (gh' : Ghost) (L : List Request), res = .ok ([.load (s.sync.currentFrame - s.checkDistance)] ++ L) ∧
      STShape (rowOf gh s.numPlayers) 0 (s.sync.currentFrame - s.checkDistance) s.checkDistance L ∧
      0 ≤ s.sync.currentFrame - (s.checkDistance : Int) ∧
      (rget s.sync.cells ((s.sync.currentFrame - (s.checkDistance : Int)).toNat % s.sync.cells.length)).frame =
        s.sync.currentFrame - s.checkDistance ∧
      TInv s1.pred s1.sync s1.dummyConnectStatus gh' t0 ([.load (s.sync.currentFrame - s.checkDistance)] ++ L) ∧
      gh'.specs = gh.specs ∧ Ready s1 gh' ∧
      (∀ p, p < s1.sync.queues.length → (rget s1.sync.queues p).firstIncorrectFrame = NULL_FRAME) ∧
      s1.sync.cells = s.sync.cells ∧ s1.sync.currentFrame = s.sync.currentFrame ∧
      HistOk step g0 csf s1.checksumHistory (rowOf gh s.numPlayers) s.sync.currentFrame ∧
      s1.numPlayers = s.numPlayers ∧ s1.checkDistance = s.checkDistance ∧ s1.pred = s.pred ∧
      s1.localInputs = s.localInputs ∧ s1.maxPrediction = s.maxPrediction ∧
      (∀ f : Nat, (f : Int) < s.sync.currentFrame →
        (execReqs t0 ([.load (s.sync.currentFrame - s.checkDistance)] ++ L)).R f = rowOf gh s.numPlayers f) := by
  unfold SyncTest.verifyAndRollback at hv
  simp only at hv
  obtain ⟨r1, hcf, hv⟩ := bind_ok hv
  obtain ⟨sa, mis⟩ := r1
  simp only at hv
  obtain ⟨hmis, hh1, hsy, hpr, hds, hcd, hnp, hli, hmp⟩ :=
    checkFrames_none step g0 csf (rowOf gh s.numPlayers) _ s.sync.currentFrame _ 0 s sa [] mis hh hc hn htle hcf
  subst hmis
  simp only [List.isEmpty_nil, Bool.not_true, Bool.false_eq_true, if_false] at hv
  obtain ⟨r2, hadj, hv⟩ := bind_ok hv
  obtain ⟨sb, reqs1⟩ := r2
  simp only at hv
  have := pure_ok hv
  simp only [Prod.mk.injEq] at this
  obtain ⟨hs1, hres⟩ := this
  subst hs1
  have hN : sa.sync.queues.length = s.numPlayers := by rw [hsy]; exact hr.nq
  obtain ⟨gh', hinv', hsp', hsb, hcur', hN', hcl', hrows', hask', hclean', h0, hlt, htag, L, hL, _, hst⟩ :=
    st_adjust_spec sa sb (sa.sync.currentFrame - (sa.checkDistance : Int)) t0 [] reqs1 gh s.numPlayers
      (by rw [hpr, hsy, hds]; exact h) hN
      (fun p hp => by rw [hsy]; exact (hr.lu p hp).2)
      (by rw [hsy]; exact hclean)
      (fun f hf => by rw [hsy] at hf; exact hrows f hf)
      hadj
  simp only [hsy, hcd] at hL hst h0 htag hcur' hcl' hrows' hlt
  have hcnt : (s.sync.currentFrame - (s.sync.currentFrame - (s.checkDistance : Int))).toNat = s.checkDistance := by omega
  rw [hcnt] at hst
  simp only [List.nil_append] at hL
  subst hL
  have hsbf : sb.pred = s.pred ∧ sb.dummyConnectStatus = s.dummyConnectStatus ∧ sb.numPlayers = s.numPlayers ∧
      sb.checkDistance = s.checkDistance ∧ sb.localInputs = s.localInputs ∧ sb.maxPrediction = s.maxPrediction ∧
      sb.checksumHistory = sa.checksumHistory := by
    rw [hsb]; exact ⟨hpr, hds, hnp, hcd, hli, hmp, rfl⟩
  obtain ⟨b1, b2, b3, b4, b5, b6, b7⟩ := hsbf
  refine ⟨gh', L, hres.symm, hst, h0, htag, by rw [b1, b2]; rw [hpr, hds] at hinv'; exact hinv', hsp', ?_, hclean', hcl', hcur', by rw [b7]; exact hh1,
    b3, b4, b1, b5, b6, ?_⟩
  · refine ⟨by rw [b3]; exact hN', by rw [hcur']; rw [hcur'] at hask'; exact hask', ?_, by rw [b5]; exact hr.liNodup, ?_, by rw [b4]; exact hr.cd⟩
    · intro p hp
      rw [hsp', hcur']
      exact hr.lu p (by rw [← b3]; exact hp)
    · intro x hx
      rw [b5] at hx
      rw [b3, hcur']
      exact hr.liOk x hx
  · intro f hf
    exact hrows' f (by rw [hcur']; exact hf)

end Ggrs

namespace Ggrs
open InputQueue

/-! ### the sync test together with its game -/

def SyncTest.withCells (s : SyncTest) (cells : List Cell) : SyncTest := { s with sync := { s.sync with cells := cells } }

/-- Session, cells and game together. -/
structure STInv {G : Type} (step : G → List (Input × InputStatus) → G) (g0 : G) (csf : G → Option Nat)
    (s : SyncTest) (x : GS G) : Prop where
  ncells : 0 < s.sync.cells.length
  xcur : x.cur = s.sync.currentFrame
  ex : ∃ (gh : Ghost) (R0 : Nat → List (Input × InputStatus)),
    TInv s.pred s.sync s.dummyConnectStatus gh ⟨s.sync.currentFrame, R0⟩ [] ∧
    (∀ f : Nat, (f : Int) < s.sync.currentFrame → R0 f = rowOf gh s.numPlayers f) ∧
    Ready s gh ∧
    (∀ p, p < s.sync.queues.length → (rget s.sync.queues p).firstIncorrectFrame = NULL_FRAME) ∧
    GW step g0 csf (rowOf gh s.numPlayers) s.sync.cells x s.sync.currentFrame ∧
    HistOk step g0 csf s.checksumHistory (rowOf gh s.numPlayers) s.sync.currentFrame

theorem TInv_restart (pr : Predictor) (sy : SyncLayer) (st : List ConnStatus) (gh : Ghost) (t0 : TLState)
    (reqs : List Request) (h : TInv pr sy st gh t0 reqs) :
    TInv pr sy st gh ⟨sy.currentFrame, (execReqs t0 reqs).R⟩ [] :=
  ⟨h.sync, rfl, h.rows⟩

theorem HistOk_congr {G : Type} (step : G → List (Input × InputStatus) → G) (g0 : G) (csf : G → Option Nat)
    (hist : List (Int × Option Nat)) (Rt Rt' : Nat → List (Input × InputStatus)) (cur cur' : Int)
    (h : HistOk step g0 csf hist Rt cur) (hle : cur ≤ cur')
    (hag : ∀ f : Nat, (f : Int) < cur → Rt' f = Rt f) : HistOk step g0 csf hist Rt' cur' := by
  intro f c hl
  obtain ⟨a, b, d⟩ := h f c hl
  refine ⟨a, by omega, ?_⟩
  rw [d, replay_congr step g0 Rt Rt' f.toNat (fun j hj => hag j (by omega))]

/-- The game's side of the end of a call: save the current frame, advance on the new row. -/
theorem GW_finish {G : Type} (step : G → List (Input × InputStatus) → G) (g0 : G) (csf : G → Option Nat)
    (Rt Rt' : Nat → List (Input × InputStatus)) (cells : List Cell) (x : GS G) (cur : Int)
    (h : GW step g0 csf Rt cells x cur) (hx : x.cur = cur) (hn : 0 < cells.length)
    (hag : ∀ f : Nat, (f : Int) < cur → Rt' f = Rt f) :
    GW step g0 csf Rt' (execSWs step csf (cells, x) [.save cur, .advance (Rt' cur.toNat)]).1
      (execSWs step csf (cells, x) [.save cur, .advance (Rt' cur.toNat)]).2 (cur + 1) ∧
    (execSWs step csf (cells, x) [.save cur, .advance (Rt' cur.toNat)]).1.length = cells.length ∧
    (execSWs step csf (cells, x) [.save cur, .advance (Rt' cur.toNat)]).2.cur = cur + 1 := by
  subst hx
  obtain ⟨g1, l1, c1⟩ := GW_save step g0 csf Rt cells x x.cur h hn
  have e : execSWs step csf (cells, x) [.save x.cur, .advance (Rt' x.cur.toNat)] =
      execSW step csf (execSW step csf (cells, x) (.save x.cur)) (.advance (Rt' x.cur.toNat)) := rfl
  rw [e]
  generalize execSW step csf (cells, x) (.save x.cur) = w1 at g1 l1 c1
  obtain ⟨cells1, x1⟩ := w1
  simp only at g1 l1 c1
  have g1' := GW_congr step g0 csf Rt Rt' cells1 x1 x.cur (x.cur + 1) g1 (by omega) hag
  obtain ⟨g2, l2, c2⟩ := GW_advance step g0 csf Rt' cells1 x1 (x.cur + 1) g1' (by rw [c1]; omega)
  rw [c1] at g2 l2 c2
  exact ⟨g2, by rw [l2, l1], c2⟩

/-- Everything after the rollback, session and game. -/
theorem finish_world {G : Type} (step : G → List (Input × InputStatus) → G) (g0 : G) (csf : G → Option Nat)
    (s1 s' : SyncTest) (x x1 : GS G) (cells1 : List Cell) (gh1 : Ghost) (t0 : TLState) (pre : List Request)
    (r : Except GgrsError (List Request))
    (h : TInv s1.pred s1.sync s1.dummyConnectStatus gh1 t0 pre) (hr : Ready s1 gh1)
    (hrows : ∀ f : Nat, (f : Int) < s1.sync.currentFrame → (execReqs t0 pre).R f = rowOf gh1 s1.numPlayers f)
    (hw : execSWs step csf (s1.sync.cells, x) pre = (cells1, x1))
    (hg : GW step g0 csf (rowOf gh1 s1.numPlayers) cells1 x1 s1.sync.currentFrame)
    (hx1 : x1.cur = s1.sync.currentFrame) (hl1 : cells1.length = s1.sync.cells.length) (hn : 0 < s1.sync.cells.length)
    (hh : HistOk step g0 csf s1.checksumHistory (rowOf gh1 s1.numPlayers) s1.sync.currentFrame)
    (hf : s1.finishFrame pre = .ok (s', r)) :
    (r = .error .invalidRequest ∧ s' = s1) ∨
    ∃ reqs, r = .ok reqs ∧
      STInv step g0 csf (s'.withCells (execSWs step csf (s'.sync.cells, x) reqs).1) (execSWs step csf (s'.sync.cells, x) reqs).2 := by
  rcases finishFrame_spec s1 s' gh1 t0 pre r h hr hrows hf with herr | ⟨gh', reqs', hrok, hreqs', hinv', hr', hcur', hclean', hgrow, hcl', hhist', hcd', hnp', hpr', _, _, hrows'⟩
  · exact Or.inl herr
  right
  refine ⟨reqs', hrok, ?_⟩
  have hag : ∀ f : Nat, (f : Int) < s1.sync.currentFrame → rowOf gh' s1.numPlayers f = rowOf gh1 s1.numPlayers f := by
    intro f hf
    apply rowOf_congr
    intro p hp
    exact (hgrow p).2 f (by have := (hr.lu p hp).2; omega)
  have hexec : execSWs step csf (s'.sync.cells, x) reqs' =
      execSWs step csf (cells1, x1) [.save s1.sync.currentFrame, .advance (rowOf gh' s1.numPlayers s1.sync.currentFrame.toNat)] := by
    rw [hreqs', hcl', execSWs_append, hw]
  obtain ⟨g2, l2, c2⟩ := GW_finish step g0 csf (rowOf gh1 s1.numPlayers) (rowOf gh' s1.numPlayers) cells1 x1
    s1.sync.currentFrame hg hx1 (by rw [hl1]; exact hn) hag
  rw [hexec]
  generalize execSWs step csf (cells1, x1) [.save s1.sync.currentFrame, .advance (rowOf gh' s1.numPlayers s1.sync.currentFrame.toNat)] = w at g2 l2 c2
  obtain ⟨cells2, x2⟩ := w
  simp only at g2 l2 c2
  refine ⟨by show 0 < cells2.length; rw [l2, hl1]; exact hn, by show x2.cur = s'.sync.currentFrame; rw [c2, hcur'], gh', (execReqs t0 reqs').R, ?_, ?_, ?_, hclean', ?_, ?_⟩
  · have := TInv_restart _ _ _ _ _ _ hinv'
    exact ⟨SyncInv_congr this.sync rfl rfl, this.exec, this.rows⟩
  · intro f hf
    have : (s'.withCells cells2).numPlayers = s1.numPlayers := hnp'
    rw [this]
    exact hrows' f hf
  · exact ⟨hr'.nq, hr'.asked, hr'.lu, hr'.liNodup, hr'.liOk, hr'.cd⟩
  · show GW step g0 csf (rowOf gh' s'.numPlayers) cells2 x2 s'.sync.currentFrame
    rw [hnp', hcur']; exact g2
  · show HistOk step g0 csf s'.checksumHistory (rowOf gh' s'.numPlayers) s'.sync.currentFrame
    rw [hnp', hcur', hhist']
    exact HistOk_congr step g0 csf _ _ _ _ _ hh (by omega) hag

end Ggrs

namespace Ggrs
open InputQueue

/-- **One call of `advance_frame`** on a deterministic game: either the inputs were incomplete
(`InvalidRequest`, game untouched) or the requests are returned and the game executes them; the
invariant holds afterwards. In particular the result is never `MismatchedChecksum`. -/
theorem STInv_tick {G : Type} (step : G → List (Input × InputStatus) → G) (g0 : G) (csf : G → Option Nat)
    (s s' : SyncTest) (x : GS G) (r : Except GgrsError (List Request))
    (h : STInv step g0 csf s x) (ha : s.advanceFrame = .ok (s', r)) :
    (r = .error .invalidRequest ∧ STInv step g0 csf s' x) ∨
    ∃ reqs, r = .ok reqs ∧
      STInv step g0 csf (s'.withCells (execSWs step csf (s'.sync.cells, x) reqs).1) (execSWs step csf (s'.sync.cells, x) reqs).2 := by
  obtain ⟨gh, R0, hinv, hrows0, hr, hclean, hg, hh⟩ := h.ex
  have hn := h.ncells
  unfold SyncTest.advanceFrame at ha
  simp only at ha
  by_cases hwarm : (decide (s.checkDistance > 0) && decide (s.sync.currentFrame > (s.checkDistance : Int))) = true
  · rw [if_pos hwarm] at ha
    obtain ⟨r1, hv, ha⟩ := bind_ok ha
    obtain ⟨s1, res⟩ := r1
    have hcells : CellsOk step g0 csf s.sync.cells (rowOf gh s.numPlayers) := fun i hi h0 => (hg.cells i hi h0).2.2
    have htle : ∀ i, i < s.sync.cells.length → (rget s.sync.cells i).frame ≤ s.sync.currentFrame := by
      intro i hi
      by_cases h0 : 0 ≤ (rget s.sync.cells i).frame
      · exact (hg.cells i hi h0).1
      · have := hinv.sync.cur; omega
    obtain ⟨gh', L, hres, hst, hf0, htag, hinv1, hsp1, hr1, hclean1, hcl1, hcur1, hh1, hnp1, hcd1, hpr1, hli1, hmp1, hrows1⟩ :=
      verifyAndRollback_spec step g0 csf s s1 gh ⟨s.sync.currentFrame, R0⟩ res hinv hr hclean hrows0 hh hcells hn htle hv
    subst hres
    simp only at ha
    have hrow' : rowOf gh' s.numPlayers = rowOf gh s.numPlayers := rowOf_specs gh gh' _ hsp1
    -- the game executes the load and the re-simulation
    have hwcd : (s.checkDistance : Int) < s.sync.currentFrame := by
      simp only [Bool.and_eq_true, decide_eq_true_eq] at hwarm; exact hwarm.2
    obtain ⟨ga, la, ca⟩ := GW_load step g0 csf (rowOf gh s.numPlayers) s.sync.cells x s.sync.currentFrame
      (s.sync.currentFrame - (s.checkDistance : Int)) hg hn hf0 (by rw [h.xcur]; omega) htag
    have ew : execSWs step csf (s.sync.cells, x) ([.load (s.sync.currentFrame - (s.checkDistance : Int))] ++ L) =
        execSWs step csf (execSW step csf (s.sync.cells, x) (.load (s.sync.currentFrame - (s.checkDistance : Int)))) L := by
      rw [execSWs_append]; rfl
    generalize execSW step csf (s.sync.cells, x) (.load (s.sync.currentFrame - (s.checkDistance : Int))) = wa at ga la ca ew
    obtain ⟨cellsa, xa⟩ := wa
    simp only at ga la ca
    subst la
    obtain ⟨gb, lb, cb⟩ := GW_resim step g0 csf (rowOf gh s.numPlayers) s.sync.currentFrame s.checkDistance 0
      s.sync.cells xa L ga hn (by rw [ca]; omega) (by rw [ca]; exact hst)
    generalize hwb : execSWs step csf (s.sync.cells, xa) L = wb at gb lb cb ew
    obtain ⟨cellsb, xb⟩ := wb
    simp only at gb lb cb
    have hxb : xb.cur = s.sync.currentFrame := by rw [cb, ca]; omega
    rcases finish_world step g0 csf s1 s' x xb cellsb gh' ⟨s.sync.currentFrame, R0⟩ _ r hinv1 hr1
      (by rw [hcur1, hnp1, hrow']; exact hrows1)
      (by rw [hcl1]; exact ew)
      (by rw [hnp1, hrow', hcur1]; exact gb) (by rw [hcur1]; exact hxb) (by rw [hcl1]; exact lb) (by rw [hcl1]; exact hn)
      (by rw [hnp1, hrow', hcur1]; exact hh1) ha with ⟨he, hs'⟩ | hok
    · left
      refine ⟨he, ?_⟩
      subst hs'
      refine ⟨by rw [hcl1]; exact hn, by rw [hcur1]; exact h.xcur, gh',
        (execReqs ⟨s.sync.currentFrame, R0⟩ ([.load (s.sync.currentFrame - (s.checkDistance : Int))] ++ L)).R, ?_, ?_, hr1, hclean1, ?_, ?_⟩
      · have := TInv_restart _ _ _ _ _ _ hinv1
        exact this
      · intro f hf
        rw [hnp1, hrow']
        exact hrows1 f (by rw [← hcur1]; exact hf)
      · rw [hnp1, hrow', hcl1, hcur1]; exact hg
      · rw [hnp1, hrow', hcur1]; exact hh1
    · exact Or.inr hok
  · rw [if_neg hwarm] at ha
    rcases finish_world step g0 csf s s' x x s.sync.cells gh ⟨s.sync.currentFrame, R0⟩ [] r hinv hr
      (fun f hf => hrows0 f hf) rfl hg h.xcur rfl hn hh ha with ⟨he, hs'⟩ | hok
    · left
      subst hs'
      exact ⟨he, h⟩
    · exact Or.inr hok

end Ggrs

namespace Ggrs
open InputQueue

/-! ### steps of the sync-test world, the initial state, every run -/

/-- The user adds a local input. -/
theorem STInv_addInput {G : Type} (step : G → List (Input × InputStatus) → G) (g0 : G) (csf : G → Option Nat)
    (s : SyncTest) (x : GS G) (handle : Nat) (v : Input) (h : STInv step g0 csf s x) :
    STInv step g0 csf (s.addLocalInput handle v).1 x := by
  unfold SyncTest.addLocalInput
  by_cases hh : handle ≥ s.numPlayers
  · rw [if_pos hh]; exact h
  rw [if_neg hh]
  obtain ⟨gh, R0, hinv, hrows, hr, hclean, hg, hhist⟩ := h.ex
  refine ⟨h.ncells, h.xcur, gh, R0, hinv, hrows, ⟨hr.nq, hr.asked, hr.lu, ?_, ?_, hr.cd⟩, hclean, hg, hhist⟩
  · show ((s.localInputs.filter (·.1 != handle) ++ [(handle, (⟨s.sync.currentFrame, v⟩ : PlayerInput))]).map (·.1)).Nodup
    rw [List.map_append, List.nodup_append]
    refine ⟨?_, by simp, ?_⟩
    · exact List.Nodup.sublist (List.Sublist.map _ List.filter_sublist) hr.liNodup
    · intro a ha b hb
      simp only [List.map_cons, List.map_nil, List.mem_singleton] at hb
      subst hb
      obtain ⟨y, hy, hye⟩ := List.mem_map.mp ha
      have := (List.mem_filter.mp hy).2
      intro e
      rw [← hye] at e
      simp [e] at this
  · intro y hy
    show y.1 < s.numPlayers ∧ y.2.frame = s.sync.currentFrame
    have hy' : y ∈ s.localInputs.filter (·.1 != handle) ++ [(handle, (⟨s.sync.currentFrame, v⟩ : PlayerInput))] := hy
    rcases List.mem_append.mp hy' with h1 | h1
    · exact hr.liOk y (List.mem_filter.mp h1).1
    · simp only [List.mem_singleton] at h1
      subst h1
      exact ⟨by show handle < s.numPlayers; omega, rfl⟩

theorem foldlM_inv {σ α : Type} (P : σ → Prop) (f : σ → α → M σ) : ∀ (l : List α) (init r : σ), P init →
    (∀ s a s', a ∈ l → P s → f s a = .ok s' → P s') → l.foldlM f init = .ok r → P r := by
  intro l
  induction l with
  | nil =>
    intro init r hP _ h
    rw [List.foldlM_nil] at h
    rw [← pure_ok h]; exact hP
  | cons a as ih =>
    intro init r hP hstep h
    rw [List.foldlM_cons] at h
    obtain ⟨s1, h1, h2⟩ := bind_ok h
    exact ih s1 r (hstep init a s1 List.mem_cons_self hP h1)
      (fun s b s' hb => hstep s b s' (List.mem_cons_of_mem _ hb)) h2

/-- A freshly built sync test (any player count, window, check distance ≥ 1, delay) next to a game
at its initial state. -/
theorem STInv_new {G : Type} (step : G → List (Input × InputStatus) → G) (g0 : G) (csf : G → Option Nat)
    (N mp cd delay : Nat) (pr : Predictor) (s : SyncTest) (R : Nat → List (Input × InputStatus))
    (cellG : Nat → G) (tag : Nat → Int) (hcd : 0 < cd)
    (hnew : SyncTest.new N mp cd delay pr = .ok s) : STInv step g0 csf s ⟨0, R, g0, cellG, tag⟩ := by
  unfold SyncTest.new at hnew
  obtain ⟨sy, hfold, hnew⟩ := bind_ok hnew
  have hs := pure_ok hnew
  subst hs
  let Tp : Nat → Nat → Input := fun p f => ((R f).getD p default).1
  have hP := foldlM_inv (fun sy : SyncLayer => sy.numPlayers = N ∧ sy.queues.length = N ∧ sy.currentFrame = 0 ∧
      sy.cells = List.replicate (mp + 1) {} ∧
      ∀ p, p < N → ∃ sp : QSpec, QI pr (rget sy.queues p) sp [] (Tp p) 0 ∧ sp.vals = [] ∧ sp.lastUser = -1 ∧
        (rget sy.queues p).firstIncorrectFrame = NULL_FRAME) _ (List.range N) (SyncLayer.new N mp) sy
    ?_ ?_ hfold
  · obtain ⟨hnp, hql, hc, hcells, hall⟩ := hP
    have hchoice : ∀ p, ∃ sp : QSpec, p < N → QI pr (rget sy.queues p) sp [] (Tp p) 0 ∧ sp.vals = [] ∧ sp.lastUser = -1 := by
      intro p
      by_cases hp : p < N
      · obtain ⟨sp, a, b, c, _⟩ := hall p hp
        exact ⟨sp, fun _ => ⟨a, b, c⟩⟩
      · exact ⟨{}, fun h => absurd h hp⟩
    let specs : Nat → QSpec := fun p => Classical.choose (hchoice p)
    have hspecs : ∀ p, p < N → QI pr (rget sy.queues p) (specs p) [] (Tp p) 0 ∧ (specs p).vals = [] ∧ (specs p).lastUser = -1 :=
      fun p hp => Classical.choose_spec (hchoice p) hp
    have hlen : sy.cells.length = mp + 1 := by rw [hcells]; simp
    refine ⟨by show 0 < sy.cells.length; rw [hlen]; omega, hc.symm, ⟨specs, fun _ => [], Tp⟩, R, ?_, ?_, ?_, ?_, ?_, ?_⟩
    · show TInv pr sy (List.replicate N {}) _ ⟨sy.currentFrame, R⟩ []
      refine ⟨⟨by rw [hc]; exact Int.le_refl _, by rw [List.length_replicate, hql], ?_, ?_⟩, rfl, ?_⟩
      · intro cs hcs
        rw [List.eq_of_mem_replicate hcs]
      · intro p hp
        rw [hql] at hp
        rw [hc]
        exact (hspecs p hp).1
      · intro p _ f
        rfl
    · intro f hf
      have : sy.currentFrame = 0 := hc
      rw [this] at hf
      omega
    · refine ⟨hql, ?_, ?_, List.nodup_nil, (fun x hx => by cases hx), hcd⟩
      · intro p _ h0
        have : sy.currentFrame = 0 := hc
        rw [this] at h0
        omega
      · intro p hp
        show (specs p).lastUser = sy.currentFrame - 1 ∧ sy.currentFrame ≤ _
        rw [(hspecs p hp).2.2, (hspecs p hp).2.1, hc]
        exact ⟨rfl, Int.le_refl _⟩
    · intro p hp
      rw [hql] at hp
      obtain ⟨_, _, _, _, d⟩ := hall p hp
      exact d
    · refine ⟨Int.le_refl _, by show (0 : Int) ≤ sy.currentFrame; rw [hc]; exact Int.le_refl _, (fun f hf => by have : (f : Int) < 0 := hf; omega), rfl, ?_⟩
      intro i hi h0
      exfalso
      show False
      have : (rget sy.cells i).frame = NULL_FRAME := by
        rw [hcells]
        rw [hlen] at hi
        simp [rget, List.getD_eq_getElem?_getD, hi]
      rw [this] at h0
      simp [NULL_FRAME] at h0
    · intro f c hl
      simp [alookup] at hl
  · -- the fresh sync layer
    refine ⟨rfl, by simp [SyncLayer.new], rfl, rfl, ?_⟩
    intro p hp
    refine ⟨{}, ?_, rfl, rfl, ?_⟩
    · have : rget (SyncLayer.new N mp).queues p = InputQueue.new := by
        simp [SyncLayer.new, rget, List.getD_eq_getElem?_getD, hp]
      rw [this]; exact QI_new pr (Tp p)
    · have : rget (SyncLayer.new N mp).queues p = InputQueue.new := by
        simp [SyncLayer.new, rget, List.getD_eq_getElem?_getD, hp]
      rw [this]; rfl
  · -- one player's delay
    intro sy0 i sy1 _ hP0 hstep
    obtain ⟨hnp, hql, hc, hcells, hall⟩ := hP0
    obtain ⟨r, hsd, hstep⟩ := bind_ok hstep
    obtain ⟨sy2, fills⟩ := r
    simp only at hstep
    have := pure_ok hstep
    subst this
    unfold SyncLayer.setFrameDelay at hsd
    obtain ⟨hi, hsd⟩ := ensure_bind_ok hsd
    have hiN : i < N := by rw [← hnp]; exact of_decide_eq_true hi
    obtain ⟨r2, hq, hsd⟩ := bind_ok hsd
    obtain ⟨q', fl⟩ := r2
    simp only at hsd
    have := pure_ok hsd
    simp only [Prod.mk.injEq] at this
    obtain ⟨hsy, _⟩ := this
    subst hsy
    obtain ⟨sp, hqi, hv, hlu, hfi⟩ := hall i hiN
    have hasked : Asked (rget sy0.queues i) 0 := fun h0 => absurd h0 (by omega)
    obtain ⟨hqi', _, _⟩ := QI_setDelay pr _ q' sp [] (Tp i) 0 delay fl hqi hasked hq
    have hsd' : (sp.setDelay delay).1 = { sp with delay := delay } := by
      unfold QSpec.setDelay
      simp [hv]
    have hfi' : q'.firstIncorrectFrame = NULL_FRAME := by
      have hla : (rget sy0.queues i).lastAddedFrame = NULL_FRAME := by
        rw [lastAdded_of_QI hqi, hv]; rfl
      unfold InputQueue.setFrameDelay at hq
      simp only [hla, beq_self_eq_true, if_true] at hq
      have := pure_ok hq
      simp only [Prod.mk.injEq] at this
      rw [← this.1]; exact hfi
    refine ⟨hnp, by show (rset sy0.queues i q').length = N; rw [rset_length]; exact hql, hc, hcells, ?_⟩
    intro p hp
    show ∃ sp : QSpec, QI pr (rget (rset sy0.queues i q') p) sp [] (Tp p) 0 ∧ _ ∧ _ ∧ (rget (rset sy0.queues i q') p).firstIncorrectFrame = NULL_FRAME
    by_cases hpi : p = i
    · subst hpi
      rw [rget_rset_eq _ _ _ (by rw [hql]; exact hp)]
      exact ⟨{ sp with delay := delay }, by rw [← hsd']; exact hqi', hv, hlu, hfi'⟩
    · rw [rget_rset_ne _ _ _ _ (fun e => hpi e.symm)]
      exact hall p hp

/-- Steps of the world: the user adds an input; `advance_frame` fails (the game does nothing);
`advance_frame` returns requests and the game executes them, its saves reaching the cells. -/
inductive STStep {G : Type} (step : G → List (Input × InputStatus) → G) (csf : G → Option Nat) :
    (SyncTest × GS G) → (SyncTest × GS G) → Prop
  | addInput (s : SyncTest) (x : GS G) (handle : Nat) (v : Input) : STStep step csf (s, x) ((s.addLocalInput handle v).1, x)
  | tickErr (s s' : SyncTest) (x : GS G) (e : GgrsError) : s.advanceFrame = .ok (s', .error e) → STStep step csf (s, x) (s', x)
  | tickOk (s s' : SyncTest) (x : GS G) (reqs : List Request) : s.advanceFrame = .ok (s', .ok reqs) →
      STStep step csf (s, x)
        (s'.withCells (execSWs step csf (s'.sync.cells, x) reqs).1, (execSWs step csf (s'.sync.cells, x) reqs).2)

inductive STStar {G : Type} (step : G → List (Input × InputStatus) → G) (csf : G → Option Nat) :
    (SyncTest × GS G) → (SyncTest × GS G) → Prop
  | refl (w) : STStar step csf w w
  | step (a b c) : STStar step csf a b → STStep step csf b c → STStar step csf a c

theorem STInv_step {G : Type} (step : G → List (Input × InputStatus) → G) (g0 : G) (csf : G → Option Nat)
    (a b : SyncTest × GS G) (h : STInv step g0 csf a.1 a.2) (hs : STStep step csf a b) : STInv step g0 csf b.1 b.2 := by
  cases hs with
  | addInput s x handle v => exact STInv_addInput step g0 csf s x handle v h
  | tickErr s s' x e ha =>
    rcases STInv_tick step g0 csf s s' x _ h ha with ⟨_, h'⟩ | ⟨reqs, hr, _⟩
    · exact h'
    · cases hr
  | tickOk s s' x reqs ha =>
    rcases STInv_tick step g0 csf s s' x _ h ha with ⟨hr, _⟩ | ⟨reqs', hr, h'⟩
    · cases hr
    · cases hr; exact h'

theorem STInv_run {G : Type} (step : G → List (Input × InputStatus) → G) (g0 : G) (csf : G → Option Nat)
    (a b : SyncTest × GS G) (h : STInv step g0 csf a.1 a.2) (hr : STStar step csf a b) : STInv step g0 csf b.1 b.2 := by
  induction hr with
  | refl => exact h
  | step b c _ hs ih => exact STInv_step step g0 csf b c ih hs

end Ggrs

namespace Ggrs

/-! ### check distance 0, and the world step in terms of `userExecute` -/

theorem finishFrame_cd0 (s s' : SyncTest) (pre : List Request) (r : Except GgrsError (List Request))
    (h0 : s.checkDistance = 0) (hf : s.finishFrame pre = .ok (s', r)) :
    s'.checkDistance = 0 ∧ ∀ e, r = .error e → e = .invalidRequest := by
  unfold SyncTest.finishFrame at hf
  by_cases hnp : (s.numPlayers != s.localInputs.length) = true
  · rw [if_pos hnp] at hf
    have := pure_ok hf
    simp only [Prod.mk.injEq] at this
    rw [← this.1, ← this.2]
    exact ⟨h0, fun e he => by cases he; rfl⟩
  rw [if_neg hnp] at hf
  obtain ⟨sy1, _, hf⟩ := bind_ok hf
  simp only at hf
  obtain ⟨r2, hsb, hf⟩ := bind_ok hf
  obtain ⟨s2, reqs2⟩ := r2
  simp only at hf
  obtain ⟨r3, _, hf⟩ := bind_ok hf
  obtain ⟨sy3, inputs⟩ := r3
  simp only at hf
  obtain ⟨sy4, _, hf⟩ := bind_ok hf
  have := pure_ok hf
  simp only [Prod.mk.injEq] at this
  obtain ⟨hs', hreq⟩ := this
  have hcd2 : s2.checkDistance = 0 := by
    unfold SyncTest.saveBeforeAdvance at hsb
    have hn : ¬ (0 < s.checkDistance) := by omega
    rw [if_neg (by exact hn)] at hsb
    have := pure_ok hsb
    simp only [Prod.mk.injEq] at this
    rw [← this.1]; exact h0
  rw [← hs', ← hreq]
  exact ⟨hcd2, fun e he => by cases he⟩

theorem advanceFrame_cd0 (s s' : SyncTest) (r : Except GgrsError (List Request))
    (h0 : s.checkDistance = 0) (ha : s.advanceFrame = .ok (s', r)) :
    s'.checkDistance = 0 ∧ ∀ e, r = .error e → e = .invalidRequest := by
  unfold SyncTest.advanceFrame at ha
  simp only at ha
  have : (decide (s.checkDistance > 0) && decide (s.sync.currentFrame > (s.checkDistance : Int))) = false := by
    rw [h0]; simp
  rw [if_neg (by rw [this]; simp)] at ha
  exact finishFrame_cd0 s s' [] r h0 ha

theorem cd0_run {G : Type} (step : G → List (Input × InputStatus) → G) (csf : G → Option Nat)
    (a b : SyncTest × GS G) (h0 : a.1.checkDistance = 0) (hr : STStar step csf a b) : b.1.checkDistance = 0 := by
  induction hr with
  | refl => exact h0
  | step b c _ hs ih =>
    cases hs with
    | addInput s x handle v =>
      show (s.addLocalInput handle v).1.checkDistance = 0
      unfold SyncTest.addLocalInput
      split
      · exact ih
      · exact ih
    | tickErr s s' x e ha => exact (advanceFrame_cd0 s s' _ ih ha).1
    | tickOk s s' x reqs ha => exact (advanceFrame_cd0 s s' _ ih ha).1

/-- The checksums the deterministic game hands over with its saves. -/
def gameSaves {G : Type} (step : G → List (Input × InputStatus) → G) (csf : G → Option Nat) (n : Nat) :
    GS G → List Request → List (Frame × Option Nat)
  | _, [] => []
  | x, .save f :: rs => (f, csf x.g) :: gameSaves step csf n (execG step n x (.save f)) rs
  | x, .load f :: rs => gameSaves step csf n (execG step n x (.load f)) rs
  | x, .advance ins :: rs => gameSaves step csf n (execG step n x (.advance ins)) rs

/-- The world step above is the driver's `userExecute` with the game's own checksums. -/
theorem execSWs_userExecute {G : Type} (step : G → List (Input × InputStatus) → G) (csf : G → Option Nat) :
    ∀ (reqs : List Request) (sy : SyncLayer) (x : GS G),
    (execSWs step csf (sy.cells, x) reqs).1 =
      ((gameSaves step csf sy.cells.length x reqs).foldl (fun sy (p : Frame × Option Nat) => sy.userSave p.1 p.2) sy).cells ∧
    (execSWs step csf (sy.cells, x) reqs).2 = execGs step sy.cells.length x reqs := by
  intro reqs
  induction reqs with
  | nil => intro sy x; exact ⟨rfl, rfl⟩
  | cons r rs ih =>
    intro sy x
    cases r with
    | save f =>
      have hl : (sy.userSave f (csf x.g)).cells.length = sy.cells.length := by simp [SyncLayer.userSave, rset_length]
      have := ih (sy.userSave f (csf x.g)) (execG step sy.cells.length x (.save f))
      rw [hl] at this
      simp only [execSWs, List.foldl_cons, execSW, gameSaves, execGs] at this ⊢
      exact this
    | load f =>
      have := ih sy (execG step sy.cells.length x (.load f))
      simp only [execSWs, List.foldl_cons, execSW, gameSaves, execGs] at this ⊢
      exact this
    | advance ins =>
      have := ih sy (execG step sy.cells.length x (.advance ins))
      simp only [execSWs, List.foldl_cons, execSW, gameSaves, execGs] at this ⊢
      exact this

end Ggrs
