/-
L-synctest: a SyncTestSession driving a deterministic game never reports MismatchedChecksum.
-/
import GgrsModel.Proofs.World
import GgrsModel.Model.SyncTest

namespace Ggrs
open InputQueue

/-- The row of frame `f` when every player's input is there: real values, all Confirmed. -/
def rowOf (gh : Ghost) (N : Nat) (f : Nat) : List (Input × InputStatus) :=
  (List.range N).map fun p => ((gh.specs p).vals.getD f 0, InputStatus.confirmed)

theorem rowOf_length (gh : Ghost) (N f : Nat) : (rowOf gh N f).length = N := by simp [rowOf]

theorem rowOf_congr (gh gh' : Ghost) (N f : Nat)
    (h : ∀ p, p < N → (gh'.specs p).vals.getD f 0 = (gh.specs p).vals.getD f 0) : rowOf gh' N f = rowOf gh N f := by
  unfold rowOf
  apply List.map_congr_left
  intro p hp
  rw [h p (List.mem_range.mp hp)]

/-- With every input of frame `c` present, `synchronized_inputs` returns exactly the row. -/
theorem inputs_eq_row (pr : Predictor) (gh : Ghost) (N c : Nat) (ins : List (Input × InputStatus))
    (hlen : ins.length = N) (hok : InputsOk pr gh c ins) (hfull : ∀ p, p < N → c < (gh.specs p).vals.length) :
    ins = rowOf gh N c := by
  apply List.ext_getElem (by rw [hlen, rowOf_length])
  intro p h1 h2
  have hp : p < N := by rw [hlen] at h1; exact h1
  have hget : ins[p] = ins.getD p default := by simp [List.getD_eq_getElem?_getD, List.getElem?_eq_getElem h1]
  rcases hok p h1 with ⟨a, _, b⟩ | ⟨_, a, _⟩
  · simp only [rowOf, List.getElem_map, List.getElem_range]
    rw [hget]
    exact Prod.ext b a
  · have := hfull p hp; omega

theorem execReqs_saves (t : TLState) (mid : List Request) (h : ∀ r ∈ mid, ∃ f, r = .save f) : execReqs t mid = t := by
  induction mid generalizing t with
  | nil => rfl
  | cons r rest ih =>
    obtain ⟨f, hf⟩ := h r List.mem_cons_self
    simp only [execReqs, List.foldl_cons, hf, execReq]
    exact ih t (fun r hr => h r (List.mem_cons_of_mem _ hr))

theorem replay_congr {G : Type} (step : G → List (Input × InputStatus) → G) (g0 : G)
    (R R' : Nat → List (Input × InputStatus)) : ∀ k, (∀ j, j < k → R' j = R j) →
    replay step g0 R' k = replay step g0 R k := by
  intro k
  induction k with
  | zero => intro _; rfl
  | succ k ih =>
    intro h
    simp only [replay]
    rw [ih (fun j hj => h j (by omega)), h k (by omega)]

end Ggrs

namespace Ggrs
open InputQueue

theorem st_resimSave_shape (i : Nat) (sy sy' : SyncLayer) (reqs reqs' : List Request)
    (h : SyncTest.resimSave i sy reqs = .ok (sy', reqs')) :
    ∃ mid, reqs' = reqs ++ mid ∧ (mid = [] ∨ mid = [.save sy.currentFrame]) ∧
      ((i = 0 → mid = []) ∧ (i > 0 → mid = [.save sy.currentFrame])) ∧
      sy'.currentFrame = sy.currentFrame ∧ sy'.cells = sy.cells ∧ sy'.queues = sy.queues := by
  unfold SyncTest.resimSave at h
  by_cases hi : i > 0
  · rw [if_pos hi] at h
    obtain ⟨r3, hs3, h⟩ := bind_ok h
    obtain ⟨sy3, rq⟩ := r3
    simp only at h
    have := pure_ok h
    simp only [Prod.mk.injEq] at this
    obtain ⟨hr, _, hc, hcl, hq⟩ := save_shape sy sy3 rq hs3
    exact ⟨[.save sy.currentFrame], by rw [← this.2, hr], Or.inr rfl, ⟨fun h0 => by omega, fun _ => rfl⟩,
      by rw [← this.1, hc], by rw [← this.1, hcl], by rw [← this.1, hq]⟩
  · rw [if_neg hi] at h
    have := pure_ok h
    simp only [Prod.mk.injEq] at this
    exact ⟨[], by rw [← this.2]; simp, Or.inl rfl, ⟨fun _ => rfl, fun h0 => absurd h0 hi⟩,
      by rw [← this.1], by rw [← this.1], by rw [← this.1]⟩

/-- The re-simulation loop of a sync test: the invariant, the shape of the requests, and every
re-simulated row is the full row of real inputs. -/
theorem st_resim_loop (s : SyncTest) (t0 : TLState) (N : Nat) (cmax : Int) : ∀ (n i : Nat) (sy : SyncLayer)
    (reqs : List Request) (sy' : SyncLayer) (reqs' : List Request) (gh : Ghost),
    TInv s.pred sy s.dummyConnectStatus gh t0 reqs → sy.queues.length = N →
    (∀ p, p < N → cmax ≤ (gh.specs p).vals.length) → sy.currentFrame + (n : Int) ≤ cmax →
    (∀ f : Nat, (f : Int) < sy.currentFrame → (execReqs t0 reqs).R f = rowOf gh N f) →
    SyncTest.adjustGamestate.loop s n i sy reqs = .ok (sy', reqs') →
    ∃ gh' : Ghost, TInv s.pred sy' s.dummyConnectStatus gh' t0 reqs' ∧ gh'.specs = gh.specs ∧
      sy'.currentFrame = sy.currentFrame + n ∧ sy'.queues.length = N ∧ sy'.cells = sy.cells ∧
      (∀ f : Nat, (f : Int) < sy'.currentFrame → (execReqs t0 reqs').R f = rowOf gh N f) ∧
      (n > 0 → AllAsked sy'.queues sy'.currentFrame ∧
        ∀ p, p < sy'.queues.length → (rget sy'.queues p).firstIncorrectFrame = NULL_FRAME) ∧
      ∃ L, reqs' = reqs ++ L ∧ ResimShape false i sy.currentFrame n L := by
  intro n
  induction n with
  | zero =>
    intro i sy reqs sy' reqs' gh h hN _ _ hrows hl
    simp only [SyncTest.adjustGamestate.loop] at hl
    cases hl
    exact ⟨gh, h, rfl, by simp, hN, rfl, hrows, fun h0 => absurd h0 (by omega), [], by simp, rfl⟩
  | succ k ih =>
    intro i sy reqs sy' reqs' gh h hN hfull hbound hrows hl
    simp only [SyncTest.adjustGamestate.loop] at hl
    obtain ⟨r1, hsim, hl⟩ := bind_ok hl
    obtain ⟨sy1, inputs⟩ := r1
    simp only at hl
    obtain ⟨r2, hsave, hl⟩ := bind_ok hl
    obtain ⟨sy2, reqs2⟩ := r2
    simp only at hl
    obtain ⟨mid, hr2, hmid, hns, hc2, hcl2, hq2⟩ := st_resimSave_shape i sy1 sy2 reqs reqs2 hsave
    have hmidsave : ∀ r ∈ mid, ∃ f, r = .save f := by
      intro r hr
      rcases hmid with hm | hm
      · rw [hm] at hr; cases hr
      · rw [hm] at hr; simp only [List.mem_singleton] at hr; exact ⟨_, hr⟩
    obtain ⟨c, gh1, hc0, hok, hsp1, hinv1, hcur1, hask1, hclean1⟩ :=
      TInv_simulate s.pred sy sy1 sy2 s.dummyConnectStatus gh t0 reqs mid inputs h hsim hmidsave hq2 hc2
    obtain ⟨_, _, _, _, hql1, hinl, hcells1, _, _, _, hcf1, _⟩ :=
      SyncInv_simulate s.pred sy sy1 s.dummyConnectStatus gh inputs h.sync hsim
    -- the row just simulated is the full row
    have hrow : inputs = rowOf gh N c := by
      apply inputs_eq_row s.pred gh N c inputs (by rw [hinl, hN]) hok
      intro p hp
      have := hfull p hp
      have hcn : (c : Int) < cmax := by rw [← hc0]; push_cast at hbound; omega
      omega
    rw [hr2] at hl
    have hN1 : sy2.advanceFrame.queues.length = N := by
      show sy2.queues.length = N; rw [hq2, hql1]; exact hN
    have hrows1 : ∀ f : Nat, (f : Int) < sy2.advanceFrame.currentFrame →
        (execReqs t0 (reqs ++ mid ++ [.advance inputs])).R f = rowOf gh1 N f := by
      intro f hf
      rw [hcur1, hc0] at hf
      have hR : (execReqs t0 (reqs ++ mid ++ [.advance inputs])).R = upd (execReqs t0 reqs).R c inputs := by
        rw [execReqs_append, execReqs_append, execReqs_saves _ mid hmidsave]
        simp only [execReqs, List.foldl_cons, List.foldl_nil, execReq]
        have : (List.foldl execReq t0 reqs).cur = (c : Int) := by
          have := h.exec; simp only [execReqs] at this; rw [this, hc0]
        rw [this]; simp
      rw [hR, rowOf_congr gh gh1 N f (fun p _ => by rw [hsp1])]
      by_cases hfc : f = c
      · subst hfc; rw [upd_self, hrow]
      · rw [upd_ne _ _ _ _ hfc]
        exact hrows f (by rw [hc0]; omega)
    obtain ⟨gh', hinv', hsp', hcur', hN', hcl', hrows', hrest, L', hL', hsh'⟩ :=
      ih (i + 1) sy2.advanceFrame _ sy' reqs' gh1 hinv1 hN1 (fun p hp => by rw [hsp1]; exact hfull p hp)
        (by rw [hcur1]; push_cast at hbound; omega) hrows1 hl
    refine ⟨gh', hinv', by rw [hsp', hsp1], by rw [hcur', hcur1]; push_cast; omega, hN',
      by rw [hcl']; show sy2.cells = _; rw [hcl2, hcells1], ?_, fun _ => ?_, mid ++ [.advance inputs] ++ L', ?_, ?_⟩
    · intro f hf
      rw [hrows' f hf, rowOf_congr gh gh1 N f (fun p _ => by rw [hsp1])]
    · by_cases hk : k > 0
      · exact hrest hk
      · have hk0 : k = 0 := by omega
        subst hk0
        simp only [SyncTest.adjustGamestate.loop] at hl
        cases hl
        exact ⟨hask1, hclean1⟩
    · rw [hL']; simp
    · refine ⟨mid, inputs, L', rfl, by rw [hcf1] at hmid; exact hmid, fun _ => by rw [hcf1] at hns; exact hns, ?_⟩
      have : sy2.advanceFrame.currentFrame = sy.currentFrame + 1 := hcur1
      rw [← this]; exact hsh'

end Ggrs

namespace Ggrs
open InputQueue

/-- `adjust_gamestate` of a sync test: load `frame_to`, re-simulate back to the current frame. -/
theorem st_adjust_spec (s s' : SyncTest) (frameTo : Frame) (t0 : TLState) (reqs reqs' : List Request) (gh : Ghost)
    (N : Nat) (h : TInv s.pred s.sync s.dummyConnectStatus gh t0 reqs) (hN : s.sync.queues.length = N)
    (hfull : ∀ p, p < N → s.sync.currentFrame ≤ (gh.specs p).vals.length)
    (hclean : ∀ p, p < s.sync.queues.length → (rget s.sync.queues p).firstIncorrectFrame = NULL_FRAME)
    (hrows : ∀ f : Nat, (f : Int) < s.sync.currentFrame → (execReqs t0 reqs).R f = rowOf gh N f)
    (hadj : s.adjustGamestate frameTo reqs = .ok (s', reqs')) :
    ∃ gh' : Ghost, TInv s.pred s'.sync s.dummyConnectStatus gh' t0 reqs' ∧ gh'.specs = gh.specs ∧
      s' = { s with sync := s'.sync } ∧ s'.sync.currentFrame = s.sync.currentFrame ∧ s'.sync.queues.length = N ∧
      s'.sync.cells = s.sync.cells ∧
      (∀ f : Nat, (f : Int) < s'.sync.currentFrame → (execReqs t0 reqs').R f = rowOf gh N f) ∧
      AllAsked s'.sync.queues s'.sync.currentFrame ∧
      (∀ p, p < s'.sync.queues.length → (rget s'.sync.queues p).firstIncorrectFrame = NULL_FRAME) ∧
      0 ≤ frameTo ∧ frameTo < s.sync.currentFrame ∧
      (rget s.sync.cells (frameTo.toNat % s.sync.cells.length)).frame = frameTo ∧
      ∃ L, reqs' = reqs ++ [.load frameTo] ++ L ∧ ResimShape false 0 frameTo (s.sync.currentFrame - frameTo).toNat L := by
  unfold SyncTest.adjustGamestate at hadj
  simp only at hadj
  obtain ⟨p1, hload, hadj⟩ := bind_ok hadj
  obtain ⟨sy1, req⟩ := p1
  simp only at hadj
  obtain ⟨_, hadj⟩ := ensure_bind_ok hadj
  obtain ⟨p2, hloop, hadj⟩ := bind_ok hadj
  obtain ⟨sy2, reqs2⟩ := p2
  simp only at hadj
  obtain ⟨hback, hadj⟩ := ensure_bind_ok hadj
  have := pure_ok hadj
  simp only [Prod.mk.injEq] at this
  obtain ⟨hs', hreqs'⟩ := this
  obtain ⟨hsy1, hreq, hlt, h0⟩ := loadFrame_fields s.sync sy1 frameTo req hload
  -- the tag check of load_frame
  have htag : (rget s.sync.cells (frameTo.toNat % s.sync.cells.length)).frame = frameTo := by
    unfold SyncLayer.loadFrame at hload
    obtain ⟨_, hload⟩ := ensure_bind_ok hload
    obtain ⟨_, hload⟩ := ensure_bind_ok hload
    obtain ⟨_, hload⟩ := ensure_bind_ok hload
    obtain ⟨pos, hpos, hload⟩ := bind_ok hload
    obtain ⟨ht, _⟩ := ensure_bind_ok hload
    unfold SyncLayer.cellPos at hpos
    obtain ⟨_, hpos⟩ := ensure_bind_ok hpos
    have hp := pure_ok hpos
    have : pos = frameTo.toNat % s.sync.cells.length := by rw [← hp]; simp [frameIdx, usizeOfFrame, h0]
    rw [← this]; simpa using ht
  have hq : sy1.resetPrediction.queues = s.sync.queues.map InputQueue.resetPrediction := by rw [hsy1]; rfl
  have hc : sy1.resetPrediction.currentFrame = frameTo := by rw [hsy1]; rfl
  have hcells1 : sy1.resetPrediction.cells = s.sync.cells := by rw [hsy1]; rfl
  have hinv1 : TInv s.pred sy1.resetPrediction s.dummyConnectStatus { gh with hists := fun _ => [] } t0 (reqs ++ [req]) := by
    refine ⟨⟨by rw [hc]; exact h0, by rw [hq, List.length_map]; exact h.sync.nq, h.sync.conn, ?_⟩, ?_, ?_⟩
    · intro p hp
      rw [hq, List.length_map] at hp
      rw [hq, rget_map_lt _ _ _ hp, hc]
      exact QI_reset s.pred _ _ _ _ _ frameTo (h.sync.all p hp) (Int.le_of_lt hlt)
        (fun hne => absurd (hclean p hp) hne)
    · rw [execReqs_append, hreq, hc]; rfl
    · intro p hp f
      rw [hq, List.length_map] at hp
      rw [execReqs_append, hreq]
      exact h.rows p hp f
  have hrows1 : ∀ f : Nat, (f : Int) < sy1.resetPrediction.currentFrame →
      (execReqs t0 (reqs ++ [req])).R f = rowOf ({ gh with hists := fun _ => [] } : Ghost) N f := by
    intro f hf
    rw [hc] at hf
    rw [execReqs_append, hreq]
    exact hrows f (by omega)
  obtain ⟨gh', hinv', hsp', hcur', hN', hcl', hrows', hrest, L, hL, hsh⟩ :=
    st_resim_loop s t0 N s.sync.currentFrame _ 0 _ _ sy2 reqs2 _ hinv1 (by rw [hq, List.length_map]; exact hN)
      hfull (by rw [hc]; omega) hrows1 hloop
  have hcnt : (s.sync.currentFrame - frameTo).toNat > 0 := by omega
  obtain ⟨hask, hcl⟩ := hrest hcnt
  have hcur2 : sy2.currentFrame = s.sync.currentFrame := by simpa using hback
  rw [hc] at hsh
  subst hs'
  subst hreqs'
  refine ⟨gh', hinv', by rw [hsp'], rfl, hcur2, hN', by show sy2.cells = _; rw [hcl', hcells1], ?_, hask, hcl, h0, hlt, htag,
    L, by rw [hL, hreq], hsh⟩
  intro f hf
  exact hrows' f hf

end Ggrs

namespace Ggrs

/-! ### generic association-list facts -/

theorem alookup_filter_key {β} (keep : Int → Bool) (f : Int) : ∀ (l : List (Int × β)),
    alookup f (l.filter fun p => keep p.1) = if keep f then alookup f l else none := by
  intro l
  induction l with
  | nil => simp [alookup]
  | cons x xs ih =>
    obtain ⟨k, v⟩ := x
    simp only [List.filter_cons]
    by_cases hk : keep k = true
    · simp only [hk, if_true, alookup]
      by_cases hkf : (k == f) = true
      · have : k = f := by simpa using hkf
        subst this
        simp [hk]
      · simp only [hkf, Bool.false_eq_true, if_false]; exact ih
    · simp only [hk, Bool.false_eq_true, if_false, alookup]
      by_cases hkf : (k == f) = true
      · have : k = f := by simpa using hkf
        subst this
        simp only [hk, Bool.false_eq_true, if_false] at ih ⊢
        exact ih
      · simp only [hkf, Bool.false_eq_true, if_false]; exact ih

theorem alookup_ainsert_self' {β} (k : Int) (v : β) : ∀ (l : List (Int × β)), alookup k (ainsert k v l) = some v := by
  intro l
  induction l with
  | nil => simp [ainsert, alookup]
  | cons x xs ih =>
    obtain ⟨k', v'⟩ := x
    simp only [ainsert]
    by_cases h1 : k < k'
    · simp [h1, alookup]
    · simp only [h1, if_false]
      by_cases h2 : (k == k') = true
      · simp [h2, alookup]
      · simp only [h2, Bool.false_eq_true, if_false, alookup]
        have : (k' == k) = false := by
          simp only [beq_eq_false_iff_ne, ne_eq]
          intro h; apply h2; simp [h]
        simp [this, ih]

theorem alookup_ainsert_ne' {β} (k j : Int) (v : β) (hj : j ≠ k) : ∀ (l : List (Int × β)),
    alookup j (ainsert k v l) = alookup j l := by
  intro l
  induction l with
  | nil =>
    have : (k == j) = false := by simp only [beq_eq_false_iff_ne, ne_eq]; exact fun h => hj h.symm
    simp [ainsert, alookup, this]
  | cons x xs ih =>
    obtain ⟨k', v'⟩ := x
    have hkj : (k == j) = false := by simp only [beq_eq_false_iff_ne, ne_eq]; exact fun h => hj h.symm
    simp only [ainsert]
    by_cases h1 : k < k'
    · simp [h1, alookup, hkj]
    · simp only [h1, if_false]
      by_cases h2 : (k == k') = true
      · have hk : k = k' := by simpa using h2
        have : (k' == j) = false := by rw [← hk]; exact hkj
        simp [h2, alookup, hkj, this]
      · simp only [h2, Bool.false_eq_true, if_false, alookup, ih]

/-- The history of first-sighted checksums against the game: every remembered checksum is the
checksum of the replay of the timeline up to that frame. -/
def HistOk {G : Type} (step : G → List (Input × InputStatus) → G) (g0 : G) (csf : G → Option Nat)
    (hist : List (Int × Option Nat)) (R : Nat → List (Input × InputStatus)) (cur : Int) : Prop :=
  ∀ f c, alookup f hist = some c → 0 ≤ f ∧ f ≤ cur ∧ c = csf (replay step g0 R f.toNat)

/-- The cells against the game: every written cell is tagged with a non-negative frame, holds the
replay up to that frame, and carries its checksum. -/
def CellsOk {G : Type} (step : G → List (Input × InputStatus) → G) (g0 : G) (csf : G → Option Nat)
    (cells : List Cell) (R : Nat → List (Input × InputStatus)) : Prop :=
  ∀ i, i < cells.length → 0 ≤ (rget cells i).frame →
    (rget cells i).checksum = csf (replay step g0 R (rget cells i).frame.toNat)

/-- **One comparison never fails.** -/
theorem checksumsConsistent_true {G : Type} (step : G → List (Input × InputStatus) → G) (g0 : G)
    (csf : G → Option Nat) (s s' : SyncTest) (f : Frame) (ok : Bool) (R : Nat → List (Input × InputStatus))
    (cur : Int) (hh : HistOk step g0 csf s.checksumHistory R cur) (hc : CellsOk step g0 csf s.sync.cells R)
    (hn : 0 < s.sync.cells.length) (htle : ∀ i, i < s.sync.cells.length → (rget s.sync.cells i).frame ≤ cur)
    (h : s.checksumsConsistent f = .ok (s', ok)) :
    ok = true ∧ HistOk step g0 csf s'.checksumHistory R cur ∧ s'.sync = s.sync ∧ s'.pred = s.pred ∧
    s'.dummyConnectStatus = s.dummyConnectStatus ∧ s'.checkDistance = s.checkDistance ∧
    s'.numPlayers = s.numPlayers ∧ s'.localInputs = s.localInputs ∧ s'.maxPrediction = s.maxPrediction := by
  unfold SyncTest.checksumsConsistent at h
  simp only at h
  -- pruning keeps the invariant
  have hh1 : HistOk step g0 csf (s.checksumHistory.filter fun p => decide (p.1 ≥ s.sync.currentFrame - (s.checkDistance : Int))) R cur := by
    intro f' c' hl
    rw [alookup_filter_key (fun k => decide (k ≥ s.sync.currentFrame - (s.checkDistance : Int)))] at hl
    split at hl
    · exact hh f' c' hl
    · cases hl
  obtain ⟨r, hsv, h⟩ := bind_ok h
  unfold SyncLayer.savedStateByFrame at hsv
  obtain ⟨pos, hpos, hsv⟩ := bind_ok hsv
  have hr := pure_ok hsv
  unfold SyncLayer.cellPos at hpos
  obtain ⟨h0, hpos⟩ := ensure_bind_ok hpos
  have hp := pure_ok hpos
  have hf0 : 0 ≤ f := by simpa using h0
  have hposlt : pos < s.sync.cells.length := by
    rw [← hp]; exact Nat.mod_lt _ hn
  subst hr
  by_cases hcf : ((rget s.sync.cells pos).frame == f) = true
  · -- the cell holds the frame
    simp only [hcf, if_true] at h
    have hfr : (rget s.sync.cells pos).frame = f := by simpa using hcf
    have hsum := hc pos hposlt (by rw [hfr]; exact hf0)
    rw [hfr] at hsum
    cases hlk : alookup (rget s.sync.cells pos).frame
        (s.checksumHistory.filter fun p => decide (p.1 ≥ s.sync.currentFrame - (s.checkDistance : Int))) with
    | some cs =>
      simp only [hlk] at h
      have := pure_ok h
      simp only [Prod.mk.injEq] at this
      obtain ⟨hs', hok⟩ := this
      have hcs := (hh1 _ cs hlk).2.2
      rw [hfr] at hcs
      refine ⟨?_, by rw [← hs']; exact hh1, by rw [← hs'], by rw [← hs'], by rw [← hs'], by rw [← hs'], by rw [← hs'],
        by rw [← hs'], by rw [← hs']⟩
      rw [← hok, hcs, hsum]; simp
    | none =>
      simp only [hlk] at h
      have := pure_ok h
      simp only [Prod.mk.injEq] at this
      obtain ⟨hs', hok⟩ := this
      refine ⟨hok.symm, ?_, by rw [← hs'], by rw [← hs'], by rw [← hs'], by rw [← hs'], by rw [← hs'],
        by rw [← hs'], by rw [← hs']⟩
      rw [← hs']
      intro f' c' hl
      simp only at hl
      by_cases hff : f' = (rget s.sync.cells pos).frame
      · rw [hff, alookup_ainsert_self'] at hl
        cases hl
        rw [hff, hfr]
        exact ⟨hf0, by rw [← hfr]; exact htle pos hposlt, hsum⟩
      · rw [alookup_ainsert_ne' _ _ _ hff] at hl
        exact hh1 f' c' hl
  · simp only [hcf, Bool.false_eq_true, if_false] at h
    have := pure_ok h
    simp only [Prod.mk.injEq] at this
    obtain ⟨hs', hok⟩ := this
    exact ⟨hok.symm, by rw [← hs']; exact hh1, by rw [← hs'], by rw [← hs'], by rw [← hs'], by rw [← hs'], by rw [← hs'],
      by rw [← hs'], by rw [← hs']⟩

/-- The whole comparison loop finds nothing. -/
theorem checkFrames_none {G : Type} (step : G → List (Input × InputStatus) → G) (g0 : G)
    (csf : G → Option Nat) (R : Nat → List (Input × InputStatus)) (oldest : Frame) (cur : Int) :
    ∀ (n i : Nat) (s s' : SyncTest) (mis mis' : List Frame),
    HistOk step g0 csf s.checksumHistory R cur → CellsOk step g0 csf s.sync.cells R → 0 < s.sync.cells.length →
    (∀ i, i < s.sync.cells.length → (rget s.sync.cells i).frame ≤ cur) →
    SyncTest.checkFrames oldest n i s mis = .ok (s', mis') →
    mis' = mis ∧ HistOk step g0 csf s'.checksumHistory R cur ∧ s'.sync = s.sync ∧ s'.pred = s.pred ∧
    s'.dummyConnectStatus = s.dummyConnectStatus ∧ s'.checkDistance = s.checkDistance ∧
    s'.numPlayers = s.numPlayers ∧ s'.localInputs = s.localInputs ∧ s'.maxPrediction = s.maxPrediction := by
  intro n
  induction n with
  | zero =>
    intro i s s' mis mis' hh _ _ _ h
    simp only [SyncTest.checkFrames] at h
    cases h
    exact ⟨rfl, hh, rfl, rfl, rfl, rfl, rfl, rfl, rfl⟩
  | succ k ih =>
    intro i s s' mis mis' hh hc hn htle h
    simp only [SyncTest.checkFrames] at h
    obtain ⟨r, hcc, h⟩ := bind_ok h
    obtain ⟨s1, ok⟩ := r
    simp only at h
    obtain ⟨hok, hh1, hs1, a1, a2, a3, a4, a5, a6⟩ := checksumsConsistent_true step g0 csf s s1 _ ok R cur hh hc hn htle hcc
    subst hok
    simp only [Bool.not_true, Bool.false_eq_true, if_false] at h
    obtain ⟨b0, b1, b2, b3, b4, b5, b6, b7, b8⟩ := ih (i + 1) s1 s' mis mis' hh1 (by rw [hs1]; exact hc) (by rw [hs1]; exact hn)
      (by rw [hs1]; exact htle) h
    exact ⟨b0, b1, b2.trans hs1, b3.trans a1, b4.trans a2, b5.trans a3, b6.trans a4, b7.trans a5, b8.trans a6⟩

end Ggrs
