/-
Run-length layer: `rle_decode (bitfield_rle::encode buf) = buf`.

The encoder's output is a concatenation of well-formed chunks (ghost list `cs`) whose data,
followed by the run still pending in the encoder state, is the consumed prefix.
-/
import GgrsModel.Proofs.Varint

namespace Ggrs.Codec

inductive Chunk where
  | run (len : Nat) (ff : Bool)
  | lit (bs : Bytes)

def Chunk.enc : Chunk → Bytes
  | .run len ff => varintEncode (len * 4 + 1 + (if ff then 2 else 0))
  | .lit bs => varintEncode (bs.length * 2) ++ bs

def Chunk.data : Chunk → Bytes
  | .run len ff => List.replicate len (if ff then 255 else 0)
  | .lit bs => bs

def encAll : List Chunk → Bytes
  | [] => []
  | c :: cs => c.enc ++ encAll cs

def dataAll : List Chunk → Bytes
  | [] => []
  | c :: cs => c.data ++ dataAll cs

theorem encAll_append (a b : List Chunk) : encAll (a ++ b) = encAll a ++ encAll b := by
  induction a with
  | nil => rfl
  | cons c cs ih => simp [encAll, ih]

theorem dataAll_append (a b : List Chunk) : dataAll (a ++ b) = dataAll a ++ dataAll b := by
  induction a with
  | nil => rfl
  | cons c cs ih => simp [dataAll, ih]

theorem Chunk.enc_ne_nil (c : Chunk) : c.enc ≠ [] := by
  cases c with
  | run len ff => exact varintEncode_ne_nil _
  | lit bs =>
    simp only [Chunk.enc]
    intro h
    have := varintEncode_ne_nil (bs.length * 2)
    simp_all

theorem length_le_encAll (cs : List Chunk) : cs.length ≤ (encAll cs).length := by
  induction cs with
  | nil => simp [encAll]
  | cons c cs ih =>
    have : 0 < c.enc.length := List.length_pos_iff.mpr (Chunk.enc_ne_nil c)
    simp [encAll]; omega

theorem mem_dataAll_le {c : Chunk} {cs : List Chunk} (h : c ∈ cs) :
    c.data.length ≤ (dataAll cs).length := by
  induction cs with
  | nil => cases h
  | cons d ds ih =>
    simp only [dataAll, List.length_append]
    rcases List.mem_cons.mp h with rfl | h
    · omega
    · have := ih h; omega

theorem takeExact_append : ∀ (bs X acc : Bytes),
    takeExact bs.length (bs ++ X) acc = some (bs.reverse ++ acc, X) := by
  intro bs
  induction bs with
  | nil => intro X acc; simp [takeExact]
  | cons b bs ih => intro X acc; simp [takeExact, ih]

theorem takeExact_length : ∀ (n : Nat) (l acc t r : Bytes),
    takeExact n l acc = some (t, r) → t.length = n + acc.length ∧ r.length + n = l.length := by
  intro n
  induction n with
  | zero => intro l acc t r h; simp [takeExact] at h; obtain ⟨rfl, rfl⟩ := h; simp
  | succ n ih =>
    intro l acc t r h
    cases l with
    | nil => simp [takeExact] at h
    | cons x xs =>
      simp only [takeExact] at h
      have := ih xs (x :: acc) t r h
      simp at this ⊢; omega

theorem rleDecodeLoop_nil (k : Nat) (out : Bytes) (room : Nat) :
    rleDecodeLoop k [] out room = .ok out.reverse := by
  cases k <;> simp [rleDecodeLoop]

theorem rleDecodeLoop_succ (fuel : Nat) (data outRev : Bytes) (room : Nat) :
    rleDecodeLoop (fuel + 1) data outRev room =
      (if data.isEmpty then .ok outRev.reverse else
      match readHeader 0 0 data with
      | .error e => .error e
      | .ok (header, rest) =>
        if header % 2 == 1 then
          let len := header / 4
          if len > room then .error .tooLarge
          else
            let fill : UInt8 := if header / 2 % 2 == 0 then 0x00 else 0xFF
            rleDecodeLoop fuel rest (List.replicate len fill ++ outRev) (room - len)
        else
          let len := header / 2
          match takeExact len rest [] with
          | none => .error .truncatedLiteralRun
          | some (litRev, rest') =>
            if len > room then .error .tooLarge
            else rleDecodeLoop fuel rest' (litRev ++ outRev) (room - len)) := by
  rfl

/-- Decoding a concatenation of chunk encodings appends the chunks' data. -/
theorem rleDecodeLoop_chunks : ∀ (cs : List Chunk) (k : Nat) (rest out : Bytes) (room : Nat),
    (∀ c ∈ cs, c.data.length < 2 ^ 61) →
    (dataAll cs).length ≤ room →
    rleDecodeLoop (cs.length + k) (encAll cs ++ rest) out room
      = rleDecodeLoop k rest ((dataAll cs).reverse ++ out) (room - (dataAll cs).length) := by
  intro cs
  induction cs with
  | nil => intro k rest out room _ _; simp [encAll, dataAll]
  | cons c cs ih =>
    intro k rest out room hok hcap
    have hfuel : (c :: cs).length + k = (cs.length + k) + 1 := by simp; omega
    rw [hfuel]
    have hcok := hok c (List.mem_cons_self)
    have hrest : ∀ d ∈ cs, d.data.length < 2 ^ 61 := fun d hd => hok d (List.mem_cons_of_mem _ hd)
    simp only [dataAll, List.length_append] at hcap
    have h61 : (2:Nat) ^ 64 = 8 * 2 ^ 61 := by decide
    cases c with
    | run len ff =>
      simp only [Chunk.data, List.length_replicate] at hcok hcap
      have hhdr : len * 4 + 1 + (if ff then 2 else 0) < 2 ^ 64 := by
        cases ff <;> simp <;> omega
      rw [rleDecodeLoop_succ]
      have hne : (encAll (Chunk.run len ff :: cs) ++ rest).isEmpty = false := by
        have := varintEncode_ne_nil (len * 4 + 1 + (if ff then 2 else 0))
        cases h : varintEncode (len * 4 + 1 + (if ff then 2 else 0)) with
        | nil => exact absurd h this
        | cons _ _ => simp [encAll, Chunk.enc, h]
      simp only [hne, Bool.false_eq_true, if_false]
      have hread : readHeader 0 0 (encAll (Chunk.run len ff :: cs) ++ rest)
          = .ok (len * 4 + 1 + (if ff then 2 else 0), encAll cs ++ rest) := by
        simp only [encAll, Chunk.enc, List.append_assoc]
        exact readHeader_varintEncode _ _ hhdr
      rw [hread]
      simp only
      have h2 : ((len * 4 + 1 + (if ff then 2 else 0)) % 2 == 1) = true := by
        cases ff <;> simp <;> omega
      have h3 : (len * 4 + 1 + (if ff then 2 else 0)) / 4 = len := by
        cases ff <;> simp <;> omega
      have h4 : ¬ len > room := by omega
      have h5 : (if (len * 4 + 1 + (if ff then 2 else 0)) / 2 % 2 == 0 then (0x00 : UInt8) else 0xFF)
          = (if ff then 255 else 0) := by
        cases ff
        · have e : (len * 4 + 1 + (if false = true then 2 else 0)) / 2 % 2 = 0 := by
            simp only [Bool.false_eq_true, if_false]; omega
          rw [e]; rfl
        · have e : (len * 4 + 1 + (if true = true then 2 else 0)) / 2 % 2 = 1 := by
            simp only [if_true]; omega
          rw [e]; rfl
      simp only [h2, if_true, h3, h4, if_false, h5]
      rw [ih k rest _ _ hrest (by omega)]
      simp only [dataAll, Chunk.data, List.reverse_append, List.reverse_replicate,
        List.append_assoc, List.length_append, List.length_replicate]
      congr 1; omega
    | lit bs =>
      simp only [Chunk.data] at hcok hcap
      have hhdr : bs.length * 2 < 2 ^ 64 := by omega
      rw [rleDecodeLoop_succ]
      have hne : (encAll (Chunk.lit bs :: cs) ++ rest).isEmpty = false := by
        have := varintEncode_ne_nil (bs.length * 2)
        cases h : varintEncode (bs.length * 2) with
        | nil => exact absurd h this
        | cons _ _ => simp [encAll, Chunk.enc, h]
      simp only [hne, Bool.false_eq_true, if_false]
      have hread : readHeader 0 0 (encAll (Chunk.lit bs :: cs) ++ rest)
          = .ok (bs.length * 2, bs ++ (encAll cs ++ rest)) := by
        simp only [encAll, Chunk.enc, List.append_assoc]
        exact readHeader_varintEncode _ _ hhdr
      rw [hread]
      simp only
      have h2 : ((bs.length * 2) % 2 == 1) = false := by simp
      have h3 : bs.length * 2 / 2 = bs.length := by omega
      have h5 : ¬ bs.length > room := by omega
      simp only [h2, Bool.false_eq_true, if_false, h3, takeExact_append, h5, List.append_nil]
      rw [ih k rest _ _ hrest (by omega)]
      simp only [dataAll, Chunk.data, List.reverse_append, List.append_assoc, List.length_append]
      congr 1; omega

/-! ### The encoder produces chunks -/

def pending (st : RleEncState) : Bytes :=
  if st.contiguous then List.replicate st.len st.prevBits else st.noncontiguous

structure EncInv (st : RleEncState) (i : Nat) (pre : Bytes) : Prop where
  chunks : ∃ cs, st.enc = encAll cs ∧ dataAll cs ++ pending st = pre
  nc : (st.contiguous = true ∨ i = 0) → st.noncontiguous = []
  pb : st.contiguous = true → st.prevBits = 0 ∨ st.prevBits = 255
  idx : i = pre.length

theorem fill_eq {p : UInt8} (h : p = 0 ∨ p = 255) : (if (p == 255) = true then (255 : UInt8) else 0) = p := by
  rcases h with rfl | rfl <;> decide

theorem fill_eq' {p : UInt8} (h : p = 0 ∨ p = 255) : (if p = 255 then (255 : UInt8) else 0) = p := by
  rcases h with rfl | rfl <;> decide

theorem writeContiguous_chunk (cs : List Chunk) (len : Nat) (p : UInt8) :
    writeContiguous (encAll cs) len p = encAll (cs ++ [Chunk.run len (p == 255)]) := by
  simp [writeContiguous, encAll_append, encAll, Chunk.enc]

theorem writeNoncontiguous_chunk (cs : List Chunk) (bits : Bytes) :
    writeNoncontiguous (encAll cs) bits = encAll (cs ++ [Chunk.lit bits]) := by
  simp [writeNoncontiguous, encAll_append, encAll, Chunk.enc]

theorem encInv_step (st : RleEncState) (i : Nat) (pre : Bytes) (b : UInt8)
    (h : EncInv st i pre) : EncInv (rleEncStep st i b) (i + 1) (pre ++ [b]) := by
  obtain ⟨⟨cs, henc, hdata⟩, hnc, hpb, hidx⟩ := h
  rcases st with ⟨enc, len, cont, prev, ncb⟩
  simp only at henc hnc hpb
  simp only [pending] at hdata
  subst henc
  cases cont with
  | true =>
    have hncb : ncb = [] := hnc (Or.inl rfl)
    have hprev := hpb rfl
    subst hncb
    simp only [if_true] at hdata
    by_cases hb : b = prev
    · -- extend the run
      subst hb
      refine ⟨⟨cs, ?_, ?_⟩, ?_, ?_, ?_⟩
      · simp [rleEncStep]
      · simp [rleEncStep, pending, List.replicate_succ', ← hdata]
      · intro _; simp [rleEncStep]
      · intro _; simpa [rleEncStep] using hprev
      · simp [hidx]
    · have hbeq : (b == prev) = false := by simpa using hb
      by_cases hz : (b == 0 || b == 255) = true
      · -- a new run starts
        refine ⟨⟨cs ++ [Chunk.run len (prev == 255)], ?_, ?_⟩, ?_, ?_, ?_⟩
        · simp [rleEncStep, hbeq, hz, writeContiguous_chunk]
        · simp [rleEncStep, hbeq, hz, pending, dataAll_append, dataAll, Chunk.data, fill_eq' hprev,
            ← hdata]
        · intro _; simp [rleEncStep, hbeq, hz]
        · intro _
          have : b = 0 ∨ b = 255 := by simpa using hz
          simpa [rleEncStep, hbeq, hz] using this
        · simp [hidx]
      · -- the run ends, a literal starts
        have hz' : (b == 0 || b == 255) = false := by simpa using hz
        refine ⟨⟨cs ++ [Chunk.run len (prev == 255)], ?_, ?_⟩, ?_, ?_, ?_⟩
        · simp [rleEncStep, hbeq, hz', writeContiguous_chunk]
        · simp [rleEncStep, hbeq, hz', pending, dataAll_append, dataAll, Chunk.data, fill_eq' hprev,
            ← hdata]
        · intro h
          rcases h with h | h
          · simp [rleEncStep, hbeq, hz'] at h
          · omega
        · intro h; simp [rleEncStep, hbeq, hz'] at h
        · simp [hidx]
  | false =>
    simp only [Bool.false_eq_true, if_false] at hdata
    by_cases hz : (b == 0 || b == 255) = true
    · by_cases hi : i > 0
      · -- flush the literal, start a run
        refine ⟨⟨cs ++ [Chunk.lit ncb], ?_, ?_⟩, ?_, ?_, ?_⟩
        · simp [rleEncStep, hz, hi, writeNoncontiguous_chunk]
        · simp [rleEncStep, hz, hi, pending, dataAll_append, dataAll, Chunk.data, ← hdata]
        · intro _; simp [rleEncStep, hz, hi]
        · intro _
          have : b = 0 ∨ b = 255 := by simpa using hz
          simpa [rleEncStep, hz, hi] using this
        · simp [hidx]
      · -- very first byte starts a run; nothing to flush
        have hi0 : i = 0 := by omega
        have hncb : ncb = [] := hnc (Or.inr hi0)
        subst hncb
        refine ⟨⟨cs, ?_, ?_⟩, ?_, ?_, ?_⟩
        · simp [rleEncStep, hz, hi0]
        · simp [rleEncStep, hz, hi0, pending, ← hdata]
        · intro _; simp [rleEncStep, hz, hi0]
        · intro _
          have : b = 0 ∨ b = 255 := by simpa using hz
          simpa [rleEncStep, hz, hi0] using this
        · simp [hidx]
    · -- the literal grows
      have hz' : (b == 0 || b == 255) = false := by simpa using hz
      refine ⟨⟨cs, ?_, ?_⟩, ?_, ?_, ?_⟩
      · simp [rleEncStep, hz']
      · simp [rleEncStep, hz', pending, ← hdata]
      · intro h
        rcases h with h | h
        · simp [rleEncStep, hz'] at h
        · omega
      · intro h; simp [rleEncStep, hz'] at h
      · simp [hidx]

theorem encInv_loop : ∀ (bytes : Bytes) (st : RleEncState) (i : Nat) (pre : Bytes),
    EncInv st i pre → EncInv (rleEncLoop st i bytes) (i + bytes.length) (pre ++ bytes) := by
  intro bytes
  induction bytes with
  | nil => intro st i pre h; simpa [rleEncLoop] using h
  | cons b bs ih =>
    intro st i pre h
    have := ih _ _ _ (encInv_step st i pre b h)
    simp only [rleEncLoop, List.length_cons]
    have e1 : i + (bs.length + 1) = i + 1 + bs.length := by omega
    have e2 : pre ++ b :: bs = pre ++ [b] ++ bs := by simp
    rw [e1, e2]; exact this

theorem encInv_init : EncInv {} 0 [] := by
  refine ⟨⟨[], rfl, ?_⟩, ?_, ?_, rfl⟩
  · simp [dataAll, pending]
  · intro _; rfl
  · intro h; cases h

/-- The encoder's output is the encoding of a chunk list whose data is the input. -/
theorem rleEncode_chunks (buf : Bytes) :
    ∃ cs, rleEncode buf = encAll cs ∧ dataAll cs = buf := by
  have h := encInv_loop buf {} 0 [] encInv_init
  simp only [List.nil_append] at h
  obtain ⟨⟨cs, henc, hdata⟩, _, hpb, _⟩ := h
  unfold rleEncode rleEncFinish
  generalize rleEncLoop {} 0 buf = st at *
  rcases st with ⟨enc, len, cont, prev, ncb⟩
  simp only at henc hpb
  simp only [pending] at hdata
  subst henc
  cases cont with
  | true =>
    refine ⟨cs ++ [Chunk.run len (prev == 255)], ?_, ?_⟩
    · simp [writeContiguous_chunk]
    · simp only [if_true] at hdata
      simp [dataAll_append, dataAll, Chunk.data, fill_eq' (hpb rfl), hdata]
  | false =>
    refine ⟨cs ++ [Chunk.lit ncb], ?_, ?_⟩
    · simp [writeNoncontiguous_chunk]
    · simp only [Bool.false_eq_true, if_false] at hdata
      simp [dataAll_append, dataAll, Chunk.data, hdata]

/-- **RLE round trip.** -/
theorem rle_roundtrip (buf : Bytes) (hlen : buf.length ≤ MAX_DECODED_BYTES) :
    rleDecode (rleEncode buf) = .ok buf := by
  obtain ⟨cs, henc, hdata⟩ := rleEncode_chunks buf
  have hmax : MAX_DECODED_BYTES < 2 ^ 61 := by decide
  have hok : ∀ c ∈ cs, c.data.length < 2 ^ 61 := by
    intro c hc
    have := mem_dataAll_le hc
    rw [hdata] at this
    omega
  unfold rleDecode
  rw [henc]
  have hfuel := length_le_encAll cs
  obtain ⟨k, hk⟩ : ∃ k, (encAll cs).length = cs.length + k := ⟨_, (Nat.add_sub_cancel' hfuel).symm⟩
  rw [hk]
  have := rleDecodeLoop_chunks cs k [] [] MAX_DECODED_BYTES hok (by rw [hdata]; exact hlen)
  simp only [List.append_nil] at this
  rw [this, rleDecodeLoop_nil, hdata, List.reverse_reverse]

end Ggrs.Codec
