/-
L-triple: three sessions side by side (the product of `Proofs/Pair.lean` for three peers, under ONE
choice of ghosts). A session moves by a local input, a cell write, a call, a `set_input_delay` call, or the arrival of the
next frame of a player one of the other two owns, read off that owner's ring. Every player is owned
by at most one session (`Own`, preserved because handles never change). Invariant: the three pair
invariants for one ghost per session. Conclusion (`triple_agree`): any two of the three games agree,
after the rollback phase of their next calls, on the input of EVERY player owned by any of the
three — also on the third peer's players, whose two copies are prefixes of the owner's stream.
-/
import GgrsModel.Proofs.Pair

namespace Ggrs
open InputQueue

/-- `a` moves to `a'` next to the peers `b` and `c` (arrivals: from `b`; use the swapped order for `c`). -/
inductive TMove : (P2P × TLState) → (P2P × TLState) → (P2P × TLState) → (P2P × TLState) → Prop
  | localInput (s : P2P) (t : TLState) (b c : P2P × TLState) (handle : Nat) (input : Input) :
      TMove (s, t) b c ((s.addLocalInput handle input).1, t)
  | saves (s : P2P) (t : TLState) (b c : P2P × TLState) (sv : List (Frame × Option Nat)) :
      TMove (s, t) b c (s.userExecute sv, t)
  | tick (s s' : P2P) (t : TLState) (b c : P2P × TLState) (now : Nat) (reqs' : List Request) :
      s.advanceRollbackFrame now [] = .ok (s', reqs') → TMove (s, t) b c (s', execReqs t reqs')
  | setDelay (s s' : P2P) (t : TLState) (b c : P2P × TLState) (now handle delay : Nat) (r : Except GgrsError Unit) :
      handle ∈ s.localPlayerHandles → handle < s.sync.queues.length →
      s.setInputDelay now handle delay = .ok (s', r) → TMove (s, t) b c (s', t)
  | arrive (s s' : P2P) (t : TLState) (b c : P2P × TLState) (now : Nat) (f : Nat) (v : Input) (player : Nat)
      (handles : List Nat) (addr : Nat) :
      player ∈ b.1.localPlayerHandles → player ∉ s.localPlayerHandles → player ∉ c.1.localPlayerHandles →
      player < b.1.sync.queues.length → player < s.sync.queues.length →
      (f : Int) = (rget s.localConnectStatus player).lastFrame + 1 →
      (f : Int) ≤ (rget b.1.sync.queues player).lastAddedFrame →
      (rget b.1.sync.queues player).lastAddedFrame < (f : Int) + INPUT_QUEUE_LENGTH →
      rget (rget b.1.sync.queues player).inputs (f % INPUT_QUEUE_LENGTH) = ⟨(f : Int), v⟩ →
      s.handleEventCore now (.input ⟨(f : Int), v⟩ player) handles addr = .ok s' →
      TMove (s, t) b c (s', t)

/-- Links towards a peer `x` survive a move of `s` that changes no stream of `x`'s players and only
extends the streams of `s`'s own players. -/
theorem linkrel_keep (s s' x : P2P) (ghS ghS' ghX : Ghost) (hlp : s'.localPlayerHandles = s.localPlayerHandles)
    (hab : LinkRel s x ghS ghX) (hba : LinkRel x s ghX ghS)
    (hun : ∀ p, p ∈ x.localPlayerHandles → p ∉ s.localPlayerHandles → ghS'.specs p = ghS.specs p)
    (hpre : ∀ p, p ∈ s.localPlayerHandles → PrefixOf (ghS.specs p).vals (ghS'.specs p).vals) :
    LinkRel s' x ghS' ghX ∧ LinkRel x s' ghX ghS' := by
  refine ⟨?_, ?_⟩
  · intro p hp hn
    have hn' : p ∉ s.localPlayerHandles := by rw [← hlp]; exact hn
    show PrefixOf (ghS'.specs p).vals (ghX.specs p).vals
    rw [hun p hp hn']
    exact hab p hp hn'
  · intro p hp hn
    have hp' : p ∈ s.localPlayerHandles := by rw [← hlp]; exact hp
    exact (hba p hp' hn).trans (hpre p hp')

/-- One move keeps both pair invariants, for ONE new ghost. -/
theorem tmove_inv (a b c a' : P2P × TLState) (ghA ghB ghC : Ghost) (hb : PairInv a b ghA ghB) (hc : PairInv a c ghA ghC)
    (hs : TMove a b c a') : ∃ ghA', PairInv a' b ghA' ghB ∧ PairInv a' c ghA' ghC := by
  cases hs with
  | localInput s t b c handle input =>
    obtain ⟨l, hl⟩ := P2P.addLocalInput_pending s handle input
    refine ⟨ghA, ?_, ?_⟩
    · show PairInv ((s.addLocalInput handle input).1, t) b ghA ghB
      rw [hl]
      exact ⟨SessInv_pending s ghA t [] l hb.sa, GlueInv_pending s ghA l hb.ga, hb.sb, hb.gb, hb.ab, hb.ba⟩
    · show PairInv ((s.addLocalInput handle input).1, t) c ghA ghC
      rw [hl]
      exact ⟨SessInv_pending s ghA t [] l hc.sa, GlueInv_pending s ghA l hc.ga, hc.sb, hc.gb, hc.ab, hc.ba⟩
  | saves s t b c sv =>
    obtain ⟨_, _, _, _, _, uh, _⟩ := userExecute_fields s sv
    have hlp : (s.userExecute sv).localPlayerHandles = s.localPlayerHandles := by
      unfold P2P.localPlayerHandles; rw [uh]
    have kb := linkrel_keep s (s.userExecute sv) b.1 ghA ghA ghB hlp hb.ab hb.ba (fun _ _ _ => rfl) (fun _ _ => PrefixOf.refl _)
    have kc := linkrel_keep s (s.userExecute sv) c.1 ghA ghA ghC hlp hc.ab hc.ba (fun _ _ _ => rfl) (fun _ _ => PrefixOf.refl _)
    exact ⟨ghA, ⟨SessInv_userExecute s ghA t [] sv hb.sa, GlueInv_userExecute s ghA sv hb.ga, hb.sb, hb.gb, kb.1, kb.2⟩,
      ⟨SessInv_userExecute s ghA t [] sv hc.sa, GlueInv_userExecute s ghA sv hc.ga, hc.sb, hc.gb, kc.1, kc.2⟩⟩
  | tick s s' t b c now reqs' hadv =>
    obtain ⟨gh2, gh', _, _, hinv', hg', hsp, hpre, _, _, _, hoth, hh⟩ :=
      rollbackTick_glueX s s' ghA t [] reqs' now hb.sa hb.ga hadv
    have hlp : s'.localPlayerHandles = s.localPlayerHandles := by unfold P2P.localPlayerHandles; rw [hh]
    have hpre' : ∀ p, p ∈ s.localPlayerHandles → PrefixOf (ghA.specs p).vals (gh'.specs p).vals := by
      intro p _; rw [hsp]; exact hpre p
    have kb := linkrel_keep s s' b.1 ghA gh' ghB hlp hb.ab hb.ba (fun p _ hn => hoth p hn) hpre'
    have kc := linkrel_keep s s' c.1 ghA gh' ghC hlp hc.ab hc.ba (fun p _ hn => hoth p hn) hpre'
    exact ⟨gh', ⟨SessInv_rebase s' gh' t reqs' hinv', hg', hb.sb, hb.gb, kb.1, kb.2⟩,
      ⟨SessInv_rebase s' gh' t reqs' hinv', hg', hc.sb, hc.gb, kc.1, kc.2⟩⟩
  | setDelay s s' t b c now handle delay r hloc hp hset =>
    obtain ⟨gh', hinv', hg', hcase, _, _, _, _, _, hh, _⟩ := setInputDelay_spec s s' ghA t [] now handle delay r hb.sa hb.ga hloc hp hset
    have hlp : s'.localPlayerHandles = s.localPlayerHandles := by unfold P2P.localPlayerHandles; rw [hh]
    have hsp : ∀ p, (p ≠ handle → gh'.specs p = ghA.specs p) ∧ PrefixOf (ghA.specs p).vals (gh'.specs p).vals := by
      intro p
      rcases hcase with he | he
      · rw [he]; exact ⟨fun _ => rfl, PrefixOf.refl _⟩
      · rw [he]
        unfold ghDelay
        by_cases hpe : p = handle
        · subst hpe
          refine ⟨fun hne => absurd rfl hne, ?_⟩
          simp only [if_true]
          obtain ⟨k, hv, _, _⟩ := setDelay_facts (ghA.specs p) delay
          rw [hv]
          exact prefixOf_append _ _
        · simp only [hpe, if_false]
          exact ⟨fun _ => trivial, PrefixOf.refl _⟩
    have hun : ∀ (x : P2P) p, p ∈ x.localPlayerHandles → p ∉ s.localPlayerHandles → gh'.specs p = ghA.specs p :=
      fun _ p _ hn => (hsp p).1 (fun e => hn (e ▸ hloc))
    have kb := linkrel_keep s s' b.1 ghA gh' ghB hlp hb.ab hb.ba (hun b.1) (fun p _ => (hsp p).2)
    have kc := linkrel_keep s s' c.1 ghA gh' ghC hlp hc.ab hc.ba (hun c.1) (fun p _ => (hsp p).2)
    exact ⟨gh', ⟨hinv', hg', hb.sb, hb.gb, kb.1, kb.2⟩, ⟨hinv', hg', hc.sb, hc.gb, kc.1, kc.2⟩⟩
  | arrive s s' t b c now f v player handles addr hown hnl hnc hpb hps hnext hle hwin hslot hev =>
    obtain ⟨gh', hinv', hg', _, _, hh, hsp⟩ :=
      glue_remoteInputX s s' ghA t now ⟨(f : Int), v⟩ player handles addr hb.sa hb.ga hnl (Int.natCast_nonneg _) hev
    have hlp : s'.localPlayerHandles = s.localPlayerHandles := by unfold P2P.localPlayerHandles; rw [hh]
    -- towards c: no stream of c's players changes (the arriving player is not c's)
    have kc := linkrel_keep s s' c.1 ghA gh' ghC hlp hc.ab hc.ba
      (fun p hp _ => by rw [hsp p, if_neg (fun (e : p = player) => hnc (e ▸ hp))])
      (fun p hp => by rw [hsp p, if_neg (fun (e : p = player) => hnl (e ▸ hp))]; exact PrefixOf.refl _)
    -- towards b: the argument of the pair (`half_inv`), for the same ghost
    obtain ⟨hd, hlu, hlen⟩ := hb.sa.remote player hps hnl
    have hfl : f = (ghA.specs player).vals.length := by
      have : (f : Int) = ((ghA.specs player).vals.length : Int) := by rw [hnext, ← hlu, hlen]
      exact_mod_cast this
    have hring := (hb.sb.tinv.sync.all player hpb).ring
    have hla : (rget b.1.sync.queues player).lastAddedFrame = ((ghB.specs player).vals.length : Int) - 1 := hring.lastAdded
    have hfB : f < (ghB.specs player).vals.length := by
      have : (f : Int) ≤ ((ghB.specs player).vals.length : Int) - 1 := by rw [← hla]; exact hle
      omega
    have hwB : (ghB.specs player).vals.length ≤ f + INPUT_QUEUE_LENGTH := by
      have : ((ghB.specs player).vals.length : Int) - 1 < (f : Int) + INPUT_QUEUE_LENGTH := by rw [← hla]; exact hwin
      omega
    have hval : (ghB.specs player).vals.getD f 0 = v := by
      have e := hring.slots f hfB hwB
      have e' : rget (rget b.1.sync.queues player).inputs (f % INPUT_QUEUE_LENGTH) = ⟨(f : Int), (ghB.specs player).vals.getD f 0⟩ := e
      rw [hslot] at e'
      exact (congrArg PlayerInput.input e').symm
    have hnew : (gh'.specs player).vals = (ghA.specs player).vals ++ [v] := by
      rw [hsp player, if_pos rfl]
      show ((ghA.specs player).submit (f : Int) v).1.vals = _
      rw [hfl]
      exact submit_next (ghA.specs player) v hd hlen
    refine ⟨gh', ⟨hinv', hg', hb.sb, hb.gb, ?_, ?_⟩, ⟨hinv', hg', hc.sb, hc.gb, kc.1, kc.2⟩⟩
    · intro p hp hn
      have hn' : p ∉ s.localPlayerHandles := by rw [← hlp]; exact hn
      show PrefixOf (gh'.specs p).vals (ghB.specs p).vals
      by_cases hpp : p = player
      · subst hpp
        rw [hnew]
        exact prefixOf_snoc _ _ v (hb.ab p hp hn') (by rw [← hfl]; exact hfB) (by rw [← hfl]; exact hval)
      · rw [hsp p, if_neg hpp]
        exact hb.ab p hp hn'
    · intro p hp hn
      have hp' : p ∈ s.localPlayerHandles := by rw [← hlp]; exact hp
      have hpp : p ≠ player := fun e => hnl (e ▸ hp')
      show PrefixOf (ghB.specs p).vals (gh'.specs p).vals
      rw [hsp p, if_neg hpp]
      exact hb.ba p hp' hn

/-- The three sessions. -/
structure Tri where
  a : P2P × TLState
  b : P2P × TLState
  c : P2P × TLState

/-- One step of the triple: one session moves; its arrivals come from one of the other two. -/
inductive TStep : Tri → Tri → Prop
  | aFromB (x : Tri) (a' : P2P × TLState) : TMove x.a x.b x.c a' → TStep x { x with a := a' }
  | aFromC (x : Tri) (a' : P2P × TLState) : TMove x.a x.c x.b a' → TStep x { x with a := a' }
  | bFromA (x : Tri) (b' : P2P × TLState) : TMove x.b x.a x.c b' → TStep x { x with b := b' }
  | bFromC (x : Tri) (b' : P2P × TLState) : TMove x.b x.c x.a b' → TStep x { x with b := b' }
  | cFromA (x : Tri) (c' : P2P × TLState) : TMove x.c x.a x.b c' → TStep x { x with c := c' }
  | cFromB (x : Tri) (c' : P2P × TLState) : TMove x.c x.b x.a c' → TStep x { x with c := c' }

inductive TStar : Tri → Tri → Prop
  | refl (x) : TStar x x
  | step (x y z) : TStar x y → TStep y z → TStar x z

def TriInv (x : Tri) : Prop :=
  ∃ ghA ghB ghC, PairInv x.a x.b ghA ghB ∧ PairInv x.a x.c ghA ghC ∧ PairInv x.b x.c ghB ghC

theorem TriInv_step (x y : Tri) (h : TriInv x) (hs : TStep x y) : TriInv y := by
  obtain ⟨ghA, ghB, ghC, hab, hac, hbc⟩ := h
  cases hs with
  | aFromB a' hm =>
    obtain ⟨g, h1, h2⟩ := tmove_inv x.a x.b x.c a' ghA ghB ghC hab hac hm
    exact ⟨g, ghB, ghC, h1, h2, hbc⟩
  | aFromC a' hm =>
    obtain ⟨g, h1, h2⟩ := tmove_inv x.a x.c x.b a' ghA ghC ghB hac hab hm
    exact ⟨g, ghB, ghC, h2, h1, hbc⟩
  | bFromA b' hm =>
    obtain ⟨g, h1, h2⟩ := tmove_inv x.b x.a x.c b' ghB ghA ghC hab.symm hbc hm
    exact ⟨ghA, g, ghC, h1.symm, hac, h2⟩
  | bFromC b' hm =>
    obtain ⟨g, h1, h2⟩ := tmove_inv x.b x.c x.a b' ghB ghC ghA hbc hab.symm hm
    exact ⟨ghA, g, ghC, h2.symm, hac, h1⟩
  | cFromA c' hm =>
    obtain ⟨g, h1, h2⟩ := tmove_inv x.c x.a x.b c' ghC ghA ghB hac.symm hbc.symm hm
    exact ⟨ghA, ghB, g, hab, h1.symm, h2.symm⟩
  | cFromB c' hm =>
    obtain ⟨g, h1, h2⟩ := tmove_inv x.c x.b x.a c' ghC ghB ghA hbc.symm hac.symm hm
    exact ⟨ghA, ghB, g, hab, h2.symm, h1.symm⟩

/-- **L-triple.** -/
theorem TriInv_run (x y : Tri) (h : TriInv x) (hr : TStar x y) : TriInv y := by
  induction hr with
  | refl => exact h
  | step y z _ hs ih => exact TriInv_step y z ih hs

/-- Two sessions whose streams of the players in `P` agree wherever both hold a frame: after the rollback
phase of their next calls the two games' last simulations agree on those players' inputs. -/
theorem agree_of_common (sA sB sA' sB' : P2P) (ghA ghB : Ghost) (tA tB : TLState) (nowA nowB : Nat)
    (reqsA reqsB : List Request) (hA : SessInv sA ghA tA []) (hB : SessInv sB ghB tB [])
    (P : Nat → Prop)
    (hcommon : ∀ p, P p → ∀ f, f < (ghA.specs p).vals.length → f < (ghB.specs p).vals.length →
      (ghA.specs p).vals.getD f 0 = (ghB.specs p).vals.getD f 0)
    (hcA : sA.advanceRollbackFrame nowA [] = .ok (sA', reqsA))
    (hcB : sB.advanceRollbackFrame nowB [] = .ok (sB', reqsB)) :
    ∃ (r1A r1B : List Request),
      (reqsA = r1A ∨ ∃ ins, reqsA = r1A ++ [.advance ins]) ∧ (reqsB = r1B ∨ ∃ ins, reqsB = r1B ++ [.advance ins]) ∧
      ∀ p, P p → p < sA.sync.queues.length → p < sB.sync.queues.length → ∀ f : Nat,
        (f : Int) < sA.sync.currentFrame → (f : Int) < sB.sync.currentFrame →
        (f : Int) ≤ (rget sA.sync.queues p).lastAddedFrame → (f : Int) ≤ (rget sB.sync.queues p).lastAddedFrame →
        (((execReqs tA r1A).R f).getD p default).1 = (((execReqs tB r1B).R f).getD p default).1 := by
  obtain ⟨s1A, r1A, g1A, _, _, hsetA, hrightA, _, _, _, hcaseA⟩ := advanceRollbackFrame_spec sA sA' ghA tA [] reqsA nowA hA hcA
  obtain ⟨s1B, r1B, g1B, _, _, hsetB, hrightB, _, _, _, hcaseB⟩ := advanceRollbackFrame_spec sB sB' ghB tB [] reqsB nowB hB hcB
  refine ⟨r1A, r1B, ?_, ?_, ?_⟩
  · rcases hcaseA with h | ⟨c, ins, _, h, _⟩
    · exact Or.inl h
    · exact Or.inr ⟨ins, h⟩
  · rcases hcaseB with h | ⟨c, ins, _, h, _⟩
    · exact Or.inl h
    · exact Or.inr ⟨ins, h⟩
  · intro p hP hpA hpB f hfA hfB hqA hqB
    have hlA : f < (ghA.specs p).vals.length := by
      have := lastAdded_of_QI (hA.tinv.sync.all p hpA)
      rw [this] at hqA; omega
    have hlB : f < (ghB.specs p).vals.length := by
      have := lastAdded_of_QI (hB.tinv.sync.all p hpB)
      rw [this] at hqB; omega
    have hpA1 : p < s1A.sync.queues.length := by rw [hsetA.nq]; exact hpA
    have hpB1 : p < s1B.sync.queues.length := by rw [hsetB.nq]; exact hpB
    have eA := hrightA p hpA1 f (by rw [hsetA.cur]; exact hfA) (by rw [hsetA.specs]; exact hlA)
    have eB := hrightB p hpB1 f (by rw [hsetB.cur]; exact hfB) (by rw [hsetB.specs]; exact hlB)
    rw [← hsetA.inv.rows p hpA1 f, ← hsetB.inv.rows p hpB1 f, eA, eB, hsetA.specs, hsetB.specs]
    exact hcommon p hP f hlA hlB

/-- Every player is owned by exactly one of the three sessions. -/
def OwnedByOne (x : Tri) (p : Nat) : Prop :=
  (p ∈ x.a.1.localPlayerHandles ∧ p ∉ x.b.1.localPlayerHandles ∧ p ∉ x.c.1.localPlayerHandles) ∨
  (p ∉ x.a.1.localPlayerHandles ∧ p ∈ x.b.1.localPlayerHandles ∧ p ∉ x.c.1.localPlayerHandles) ∨
  (p ∉ x.a.1.localPlayerHandles ∧ p ∉ x.b.1.localPlayerHandles ∧ p ∈ x.c.1.localPlayerHandles)

/-- **L-triple, agreement.** After any run of the triple, sessions `a` and `b` agree (after the rollback
phase of their next calls) on the input of every player owned by exactly one of the three sessions —
their own players and the third peer's. -/
theorem triple_agree (x y : Tri) (h0 : TriInv x) (hrun : TStar x y) (nowA nowB : Nat) (sA' sB' : P2P)
    (reqsA reqsB : List Request)
    (hcA : y.a.1.advanceRollbackFrame nowA [] = .ok (sA', reqsA))
    (hcB : y.b.1.advanceRollbackFrame nowB [] = .ok (sB', reqsB)) :
    ∃ (r1A r1B : List Request),
      (reqsA = r1A ∨ ∃ ins, reqsA = r1A ++ [.advance ins]) ∧ (reqsB = r1B ∨ ∃ ins, reqsB = r1B ++ [.advance ins]) ∧
      ∀ p, OwnedByOne y p → p < y.a.1.sync.queues.length → p < y.b.1.sync.queues.length → ∀ f : Nat,
        (f : Int) < y.a.1.sync.currentFrame → (f : Int) < y.b.1.sync.currentFrame →
        (f : Int) ≤ (rget y.a.1.sync.queues p).lastAddedFrame → (f : Int) ≤ (rget y.b.1.sync.queues p).lastAddedFrame →
        (((execReqs y.a.2 r1A).R f).getD p default).1 = (((execReqs y.b.2 r1B).R f).getD p default).1 := by
  obtain ⟨ghA, ghB, ghC, hab, hac, hbc⟩ := TriInv_run x y h0 hrun
  refine agree_of_common y.a.1 y.b.1 sA' sB' ghA ghB y.a.2 y.b.2 nowA nowB reqsA reqsB hab.sa hab.sb (OwnedByOne y) ?_ hcA hcB
  intro p hown f hlA hlB
  rcases hown with ⟨ha, hnb, _⟩ | ⟨hna, hb, _⟩ | ⟨hna, hnb, hc⟩
  · exact (hab.ba p ha hnb).2 f hlB
  · exact ((hab.ab p hb hna).2 f hlA).symm
  · -- the third peer's player: both copies are prefixes of the owner's stream
    have e1 := (hac.ab p hc hna).2 f hlA
    have e2 := (hbc.ab p hc hnb).2 f hlB
    rw [← e1, ← e2]

end Ggrs
