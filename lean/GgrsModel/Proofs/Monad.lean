/- Stepping through the panic monad `M = Except String`. -/
import GgrsModel.Model.Basic

namespace Ggrs

theorem ensure_bind_ok {α} {c : Bool} {msg : String} {k : Unit → M α} {r : α}
    (h : (ensure c msg >>= k) = .ok r) : c = true ∧ k () = .ok r := by
  unfold ensure at h
  cases c with
  | true => exact ⟨rfl, by simpa [bind, Except.bind] using h⟩
  | false => simp [bind, Except.bind] at h

theorem bind_ok {α β} {m : M α} {k : α → M β} {r : β} (h : (m >>= k) = .ok r) :
    ∃ a, m = .ok a ∧ k a = .ok r := by
  cases m with
  | error e => simp [bind, Except.bind] at h
  | ok a => exact ⟨a, rfl, by simpa [bind, Except.bind] using h⟩

theorem pure_ok {α} {a r : α} (h : (pure a : M α) = .ok r) : a = r := by
  simpa [pure, Except.pure] using h

end Ggrs
