/-
L-entry with drops: `advance_frame_core` in rollback mode is a path of the world with drops as long
as the gossip of the running endpoints tells the session nothing new: every player some running
endpoint reports as disconnected is already marked here, with a last frame no later than any
reported one. (A report of an EARLIER cut-off is what `update_player_disconnects` acts upon; that
path is the subject of C10 and is not covered.)
-/
import GgrsModel.Proofs.DropGame
import GgrsModel.Proofs.EntryPoint

namespace Ggrs

/-- The running endpoints' reports tell the session nothing it has not already settled. -/
def QuietGossip (s : P2P) : Prop :=
  ∀ h, (P2P.gossipOf s.remotes h).1 = true ∨
    ((rget s.localConnectStatus h).disconnected = true ∧
      (rget s.localConnectStatus h).lastFrame ≤ (P2P.gossipOf s.remotes h).2)

theorem NoGossip.quiet {s : P2P} (h : NoGossip s) : QuietGossip s := fun x => Or.inl (h x)

theorem updatePlayerDisconnects_quiet (s : P2P) (now : Nat) (h : QuietGossip s) :
    s.updatePlayerDisconnects now = .ok s := by
  unfold P2P.updatePlayerDisconnects
  apply foldlM_id
  intro handle
  have hq := h handle
  cases hg : P2P.gossipOf s.remotes handle with
  | mk qc qm =>
    rw [hg] at hq
    simp only at hq
    rcases hq with hq | ⟨hd, hle⟩
    · subst hq
      simp only [Bool.not_true, Bool.false_and, Bool.false_eq_true, if_false]
      rfl
    · simp only [hd, Bool.not_true, Bool.false_eq_true, if_false, Bool.false_or]
      have : ¬ ((rget s.localConnectStatus handle).lastFrame > qm) := by omega
      simp only [this, decide_false, Bool.and_false, Bool.false_eq_true, if_false]
      rfl

theorem CXStar.trans {G : Type} {step : G → List (Input × InputStatus) → G} {csf : G → Option Nat}
    {a b c : P2P × GS G} (h1 : CXStar step csf a b) (h2 : CXStar step csf b c) : CXStar step csf a c := by
  induction h2 with
  | refl => exact h1
  | step b c _ hs ih => exact CXStar.step _ _ _ ih hs

/-- **The entry point is a path of the world with drops.** -/
theorem call_is_pathD {G : Type} (step : G → List (Input × InputStatus) → G) (csf : G → Option Nat)
    (s s' : P2P) (x : GS G) (now : Nat) (reqs' : List Request)
    (hmp : (s.maxPrediction == 0) = false)
    (hng : ∀ s1, s.desyncPhase now = .ok s1 → QuietGossip s1)
    (hcall : s.advanceFrameCore now = .ok (s', .ok reqs')) :
    CXStar step csf (s, x)
      (s'.userExecute (gameSaves step csf s.sync.cells.length x reqs'), execGs step s.sync.cells.length x reqs') ∧
    ∃ s1 s3 : P2P, CXStar step csf (s, x) (s1, x) ∧ P2P.SameCore s s1 ∧ P2P.SameCore s3 s' ∧
      (s1.advanceRollbackFrame now [] = .ok (s3, reqs') ∨
       ∃ sy r, s1.sync.currentFrame = 0 ∧ s1.sync.saveCurrentState = .ok (sy, r) ∧
         ({ s1 with sync := sy } : P2P).advanceRollbackFrame now [r] = .ok (s3, reqs')) := by
  unfold P2P.advanceFrameCore at hcall
  by_cases hrun : (!s.running) = true
  · rw [if_pos hrun] at hcall
    have := pure_ok hcall
    simp only [Prod.mk.injEq] at this
    cases this.2
  rw [if_neg hrun] at hcall
  by_cases hin : (!(s.localPlayerHandles.all fun h => s.pendingLocalInputs.any (·.1 == h))) = true
  · rw [if_pos hin] at hcall
    have := pure_ok hcall
    simp only [Prod.mk.injEq] at this
    cases this.2
  rw [if_neg hin] at hcall
  obtain ⟨s1, hdes, hcall⟩ := bind_ok hcall
  obtain ⟨r2, hfs, hcall⟩ := bind_ok hcall
  obtain ⟨s2, reqs0⟩ := r2
  simp only at hcall
  obtain ⟨s2', hupd, hcall⟩ := bind_ok hcall
  obtain ⟨r3, hadv, hcall⟩ := bind_ok hcall
  obtain ⟨s3, reqs3⟩ := r3
  simp only at hcall
  obtain ⟨s4, hwait, hcall⟩ := bind_ok hcall
  have := pure_ok hcall
  simp only [Prod.mk.injEq, Except.ok.injEq] at this
  obtain ⟨hs4, hreqs⟩ := this
  subst hs4; subst hreqs
  have hpath1 : CXStar step csf (s, x) (s1, x) ∧ P2P.SameCore s s1 := by
    unfold P2P.desyncPhase at hdes
    split at hdes
    · obtain ⟨sr, hrep, hdes⟩ := bind_ok hdes
      have := pure_ok hdes
      subst this
      refine ⟨CXStar.step _ _ _ (CXStar.step _ _ _ (CXStar.refl _) (CXStep.report s sr x now hrep)) (CXStep.compare sr x), ?_⟩
      exact (report_fields s sr now hrep).1.trans (compare_fields sr).1
    · have := pure_ok hdes
      subst this
      exact ⟨CXStar.refl _, P2P.SameCore.refl s⟩
  obtain ⟨hp1, hc1⟩ := hpath1
  have hmp1 : (s1.maxPrediction == 0) = false := by rw [hc1.maxPrediction]; exact hmp
  have hng1 : QuietGossip s1 := hng s1 hdes
  have hn1 : s1.sync.cells.length = s.sync.cells.length := by rw [hc1.sync]
  have hcore : CXStep step csf (s1, x)
      (s3.userExecute (gameSaves step csf s1.sync.cells.length x reqs3), execGs step s1.sync.cells.length x reqs3) ∧
      (s1.advanceRollbackFrame now [] = .ok (s3, reqs3) ∨
       ∃ sy r, s1.sync.currentFrame = 0 ∧ s1.sync.saveCurrentState = .ok (sy, r) ∧
         ({ s1 with sync := sy } : P2P).advanceRollbackFrame now [r] = .ok (s3, reqs3)) := by
    unfold P2P.firstSavePhase at hfs
    by_cases hfirst : (s1.sync.currentFrame == 0 && !(s1.maxPrediction == 0)) = true
    · rw [if_pos hfirst] at hfs
      obtain ⟨r, hsv, hfs⟩ := bind_ok hfs
      obtain ⟨sy, rq⟩ := r
      simp only at hfs
      have := pure_ok hfs
      simp only [Prod.mk.injEq] at this
      obtain ⟨e1, e2⟩ := this
      subst e1; subst e2
      have hng2 : QuietGossip ({ s1 with sync := sy } : P2P) := hng1
      rw [updatePlayerDisconnects_quiet _ now hng2] at hupd
      have := pure_ok hupd
      subst this
      unfold P2P.advanceByMode at hadv
      have hmp2 : (({ s1 with sync := sy } : P2P).maxPrediction == 0) = false := hmp1
      rw [if_neg (by rw [hmp2]; simp)] at hadv
      have hc0 : s1.sync.currentFrame = 0 := by
        simp only [Bool.and_eq_true, beq_iff_eq] at hfirst; exact hfirst.1
      exact ⟨CXStep.tick0 s1 s3 x now sy rq reqs3 hc0 hsv hadv, Or.inr ⟨sy, rq, hc0, hsv, hadv⟩⟩
    · rw [if_neg hfirst] at hfs
      have := pure_ok hfs
      simp only [Prod.mk.injEq] at this
      obtain ⟨e1, e2⟩ := this
      subst e1; subst e2
      rw [updatePlayerDisconnects_quiet _ now hng1] at hupd
      have := pure_ok hupd
      subst this
      unfold P2P.advanceByMode at hadv
      rw [if_neg (by rw [hmp1]; simp)] at hadv
      exact ⟨CXStep.tick s1 s3 x now reqs3 hadv, Or.inl hadv⟩
  obtain ⟨hcore, hform⟩ := hcore
  rw [hn1] at hcore
  have hw := waitRec_userExecute s3 s4 (gameSaves step csf s.sync.cells.length x reqs3) hwait
  exact ⟨CXStar.step _ _ _ (CXStar.step _ _ _ hp1 hcore) (CXStep.waitRec _ _ _ hw),
    s1, s3, hp1, hc1, (waitRec_fields s3 s4 hwait).1, hform⟩

/-! ### gossip that IS acted upon -/

/-- The cut-off `update_player_disconnects` computes for a player from the running endpoints'
reports (and, while the player still counts as connected here, the session's own record). -/
def adoptFrame (a : P2P) (h : Nat) : Frame :=
  if !(rget a.localConnectStatus h).disconnected then min (P2P.gossipOf a.remotes h).2 (rget a.localConnectStatus h).lastFrame
  else (P2P.gossipOf a.remotes h).2

/-- Does `update_player_disconnects` call `disconnect_player_at_frame` for this player? -/
def adopts (a : P2P) (h : Nat) : Bool :=
  !(P2P.gossipOf a.remotes h).1 &&
    (!(rget a.localConnectStatus h).disconnected || decide ((rget a.localConnectStatus h).lastFrame > adoptFrame a h))

theorem updIter (a a' : P2P) (now h : Nat)
    (hi : (do
      let (queueConnected, queueMin) := P2P.gossipOf a.remotes h
      let lc := rget a.localConnectStatus h
      let localConnected := !lc.disconnected
      let queueMin := if localConnected then min queueMin lc.lastFrame else queueMin
      if !queueConnected && (localConnected || lc.lastFrame > queueMin) then
        a.disconnectPlayerAtFrame now h queueMin
      else pure a : M P2P) = .ok a') :
    (adopts a h = false ∧ a' = a) ∨ (adopts a h = true ∧ a.disconnectPlayerAtFrame now h (adoptFrame a h) = .ok a') := by
  unfold adopts adoptFrame
  cases hg : P2P.gossipOf a.remotes h with
  | mk qc qm =>
    rw [hg] at hi
    simp only at hi ⊢
    by_cases hc : (!qc && (!(rget a.localConnectStatus h).disconnected ||
        decide ((rget a.localConnectStatus h).lastFrame >
          (if (!(rget a.localConnectStatus h).disconnected) = true then min qm (rget a.localConnectStatus h).lastFrame else qm)))) = true
    · rw [if_pos hc] at hi
      exact Or.inr ⟨hc, hi⟩
    · rw [if_neg hc] at hi
      have := pure_ok hi
      exact Or.inl ⟨by simpa using hc, this.symm⟩

/-- Every adoption `update_player_disconnects` makes along its walk over the players satisfies the
premises of the `adopt` step of the world. -/
inductive UpdOK (now : Nat) : List Nat → P2P → Prop
  | nil (a : P2P) : UpdOK now [] a
  | skip (a : P2P) (h : Nat) (hs : List Nat) : adopts a h = false → UpdOK now hs a → UpdOK now (h :: hs) a
  | adopt (a : P2P) (h : Nat) (hs : List Nat) (addr : Nat) (ep : Endpoint) : adopts a h = true →
      a.playerType h = some (.remote addr) → P2P.findEp a.remotes addr = some ep →
      (∀ g, g ∈ ep.handles → g ∉ a.localPlayerHandles) → -1 ≤ adoptFrame a h →
      (∀ g, g ∈ ep.handles → g < a.sync.queues.length → (rget a.localConnectStatus g).disconnected = false →
        adoptFrame a h ≤ (rget a.localConnectStatus g).lastFrame) →
      (∀ g, g < a.sync.queues.length → (rget a.localConnectStatus g).disconnected = true →
        (rget a.localConnectStatus g).lastFrame ≤ adoptFrame a h) →
      (∀ a', a.disconnectPlayerAtFrame now h (adoptFrame a h) = .ok a' → UpdOK now hs a') → UpdOK now (h :: hs) a

theorem UpdOK_of_quiet (now : Nat) : ∀ (hs : List Nat) (a : P2P), QuietGossip a → UpdOK now hs a := by
  intro hs
  induction hs with
  | nil => intro a _; exact UpdOK.nil a
  | cons h rest ih =>
    intro a hq
    refine UpdOK.skip a h rest ?_ (ih a hq)
    unfold adopts adoptFrame
    rcases hq h with hx | ⟨hd, hle⟩
    · simp [hx]
    · simp only [hd, Bool.not_true, Bool.false_eq_true, if_false, Bool.false_or]
      have : ¬ ((rget a.localConnectStatus h).lastFrame > (P2P.gossipOf a.remotes h).2) := by omega
      simp [this]

/-- **`update_player_disconnects` is a path of the world**, as long as every adoption it makes is one
the world allows. -/
theorem upd_is_path {G : Type} (step : G → List (Input × InputStatus) → G) (csf : G → Option Nat) (now : Nat) (x : GS G) :
    ∀ (hs : List Nat) (a a' : P2P), UpdOK now hs a →
    hs.foldlM (fun s handle => do
      let (queueConnected, queueMin) := P2P.gossipOf s.remotes handle
      let lc := rget s.localConnectStatus handle
      let localConnected := !lc.disconnected
      let queueMin := if localConnected then min queueMin lc.lastFrame else queueMin
      if !queueConnected && (localConnected || lc.lastFrame > queueMin) then
        s.disconnectPlayerAtFrame now handle queueMin
      else pure s) a = .ok a' →
    CXStar step csf (a, x) (a', x) ∧ a'.sync = a.sync ∧ a'.maxPrediction = a.maxPrediction ∧ a'.sparse = a.sparse := by
  intro hs
  induction hs with
  | nil =>
    intro a a' _ hf
    simp only [List.foldlM_nil] at hf
    have := pure_ok hf; subst this
    exact ⟨CXStar.refl _, rfl, rfl, rfl⟩
  | cons h rest ih =>
    intro a a' hok hf
    simp only [List.foldlM_cons] at hf
    obtain ⟨a1, h1, hf⟩ := bind_ok hf
    rcases updIter a a1 now h h1 with ⟨hno, he⟩ | ⟨hyes, hcall⟩
    · rw [he] at hf
      cases hok with
      | skip _ _ _ _ hrest => exact ih a a' hrest hf
      | adopt _ _ _ addr ep hy => rw [hno] at hy; cases hy
    · cases hok with
      | skip _ _ _ hn _ => rw [hyes] at hn; cases hn
      | adopt _ _ _ addr ep _ hpt hep hrem hl0 hlow hdead hnext =>
        obtain ⟨_, _, _, fsync, _, _, _, _, _, fsp, _, _, _, _⟩ := P2P.disconnectAt_fields a a1 now h addr _ ep hpt hep hcall
        have hmp : a1.maxPrediction = a.maxPrediction := by
          -- disconnect_player_at_frame does not touch the configuration
          unfold P2P.disconnectPlayerAtFrame at hcall
          rw [hpt] at hcall
          simp only [hep, bind, Except.bind, pure, Except.pure] at hcall
          cases hupd : P2P.updEp (List.foldl (fun s h => s.setStatus h fun c => { c with disconnected := true }) a ep.handles).remotes addr
              (fun e => Except.ok (e.disconnect now)) with
          | error e => rw [hupd] at hcall; cases hcall
          | ok remotes =>
            rw [hupd] at hcall
            simp only at hcall
            cases hcall
            have hm : ∀ (l : List Nat) (b : P2P), (l.foldl (fun s h => s.setStatus h fun c => { c with disconnected := true }) b).maxPrediction = b.maxPrediction := by
              intro l
              induction l with
              | nil => intro b; rfl
              | cons y ys ihh => intro b; simp only [List.foldl_cons]; rw [ihh]; rfl
            have hci : ∀ (b : P2P), b.checkInitialSync.maxPrediction = b.maxPrediction := by
              intro b; unfold P2P.checkInitialSync; split
              · rfl
              · split <;> rfl
            rw [hci]
            split <;> exact hm _ _
        obtain ⟨hpath, hs2, hm2, hsp2⟩ := ih a1 a' (hnext a1 hcall) hf
        have hstep : CXStep step csf (a, x) (a1, x) :=
          CXStep.net a a1 x (XStep.adopt a a1 ⟨x.cur, x.R⟩ now h addr ep _ hpt hep hrem hl0 hlow hdead hcall)
            (by rw [fsync]) fsp (by rw [fsync]) (by rw [fsync])
        exact ⟨CXStar.trans (CXStar.step _ _ _ (CXStar.refl _) hstep) hpath, hs2.trans fsync, hm2.trans hmp, hsp2.trans fsp⟩

/-- **The entry point is a path of the world with drops, gossip included.** A successful rollback-mode
`advance_frame_core` call is: desync bookkeeping, then — `update_player_disconnects` — one `adopt`
step per cut-off adopted from the other peers' reports, then the call's core, then the wait
recommendation; provided every adoption is one the world allows (`UpdOK`: in particular no cut-off
earlier than the last frame of a player that is already marked — the known finding of C10), and
on the very first call (frame 0, where the extra save sits between the two) none is made. -/
theorem call_is_pathG {G : Type} (step : G → List (Input × InputStatus) → G) (csf : G → Option Nat)
    (s s' : P2P) (x : GS G) (now : Nat) (reqs' : List Request)
    (hmp : (s.maxPrediction == 0) = false)
    (hng : ∀ s1, s.desyncPhase now = .ok s1 →
      (s1.sync.currentFrame = 0 → QuietGossip s1) ∧ UpdOK now (List.range s1.numPlayers) s1)
    (hcall : s.advanceFrameCore now = .ok (s', .ok reqs')) :
    CXStar step csf (s, x)
      (s'.userExecute (gameSaves step csf s.sync.cells.length x reqs'), execGs step s.sync.cells.length x reqs') ∧
    ∃ sm s3 : P2P, CXStar step csf (s, x) (sm, x) ∧ sm.sync.cells.length = s.sync.cells.length ∧ P2P.SameCore s3 s' ∧
      (sm.advanceRollbackFrame now [] = .ok (s3, reqs') ∨
       ∃ sy r, sm.sync.currentFrame = 0 ∧ sm.sync.saveCurrentState = .ok (sy, r) ∧
         ({ sm with sync := sy } : P2P).advanceRollbackFrame now [r] = .ok (s3, reqs')) := by
  unfold P2P.advanceFrameCore at hcall
  by_cases hrun : (!s.running) = true
  · rw [if_pos hrun] at hcall
    have := pure_ok hcall
    simp only [Prod.mk.injEq] at this
    cases this.2
  rw [if_neg hrun] at hcall
  by_cases hin : (!(s.localPlayerHandles.all fun h => s.pendingLocalInputs.any (·.1 == h))) = true
  · rw [if_pos hin] at hcall
    have := pure_ok hcall
    simp only [Prod.mk.injEq] at this
    cases this.2
  rw [if_neg hin] at hcall
  obtain ⟨s1, hdes, hcall⟩ := bind_ok hcall
  obtain ⟨r2, hfs, hcall⟩ := bind_ok hcall
  obtain ⟨s2, reqs0⟩ := r2
  simp only at hcall
  obtain ⟨s2', hupd, hcall⟩ := bind_ok hcall
  obtain ⟨r3, hadv, hcall⟩ := bind_ok hcall
  obtain ⟨s3, reqs3⟩ := r3
  simp only at hcall
  obtain ⟨s4, hwait, hcall⟩ := bind_ok hcall
  have := pure_ok hcall
  simp only [Prod.mk.injEq, Except.ok.injEq] at this
  obtain ⟨hs4, hreqs⟩ := this
  subst hs4; subst hreqs
  have hpath1 : CXStar step csf (s, x) (s1, x) ∧ P2P.SameCore s s1 := by
    unfold P2P.desyncPhase at hdes
    split at hdes
    · obtain ⟨sr, hrep, hdes⟩ := bind_ok hdes
      have := pure_ok hdes
      subst this
      refine ⟨CXStar.step _ _ _ (CXStar.step _ _ _ (CXStar.refl _) (CXStep.report s sr x now hrep)) (CXStep.compare sr x), ?_⟩
      exact (report_fields s sr now hrep).1.trans (compare_fields sr).1
    · have := pure_ok hdes
      subst this
      exact ⟨CXStar.refl _, P2P.SameCore.refl s⟩
  obtain ⟨hp1, hc1⟩ := hpath1
  have hmp1 : (s1.maxPrediction == 0) = false := by rw [hc1.maxPrediction]; exact hmp
  obtain ⟨hq0, hok1⟩ := hng s1 hdes
  have hn1 : s1.sync.cells.length = s.sync.cells.length := by rw [hc1.sync]
  unfold P2P.firstSavePhase at hfs
  by_cases hfirst : (s1.sync.currentFrame == 0 && !(s1.maxPrediction == 0)) = true
  · -- the very first call: no adoption
    rw [if_pos hfirst] at hfs
    obtain ⟨r, hsv, hfs⟩ := bind_ok hfs
    obtain ⟨sy, rq⟩ := r
    simp only at hfs
    have := pure_ok hfs
    simp only [Prod.mk.injEq] at this
    obtain ⟨e1, e2⟩ := this
    subst e1; subst e2
    have hc0 : s1.sync.currentFrame = 0 := by
      simp only [Bool.and_eq_true, beq_iff_eq] at hfirst; exact hfirst.1
    have hng2 : QuietGossip ({ s1 with sync := sy } : P2P) := hq0 hc0
    rw [updatePlayerDisconnects_quiet _ now hng2] at hupd
    have := pure_ok hupd
    subst this
    unfold P2P.advanceByMode at hadv
    have hmp2 : (({ s1 with sync := sy } : P2P).maxPrediction == 0) = false := hmp1
    rw [if_neg (by rw [hmp2]; simp)] at hadv
    have hcore : CXStep step csf (s1, x)
        (s3.userExecute (gameSaves step csf s1.sync.cells.length x reqs3), execGs step s1.sync.cells.length x reqs3) :=
      CXStep.tick0 s1 s3 x now sy rq reqs3 hc0 hsv hadv
    rw [hn1] at hcore
    have hw := waitRec_userExecute s3 s4 (gameSaves step csf s.sync.cells.length x reqs3) hwait
    exact ⟨CXStar.step _ _ _ (CXStar.step _ _ _ hp1 hcore) (CXStep.waitRec _ _ _ hw),
      s1, s3, hp1, hn1, (waitRec_fields s3 s4 hwait).1, Or.inr ⟨sy, rq, hc0, hsv, hadv⟩⟩
  · rw [if_neg hfirst] at hfs
    have := pure_ok hfs
    simp only [Prod.mk.injEq] at this
    obtain ⟨e1, e2⟩ := this
    subst e1; subst e2
    unfold P2P.updatePlayerDisconnects at hupd
    obtain ⟨hp2, hsy2, hm2, _⟩ := upd_is_path step csf now x _ s1 s2' hok1 hupd
    unfold P2P.advanceByMode at hadv
    have hmp2 : (s2'.maxPrediction == 0) = false := by rw [hm2]; exact hmp1
    rw [if_neg (by rw [hmp2]; simp)] at hadv
    have hn2 : s2'.sync.cells.length = s.sync.cells.length := by rw [hsy2]; exact hn1
    have hcore : CXStep step csf (s2', x)
        (s3.userExecute (gameSaves step csf s2'.sync.cells.length x reqs3), execGs step s2'.sync.cells.length x reqs3) :=
      CXStep.tick s2' s3 x now reqs3 hadv
    rw [hn2] at hcore
    have hw := waitRec_userExecute s3 s4 (gameSaves step csf s.sync.cells.length x reqs3) hwait
    have hpm : CXStar step csf (s, x) (s2', x) := CXStar.trans hp1 hp2
    exact ⟨CXStar.step _ _ _ (CXStar.step _ _ _ hpm hcore) (CXStep.waitRec _ _ _ hw),
      s2', s3, hpm, hn2, (waitRec_fields s3 s4 hwait).1, Or.inl hadv⟩

end Ggrs
