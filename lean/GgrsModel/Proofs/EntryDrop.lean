/-
L-entry with drops: `advance_frame_core` in rollback mode is a path of the world with drops as long
as the gossip of the running endpoints tells the session nothing new: every player some running
endpoint reports as disconnected is already marked here, with a last frame no later than any
reported one. (A report of an EARLIER cut-off is what `update_player_disconnects` acts upon; that
path is the subject of C10 and is not covered.)
-/
import GgrsModel.Proofs.DropGame
import GgrsModel.Proofs.EntryPoint

namespace Ggrs

/-- The running endpoints' reports tell the session nothing it has not already settled. -/
def QuietGossip (s : P2P) : Prop :=
  ∀ h, (P2P.gossipOf s.remotes h).1 = true ∨
    ((rget s.localConnectStatus h).disconnected = true ∧
      (rget s.localConnectStatus h).lastFrame ≤ (P2P.gossipOf s.remotes h).2)

theorem NoGossip.quiet {s : P2P} (h : NoGossip s) : QuietGossip s := fun x => Or.inl (h x)

theorem updatePlayerDisconnects_quiet (s : P2P) (now : Nat) (h : QuietGossip s) :
    s.updatePlayerDisconnects now = .ok s := by
  unfold P2P.updatePlayerDisconnects
  apply foldlM_id
  intro handle
  have hq := h handle
  cases hg : P2P.gossipOf s.remotes handle with
  | mk qc qm =>
    rw [hg] at hq
    simp only at hq
    rcases hq with hq | ⟨hd, hle⟩
    · subst hq
      simp only [Bool.not_true, Bool.false_and, Bool.false_eq_true, if_false]
      rfl
    · simp only [hd, Bool.not_true, Bool.false_eq_true, if_false, Bool.false_or]
      have : ¬ ((rget s.localConnectStatus handle).lastFrame > qm) := by omega
      simp only [this, decide_false, Bool.and_false, Bool.false_eq_true, if_false]
      rfl

theorem CXStar.trans {G : Type} {step : G → List (Input × InputStatus) → G} {csf : G → Option Nat}
    {a b c : P2P × GS G} (h1 : CXStar step csf a b) (h2 : CXStar step csf b c) : CXStar step csf a c := by
  induction h2 with
  | refl => exact h1
  | step b c _ hs ih => exact CXStar.step _ _ _ ih hs

/-- **The entry point is a path of the world with drops.** -/
theorem call_is_pathD {G : Type} (step : G → List (Input × InputStatus) → G) (csf : G → Option Nat)
    (s s' : P2P) (x : GS G) (now : Nat) (reqs' : List Request)
    (hmp : (s.maxPrediction == 0) = false)
    (hng : ∀ s1, s.desyncPhase now = .ok s1 → QuietGossip s1)
    (hcall : s.advanceFrameCore now = .ok (s', .ok reqs')) :
    CXStar step csf (s, x)
      (s'.userExecute (gameSaves step csf s.sync.cells.length x reqs'), execGs step s.sync.cells.length x reqs') ∧
    ∃ s1 s3 : P2P, CXStar step csf (s, x) (s1, x) ∧ P2P.SameCore s s1 ∧ P2P.SameCore s3 s' ∧
      (s1.advanceRollbackFrame now [] = .ok (s3, reqs') ∨
       ∃ sy r, s1.sync.currentFrame = 0 ∧ s1.sync.saveCurrentState = .ok (sy, r) ∧
         ({ s1 with sync := sy } : P2P).advanceRollbackFrame now [r] = .ok (s3, reqs')) := by
  unfold P2P.advanceFrameCore at hcall
  by_cases hrun : (!s.running) = true
  · rw [if_pos hrun] at hcall
    have := pure_ok hcall
    simp only [Prod.mk.injEq] at this
    cases this.2
  rw [if_neg hrun] at hcall
  by_cases hin : (!(s.localPlayerHandles.all fun h => s.pendingLocalInputs.any (·.1 == h))) = true
  · rw [if_pos hin] at hcall
    have := pure_ok hcall
    simp only [Prod.mk.injEq] at this
    cases this.2
  rw [if_neg hin] at hcall
  obtain ⟨s1, hdes, hcall⟩ := bind_ok hcall
  obtain ⟨r2, hfs, hcall⟩ := bind_ok hcall
  obtain ⟨s2, reqs0⟩ := r2
  simp only at hcall
  obtain ⟨s2', hupd, hcall⟩ := bind_ok hcall
  obtain ⟨r3, hadv, hcall⟩ := bind_ok hcall
  obtain ⟨s3, reqs3⟩ := r3
  simp only at hcall
  obtain ⟨s4, hwait, hcall⟩ := bind_ok hcall
  have := pure_ok hcall
  simp only [Prod.mk.injEq, Except.ok.injEq] at this
  obtain ⟨hs4, hreqs⟩ := this
  subst hs4; subst hreqs
  have hpath1 : CXStar step csf (s, x) (s1, x) ∧ P2P.SameCore s s1 := by
    unfold P2P.desyncPhase at hdes
    split at hdes
    · obtain ⟨sr, hrep, hdes⟩ := bind_ok hdes
      have := pure_ok hdes
      subst this
      refine ⟨CXStar.step _ _ _ (CXStar.step _ _ _ (CXStar.refl _) (CXStep.report s sr x now hrep)) (CXStep.compare sr x), ?_⟩
      exact (report_fields s sr now hrep).1.trans (compare_fields sr).1
    · have := pure_ok hdes
      subst this
      exact ⟨CXStar.refl _, P2P.SameCore.refl s⟩
  obtain ⟨hp1, hc1⟩ := hpath1
  have hmp1 : (s1.maxPrediction == 0) = false := by rw [hc1.maxPrediction]; exact hmp
  have hng1 : QuietGossip s1 := hng s1 hdes
  have hn1 : s1.sync.cells.length = s.sync.cells.length := by rw [hc1.sync]
  have hcore : CXStep step csf (s1, x)
      (s3.userExecute (gameSaves step csf s1.sync.cells.length x reqs3), execGs step s1.sync.cells.length x reqs3) ∧
      (s1.advanceRollbackFrame now [] = .ok (s3, reqs3) ∨
       ∃ sy r, s1.sync.currentFrame = 0 ∧ s1.sync.saveCurrentState = .ok (sy, r) ∧
         ({ s1 with sync := sy } : P2P).advanceRollbackFrame now [r] = .ok (s3, reqs3)) := by
    unfold P2P.firstSavePhase at hfs
    by_cases hfirst : (s1.sync.currentFrame == 0 && !(s1.maxPrediction == 0)) = true
    · rw [if_pos hfirst] at hfs
      obtain ⟨r, hsv, hfs⟩ := bind_ok hfs
      obtain ⟨sy, rq⟩ := r
      simp only at hfs
      have := pure_ok hfs
      simp only [Prod.mk.injEq] at this
      obtain ⟨e1, e2⟩ := this
      subst e1; subst e2
      have hng2 : QuietGossip ({ s1 with sync := sy } : P2P) := hng1
      rw [updatePlayerDisconnects_quiet _ now hng2] at hupd
      have := pure_ok hupd
      subst this
      unfold P2P.advanceByMode at hadv
      have hmp2 : (({ s1 with sync := sy } : P2P).maxPrediction == 0) = false := hmp1
      rw [if_neg (by rw [hmp2]; simp)] at hadv
      have hc0 : s1.sync.currentFrame = 0 := by
        simp only [Bool.and_eq_true, beq_iff_eq] at hfirst; exact hfirst.1
      exact ⟨CXStep.tick0 s1 s3 x now sy rq reqs3 hc0 hsv hadv, Or.inr ⟨sy, rq, hc0, hsv, hadv⟩⟩
    · rw [if_neg hfirst] at hfs
      have := pure_ok hfs
      simp only [Prod.mk.injEq] at this
      obtain ⟨e1, e2⟩ := this
      subst e1; subst e2
      rw [updatePlayerDisconnects_quiet _ now hng1] at hupd
      have := pure_ok hupd
      subst this
      unfold P2P.advanceByMode at hadv
      rw [if_neg (by rw [hmp1]; simp)] at hadv
      exact ⟨CXStep.tick s1 s3 x now reqs3 hadv, Or.inl hadv⟩
  obtain ⟨hcore, hform⟩ := hcore
  rw [hn1] at hcore
  have hw := waitRec_userExecute s3 s4 (gameSaves step csf s.sync.cells.length x reqs3) hwait
  exact ⟨CXStar.step _ _ _ (CXStar.step _ _ _ hp1 hcore) (CXStep.waitRec _ _ _ hw),
    s1, s3, hp1, hc1, (waitRec_fields s3 s4 hwait).1, hform⟩

end Ggrs
