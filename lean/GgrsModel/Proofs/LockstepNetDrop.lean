/-
The network side of a lockstep session with dropped players, and run-time delay changes in it: what
it hands to its remote endpoints (queue contents, frame by frame) and to its spectators (rows with
the frameless blank input for players marked as of an earlier frame).
-/
import GgrsModel.Proofs.LockstepDrop
import GgrsModel.Proofs.DelayDrop
import GgrsModel.Proofs.LockstepNet

namespace Ggrs
open InputQueue

theorem rowMapD_specs (gh gh' : DGhost) (st : List ConnStatus) (N : Nat) (h : gh'.specs = gh.specs) :
    rowMapD gh' st N = rowMapD gh st N := by
  funext f; unfold rowMapD; rw [h]

theorem OffersD_specs (gh gh' : DGhost) (st : List ConnStatus) (N now : Nat) (h : gh'.specs = gh.specs) (a b : P2P)
    (ho : OffersD gh st N now a b) : OffersD gh' st N now a b := by
  induction ho with
  | done s => exact OffersD.done s
  | step s s1 s' f hf hoff _ ih => exact OffersD.step s s1 s' f hf (by rw [rowMapD_specs gh gh' st N h]; exact hoff) ih

theorem lockstepAdvance_fields (s1 s2 : P2P) (c1 : Frame) (reqs2 : List Request)
    (hstep : s1.lockstepAdvance s1.sync.currentFrame c1 [] = .ok (s2, reqs2)) :
    s2.nextSpectatorFrame = s1.nextSpectatorFrame ∧ s2.outgoingLocalInputs = s1.outgoingLocalInputs ∧
      s2.lastSentOutgoingInputFrame = s1.lastSentOutgoingInputFrame := by
  unfold P2P.lockstepAdvance at hstep
  split at hstep
  · obtain ⟨cis, _, hstep⟩ := bind_ok hstep
    obtain ⟨inputs, _, hstep⟩ := bind_ok hstep
    have := pure_ok hstep
    simp only [Prod.mk.injEq] at this
    rw [← this.1]
    exact ⟨rfl, rfl, rfl⟩
  · have := pure_ok hstep
    simp only [Prod.mk.injEq] at this
    rw [← this.1]
    exact ⟨rfl, rfl, rfl⟩

/-- One lockstep call with dropped players: the local inputs go out as queue contents, the spectators
are offered the next frames up to `min(confirmed, consumed)` as rows `rowMapD`. -/
theorem lockstepTick_netD (s s' : P2P) (gh : DGhost) (t : TLState) (now : Nat) (reqs' : List Request)
    (h : LkInvD s gh t) (hg : GlueInv s gh.g) (hn : 0 ≤ s.nextSpectatorFrame)
    (hadv : s.advanceLockstepFrame now [] = .ok (s', reqs')) :
    ∃ (gh1 gh' : DGhost) (sA sB sC sD : P2P), LkInvD s' gh' (execReqs t reqs') ∧ GlueInv s' gh'.g ∧
      0 ≤ s'.nextSpectatorFrame ∧ gh'.specs = gh1.specs ∧
      (∀ p, PrefixOf (gh.specs p).vals (gh1.specs p).vals) ∧
      sA.lastSentOutgoingInputFrame = s.lastSentOutgoingInputFrame ∧ Sends gh1.g now sA sB ∧
      s'.lastSentOutgoingInputFrame = sB.lastSentOutgoingInputFrame ∧
      sC.nextSpectatorFrame = s.nextSpectatorFrame ∧
      OffersD gh1 sC.localConnectStatus s.sync.queues.length now sC sD ∧
      s'.nextSpectatorFrame = sD.nextSpectatorFrame := by
  -- the session-level facts of the call
  obtain ⟨ghT, hlT, _, hnqT, _⟩ := lockstepTick_specD s s' gh t now reqs' h hadv
  unfold P2P.advanceLockstepFrame at hadv
  obtain ⟨s1, hreg, hadv⟩ := bind_ok hadv
  obtain ⟨c1, hc1, hadv⟩ := bind_ok hadv
  obtain ⟨r2, hstep, hadv⟩ := bind_ok hadv
  obtain ⟨s2, reqs2⟩ := r2
  simp only at hadv
  obtain ⟨c2, hc2, hadv⟩ := bind_ok hadv
  obtain ⟨s3, hspec, hadv⟩ := bind_ok hadv
  obtain ⟨sy4, hset, hadv⟩ := bind_ok hadv
  have := pure_ok hadv
  simp only [Prod.mk.injEq] at this
  obtain ⟨hs', hr'⟩ := this
  -- local inputs out
  obtain ⟨gh1, sA, hinv1, hg1, hk1, hlsA, hsends, hpre⟩ := registerLocalInputs_glueD s s1 gh t [] now h.sess hg hreg
  have hn1 : s1.nextSpectatorFrame = s.nextSpectatorFrame := P2P.registerLocalInputs_nsf _ _ _ hreg
  have hskip1 : ∀ p (f : Int), Skip (rget s1.localConnectStatus p) f ↔ Skip (rget s.localConnectStatus p) f := by
    intro p f
    apply skip_congr f (hk1.flags p)
    intro hd
    exact (hk1.deadQ p (by rw [← hk1.flags p]; exact hd)).2
  have hl1 : LkInvD s1 gh1 t := by
    refine ⟨hinv1, registerLocalInputs_idle s s1 now h.idle hreg, by rw [hk1.df]; exact h.df, ?_, ?_⟩
    · intro p hp hc
      rw [hk1.cur]
      have := h.full p (by rw [← hk1.nq]; exact hp) (by rw [← hk1.flags p]; exact hc)
      have := hk1.grows p
      omega
    · intro f hf
      rw [hk1.nq]
      obtain ⟨a, b⟩ := h.rows f (by rw [← hk1.cur]; exact hf)
      refine ⟨a, fun p hp => ?_⟩
      rw [b p hp]
      by_cases hsk : Skip (rget s.localConnectStatus p) (f : Int)
      · rw [if_pos hsk, if_pos ((hskip1 p f).mpr hsk)]
      · rw [if_neg hsk, if_neg (fun hx => hsk ((hskip1 p f).mp hx))]
  -- the frame
  obtain ⟨hn2, ho2, hls2⟩ := lockstepAdvance_fields s1 s2 c1 reqs2 hstep
  have hmid : ∃ gh2, SessInvD s2 gh2 t reqs2 s2.localConnectStatus ∧ gh2.specs = gh1.specs ∧
      s2.sync.queues.length = s1.sync.queues.length ∧ s2.localConnectStatus = s1.localConnectStatus ∧
      s2.handles = s1.handles := by
    rcases lockstepAdvance_specD s1 s2 gh1 t c1 reqs2 hl1 hc1 hstep with ⟨hre, hse⟩ |
        ⟨c, gh2, _, _, hsp2, _, hs2, _, _, hq2, hst2, _, hh2, _, _⟩
    · subst hse; subst hre; exact ⟨gh1, hinv1, rfl, rfl, rfl, rfl⟩
    · exact ⟨gh2, hs2, hsp2, by rw [hq2], hst2, hh2⟩
  obtain ⟨gh2, hs2, hsp2, hq2, hst2, hh2⟩ := hmid
  have hg2 : GlueInv s2 gh2.g := GlueInv_transfer s1 s2 gh1.g gh2.g hg1 ho2 hh2 hst2 hq2 (by show gh2.specs = gh1.specs; exact hsp2)
  -- spectators
  have hs2' := SessInvD_rebase s2 gh2 t reqs2 _ hs2
  have hN2 : s2.localConnectStatus.length = s2.sync.queues.length := hs2.tinv.sync.nq
  have hle : ∀ p, p < s2.sync.queues.length → (rget s2.localConnectStatus p).disconnected = false →
      min c2 (s2.sync.currentFrame - 1) ≤ (rget s2.localConnectStatus p).lastFrame := by
    intro p hp hc
    have := confirmedFrame_leD s2 c2 hc2 p (by rw [hN2]; exact hp) hc
    exact Int.le_trans (Int.min_le_left _ _) this
  obtain ⟨hoff, hnl1, _⟩ := sendConfirmed_rowsD s2 s3 gh2 _ [] now _ hs2' (by rw [hn2, hn1]; exact hn) hle hspec
  obtain ⟨ho3, hls3⟩ := P2P.sendConfirmed_out _ _ _ _ hspec
  have hc3 := P2P.sendConfirmed_sameCore _ _ _ _ hspec
  subst hs'
  subst hr'
  -- the final state: the tick theorem gives the invariant for SOME ghost; the glue invariant needs the streams,
  -- which the bookkeeping does not change
  have hg3 : GlueInv s3 gh2.g := GlueInv_transfer s2 s3 gh2.g gh2.g hg2 ho3 hc3.handles hc3.statuses (by rw [hc3.sync]) rfl
  have hq4 : sy4.queues.length = s3.sync.queues.length := by
    have : sy4.queues.length = s.sync.queues.length := hnqT
    rw [this, hc3.sync, hq2, hk1.nq]
  -- the specs of the tick theorem's ghost on local players are those of gh2 (both are determined by the queues'
  -- streams); instead of relating the two ghosts we re-derive the invariant for gh2's streams through the tail
  obtain ⟨gh4, hl4, hsp4, _, _, _, _, _⟩ := lockstepTail_specD s2 s3 sy4 gh2 (execReqs t reqs2) now c2
    (by
      -- LkInvD for s2 with gh2
      rcases lockstepAdvance_specD s1 s2 gh1 t c1 reqs2 hl1 hc1 hstep with ⟨hre, hse⟩ |
          ⟨c, gh2', hcc, hre, hsp2', _, hs2'', hi2, hcur2, hq2', hst2', hdf2, _, _, hfull2⟩
      · subst hse; subst hre
        -- gh2 came from the same case split: it is gh1 here up to specs; use hl1 with specs rewritten
        exact ⟨hs2', hl1.idle, hl1.df, fun p hp hc => by rw [hsp2]; exact hl1.full p hp hc, hl1.rows⟩
      · refine ⟨hs2', hi2, by rw [hdf2]; exact hl1.df, ?_, ?_⟩
        · intro p hp hc
          rw [hcur2, hcc, hsp2]
          exact hfull2 p (by rw [← hq2']; exact hp) (by rw [← hst2']; exact hc)
        · intro f hf
          rw [hq2', hst2']
          rw [hcur2, hcc] at hf
          have htc : t.cur = (c : Int) := by
            have := hinv1.tinv.exec; simp only [execReqs, List.foldl_nil] at this; rw [this, hcc]
          have hR : (execReqs t reqs2).R = upd t.R c (rowOfD gh1 s1.localConnectStatus s1.sync.queues.length c) := by
            rw [hre]
            simp only [execReqs, List.foldl_cons, List.foldl_nil, execReq, htc]
            simp
          rw [hR]
          by_cases hfc : f = c
          · subst hfc
            rw [upd_self]
            refine ⟨rowOfD_length _ _ _ _, fun p hp => ?_⟩
            rw [rowOfD_getD _ _ _ _ _ hp]
            split <;> rfl
          · rw [upd_ne _ _ _ _ hfc]
            exact hl1.rows f (by rw [hcc]; omega))
    hc2 hspec hset
  have hg4 : GlueInv ({ s3 with sync := sy4 } : P2P) gh4.g :=
    GlueInv_transfer s3 _ gh2.g gh4.g hg3 rfl rfl rfl hq4 (by show gh4.specs = gh2.specs; exact hsp4)
  refine ⟨gh1, gh4, sA, s1, s2, s3, hl4, hg4, ?_, by rw [hsp4, hsp2], hpre, hlsA, hsends, ?_,
    hn2.trans hn1, ?_, rfl⟩
  · show 0 ≤ s3.nextSpectatorFrame
    have : 0 ≤ s2.nextSpectatorFrame := by rw [hn2, hn1]; exact hn
    omega
  · show s3.lastSentOutgoingInputFrame = s1.lastSentOutgoingInputFrame
    rw [hls3, hls2]
  · rw [hq2, hk1.nq] at hoff
    exact OffersD_specs gh2 gh1 _ _ now hsp2.symm s2 s3 hoff

/-- Lockstep invariant with drops, glue invariant and a non-negative spectator cursor. -/
def LkNetInvD (x : P2P × TLState) : Prop :=
  (∃ gh, LkInvD x.1 gh x.2 ∧ GlueInv x.1 gh.g) ∧ 0 ≤ x.1.nextSpectatorFrame

/-- The lockstep world with drops and run-time delay changes. -/
inductive LkYStep : (P2P × TLState) → (P2P × TLState) → Prop
  | base (x y : P2P × TLState) : LkXStep x y → LkYStep x y
  | setDelay (s s' : P2P) (t : TLState) (now handle delay : Nat) (r : Except GgrsError Unit) :
      handle ∈ s.localPlayerHandles → handle < s.sync.queues.length →
      s.setInputDelay now handle delay = .ok (s', r) → LkYStep (s, t) (s', t)

inductive LkYStar : (P2P × TLState) → (P2P × TLState) → Prop
  | refl (x : P2P × TLState) : LkYStar x x
  | step (x y z : P2P × TLState) : LkYStar x y → LkYStep y z → LkYStar x z

theorem LkNetInvD_step (x y : P2P × TLState) (h : LkNetInvD x) (hs : LkYStep x y) : LkNetInvD y := by
  obtain ⟨⟨gh, hl, hg⟩, hn⟩ := h
  cases hs with
  | base _ _ hb =>
    cases hb with
    | localInput s t handle input =>
      obtain ⟨l, hl'⟩ := P2P.addLocalInput_pending s handle input
      show LkNetInvD ((s.addLocalInput handle input).1, t)
      rw [hl']
      exact ⟨⟨gh, ⟨SessInvD_pending s gh t [] _ l hl.sess, hl.idle, hl.df, hl.full, hl.rows⟩, GlueInv_pending s gh.g l hg⟩, hn⟩
    | remoteInput s s' t now inp player handles addr hnl h0 hev =>
      obtain ⟨gh', st0', h', _, _, hcur, hh, _, hnq, hdf, hgrow, hflags, hdead, hsp⟩ :=
        remoteInput_specD s s' gh t [] _ now inp player handles addr hl.sess hnl h0 hev
      have hidle := remoteInput_idle s s' now inp player handles addr hl.idle hev
      have hdf' : s'.disconnectFrame = NULL_FRAME := by rw [hdf]; exact hl.df
      have hres := SessInvD_resolve s' gh' t [] st0' h' hdf' (fun p hp => (hidle p hp).2.1)
      obtain ⟨ho, _, hst⟩ := P2P.remoteInput_out s s' now inp player handles addr hev
      refine ⟨⟨gh', ⟨hres, hidle, hdf', ?_, ?_⟩, ?_⟩, ?_⟩
      · intro p hp hc
        rw [hcur]
        have hfull : s.sync.currentFrame ≤ ((gh.specs p).vals.length : Int) :=
          hl.full p (by rw [← hnq]; exact hp) (by rw [← hflags p]; exact hc)
        have := hgrow p
        omega
      · intro f hf
        rw [hnq]
        obtain ⟨a, b⟩ := hl.rows f (by rw [← hcur]; exact hf)
        refine ⟨a, fun p hp => ?_⟩
        rw [b p hp]
        have hsk : Skip (rget s'.localConnectStatus p) (f : Int) ↔ Skip (rget s.localConnectStatus p) (f : Int) :=
          skip_congr (f : Int) (hflags p) (fun hd => hdead p (by rw [← hflags p]; exact hd))
        by_cases hx : Skip (rget s.localConnectStatus p) (f : Int)
        · rw [if_pos hx, if_pos (hsk.mpr hx)]
        · rw [if_neg hx, if_neg (fun hy => hx (hsk.mp hy))]
      · exact GlueInv_transferL s s' gh.g gh'.g hg ho hh (fun p hp => hst p (fun e => hnl (e ▸ hp))) hnq
          (fun p hp => hsp p (fun e => hnl (e ▸ hp)))
      · show 0 ≤ s'.nextSpectatorFrame
        rw [P2P.remoteInput_nsf s s' now inp player handles addr hev]; exact hn
    | tick s s' t now reqs' hadv =>
      obtain ⟨_, gh', _, _, _, _, hl', hg', hn', _⟩ := lockstepTick_netD s s' gh t now reqs' hl hg hn hadv
      exact ⟨⟨gh', hl', hg'⟩, hn'⟩
    | dropApi s s' t now handle addr ep hpt hep hin hrem hlt hl0 hsame hcall =>
      unfold P2P.disconnectPlayer at hcall
      rw [hpt] at hcall
      simp only at hcall
      by_cases hc : (rget s.localConnectStatus handle).disconnected = true
      · simp only [hc, Bool.not_true, Bool.false_eq_true, if_false] at hcall
        have := pure_ok hcall
        simp only [Prod.mk.injEq] at this
        cases this.2
      · have hc' : (rget s.localConnectStatus handle).disconnected = false := by simpa using hc
        simp only [hc', Bool.not_false, if_true] at hcall
        obtain ⟨s1, hdrop, hcall⟩ := bind_ok hcall
        have := pure_ok hcall
        simp only [Prod.mk.injEq] at this
        rw [← this.1]
        obtain ⟨h', hsy, hh, _, hmono, _, hlast, hdf, hoth, hout, _⟩ := drop_specD s s1 gh t [] _ now handle addr _ ep hl.sess hpt hep hrem
          ⟨hlt, hc', rfl⟩ hl0 hsame hdrop
        refine ⟨⟨gh, drop_lkD s s1 gh t ep.handles _ hl h' hsy hdf hmono hlast hoth hrem hsame ⟨handle, hin, hlt, hc'⟩,
          GlueInv_transferL s s1 gh.g gh.g hg hout hh (fun p hp => hoth p (fun hi => hrem p hi hp)) (by rw [hsy]) (fun _ _ => rfl)⟩, ?_⟩
        show 0 ≤ s1.nextSpectatorFrame
        rw [P2P.disconnectAt_nsf _ _ _ _ _ hdrop]; exact hn
    | dropEvent s s' t now addr hs ep L hne hpt hep hsub hrem hlt hconn hL0 hsame hev =>
      unfold P2P.handleEventCore at hev
      simp only at hev
      obtain ⟨s1, hfold, hev⟩ := bind_ok hev
      have := pure_ok hev
      subst this
      have cfg : DropCfg s hs addr ep.handles L s.localConnectStatus :=
        ⟨hpt, ⟨ep, hep, rfl⟩, hsub, hrem, hlt,
          fun x hx => ⟨hconn x hx, hsame x (hsub x hx) (hlt x hx).2 (hconn x hx)⟩, hL0, hsame⟩
      obtain ⟨h', hsy, hh, _, hmono, _, hlast, hdf, hoth, hout, _⟩ := dropFold_specD gh t [] _ now addr ep.handles L hs s s1 hl.sess cfg hfold
      obtain ⟨x0, hx0⟩ := List.exists_mem_of_ne_nil hs hne
      have hlk := drop_lkD s s1 gh t ep.handles L hl h' hsy hdf hmono hlast hoth hrem hsame
        ⟨x0, hsub x0 hx0, (hlt x0 hx0).2, hconn x0 hx0⟩
      have hfn : s1.nextSpectatorFrame = s.nextSpectatorFrame := by
        have key : ∀ (l : List Nat) (a b : P2P), l.foldlM (fun s h =>
            let lastFrame := if h < s.numPlayers then (rget s.localConnectStatus h).lastFrame else NULL_FRAME
            s.disconnectPlayerAtFrame now h lastFrame) a = .ok b → b.nextSpectatorFrame = a.nextSpectatorFrame := by
          intro l
          induction l with
          | nil => intro a b hf; simp only [List.foldlM_nil] at hf; have := pure_ok hf; subst this; rfl
          | cons x xs ihl =>
            intro a b hf
            simp only [List.foldlM_cons] at hf
            obtain ⟨a1, h1, hf⟩ := bind_ok hf
            rw [ihl a1 b hf, P2P.disconnectAt_nsf _ _ _ _ _ h1]
        exact key hs s s1 hfold
      refine ⟨⟨gh, ⟨SessInvD_congr s1 _ gh t [] _ hlk.sess ⟨rfl, rfl, rfl, rfl, rfl, rfl, rfl, rfl, rfl⟩, hlk.idle, hlk.df, hlk.full, hlk.rows⟩,
        GlueInv_transferL s _ gh.g gh.g hg hout hh (fun p hp => hoth p (fun hi => hrem p hi hp))
          (by show s1.sync.queues.length = _; rw [hsy]) (fun _ _ => rfl)⟩, ?_⟩
      show 0 ≤ (s1.pushEvent _).nextSpectatorFrame
      have : (s1.pushEvent (Event.disconnected addr)).nextSpectatorFrame = s1.nextSpectatorFrame := rfl
      rw [this, hfn]; exact hn
  | setDelay s s' t now handle delay r hloc hp hset =>
    obtain ⟨gh', st0', h', hg', hcur, _, _, _, hnsf, hdf, hnq, hgrow, hflags, hdead⟩ :=
      setInputDelay_specD s s' gh t [] _ now handle delay r hl.sess hg hloc hp hset
    have hidle := setInputDelay_idle s s' now handle delay r hl.idle hp hset
    have hdf' : s'.disconnectFrame = NULL_FRAME := by rw [hdf]; exact hl.df
    have hres := SessInvD_resolve s' gh' t [] st0' h' hdf' (fun p hp => (hidle p hp).2.1)
    refine ⟨⟨gh', ⟨hres, hidle, hdf', ?_, ?_⟩, hg'⟩, by show 0 ≤ s'.nextSpectatorFrame; rw [hnsf]; exact hn⟩
    · intro p hp' hc
      rw [hcur]
      have hfull : s.sync.currentFrame ≤ ((gh.specs p).vals.length : Int) :=
        hl.full p (by rw [← hnq]; exact hp') (by rw [← hflags p]; exact hc)
      have := hgrow p
      omega
    · intro f hf
      rw [hnq]
      obtain ⟨a, b⟩ := hl.rows f (by rw [← hcur]; exact hf)
      refine ⟨a, fun p hp' => ?_⟩
      rw [b p hp']
      have hsk : Skip (rget s'.localConnectStatus p) (f : Int) ↔ Skip (rget s.localConnectStatus p) (f : Int) :=
        skip_congr (f : Int) (hflags p) (fun hd => hdead p (by rw [← hflags p]; exact hd))
      by_cases hx : Skip (rget s.localConnectStatus p) (f : Int)
      · rw [if_pos hx, if_pos (hsk.mpr hx)]
      · rw [if_neg hx, if_neg (fun hy => hx (hsk.mp hy))]

/-- **Lockstep with drops and delay changes, every run.** -/
theorem LkNetInvD_run (x y : P2P × TLState) (h : LkNetInvD x) (hr : LkYStar x y) : LkNetInvD y := by
  induction hr with
  | refl => exact h
  | step y z _ hs ih => exact LkNetInvD_step y z ih hs

end Ggrs
