/-
L-checksum: what a session reports for desync detection. With a deterministic game whose saves
hand over the checksum of the saved state, every checksum report a rollback-mode session sends
(and remembers for comparison) is the checksum of the serial replay of the session's own timeline
up to the reported frame, and the frame is confirmed — for every interleaving of remote-input
arrivals and `advance_frame` calls, sparse saving or not.
-/
import GgrsModel.Proofs.DelayStep

namespace Ggrs

/-- The cells carry the checksum of the state the game stored in them. -/
def CkRel {G : Type} (csf : G → Option Nat) (cells : List Cell) (x : GS G) : Prop :=
  ∀ i, i < cells.length → 0 ≤ (rget cells i).frame → (rget cells i).checksum = csf (x.cellG i)

theorem latestInRange_mem (cells : List Cell) (start stop : Frame) : ∀ (best : Option Cell) (c : Cell),
    (∀ b, best = some b → b ∈ cells ∧ start ≤ b.frame ∧ b.frame ≤ stop) → ∀ (l : List Cell), (∀ y ∈ l, y ∈ cells) →
    l.foldl (fun best c =>
      if c.frame ≥ start && c.frame ≤ stop then
        match best with
        | none => some c
        | some b => if c.frame ≥ b.frame then some c else some b
      else best) best = some c → c ∈ cells ∧ start ≤ c.frame ∧ c.frame ≤ stop := by
  intro best c hb l
  induction l generalizing best with
  | nil =>
    intro _ h
    simp only [List.foldl_nil] at h
    exact hb c h
  | cons y ys ih =>
    intro hl h
    simp only [List.foldl_cons] at h
    apply ih _ ?_ (fun z hz => hl z (List.mem_cons_of_mem _ hz)) h
    intro b hbe
    by_cases hin : (decide (y.frame ≥ start) && decide (y.frame ≤ stop)) = true
    · rw [if_pos hin] at hbe
      have hy : y ∈ cells ∧ start ≤ y.frame ∧ y.frame ≤ stop := by
        simp only [Bool.and_eq_true, decide_eq_true_eq] at hin
        exact ⟨hl y List.mem_cons_self, hin.1, hin.2⟩
      cases best with
      | none => simp only at hbe; cases hbe; exact hy
      | some b0 =>
        simp only at hbe
        split at hbe
        · cases hbe; exact hy
        · have hb0 := hb b0 rfl
          cases hbe; exact hb0
    · rw [if_neg hin] at hbe
      exact hb b hbe

/-- The cell whose checksum is reported is a written cell of a confirmed frame. -/
theorem checksumCell_mem (s : P2P) (interval : Nat) (cell : Cell) (hn : 0 < s.sync.cells.length)
    (h : s.checksumCellToReport interval = .ok (some cell)) :
    ∃ i, i < s.sync.cells.length ∧ rget s.sync.cells i = cell ∧ 0 ≤ cell.frame ∧
      cell.frame ≤ s.sync.lastConfirmedFrame ∧ s.nextReportFrame interval ≤ cell.frame := by
  unfold P2P.checksumCellToReport at h
  simp only at h
  by_cases hdue : s.nextReportFrame interval ≤ s.sync.lastConfirmedFrame
  · rw [if_pos hdue] at h
    obtain ⟨direct, hsv, h⟩ := bind_ok h
    have hr := pure_ok h
    unfold SyncLayer.savedStateByFrame at hsv
    obtain ⟨pos, hpos, hsv⟩ := bind_ok hsv
    have hd := pure_ok hsv
    unfold SyncLayer.cellPos at hpos
    obtain ⟨h0, hpos⟩ := ensure_bind_ok hpos
    have hp := pure_ok hpos
    have hf0 : 0 ≤ s.nextReportFrame interval := by simpa using h0
    subst hp
    subst hd
    by_cases hcf : ((rget s.sync.cells (frameIdx (s.nextReportFrame interval) s.sync.cells.length)).frame
        == s.nextReportFrame interval) = true
    · simp only [hcf, if_true] at hr
      have hfr : (rget s.sync.cells (frameIdx (s.nextReportFrame interval) s.sync.cells.length)).frame
          = s.nextReportFrame interval := by simpa using hcf
      cases hr
      refine ⟨_, ?_, rfl, by rw [hfr]; exact hf0, by rw [hfr]; exact hdue, by rw [hfr]; exact Int.le_refl _⟩
      simp only [frameIdx, usizeOfFrame, hf0]
      split
      · exact Nat.mod_lt _ hn
      · exact Nat.mod_lt _ hn
    · simp only [hcf, Bool.false_eq_true, if_false] at hr
      unfold SyncLayer.latestSavedStateInRange at hr
      split at hr
      · cases hr
      · obtain ⟨hm, a, b⟩ := latestInRange_mem s.sync.cells _ _ none cell (fun b hb => by cases hb) s.sync.cells
          (fun y hy => hy) hr
        obtain ⟨i, hi, hget⟩ := List.mem_iff_getElem.mp hm
        refine ⟨i, hi, ?_, by omega, b, a⟩
        simp [rget, List.getD_eq_getElem?_getD, hi, hget]
  · rw [if_neg hdue] at h
    have := pure_ok h
    cases this

/-! ### the deterministic game's checksums reach the cells -/

theorem CkRel_execSW {G : Type} (step : G → List (Input × InputStatus) → G) (csf : G → Option Nat)
    (w : List Cell × GS G) (r : Request) (h : CkRel csf w.1 w.2) (hn : 0 < w.1.length)
    (h0 : ∀ f, r = .save f → 0 ≤ f) :
    CkRel csf (execSW step csf w r).1 (execSW step csf w r).2 ∧ (execSW step csf w r).1.length = w.1.length := by
  cases r with
  | save f =>
    have hf := h0 f rfl
    have hidx : frameIdx f w.1.length = f.toNat % w.1.length := by simp [frameIdx, usizeOfFrame, hf]
    have hlt : f.toNat % w.1.length < w.1.length := Nat.mod_lt _ hn
    simp only [execSW, execG, hidx]
    refine ⟨?_, rset_length _ _ _⟩
    intro i hi hfr
    rw [rset_length] at hi
    by_cases hie : i = f.toNat % w.1.length
    · subst hie
      rw [rget_rset_eq _ _ _ hlt]
      simp only [upd_self]
    · rw [rget_rset_ne _ _ _ _ (fun e => hie e.symm)] at hfr ⊢
      simp only [upd_ne _ _ _ _ hie]
      exact h i hi hfr
  | load f => exact ⟨h, rfl⟩
  | advance ins => exact ⟨h, rfl⟩

theorem CkRel_execSWs {G : Type} (step : G → List (Input × InputStatus) → G) (csf : G → Option Nat) :
    ∀ (rs : List Request) (w : List Cell × GS G), CkRel csf w.1 w.2 → 0 < w.1.length →
    (∀ f ∈ savedFrames rs, 0 ≤ f) →
    CkRel csf (execSWs step csf w rs).1 (execSWs step csf w rs).2 ∧ (execSWs step csf w rs).1.length = w.1.length := by
  intro rs
  induction rs with
  | nil => intro w h _ _; exact ⟨h, rfl⟩
  | cons r rest ih =>
    intro w h hn hs
    obtain ⟨h1, l1⟩ := CkRel_execSW step csf w r h hn (fun f hf => hs f (by rw [hf]; simp [savedFrames]))
    have hs' : ∀ f ∈ savedFrames rest, 0 ≤ f := by
      intro f hf
      apply hs f
      cases r with
      | save g => simp only [savedFrames]; exact List.mem_cons_of_mem _ hf
      | load g => simpa [savedFrames] using hf
      | advance ins => simpa [savedFrames] using hf
    obtain ⟨h2, l2⟩ := ih (execSW step csf w r) h1 (by rw [l1]; exact hn) hs'
    exact ⟨h2, l2.trans l1⟩

theorem gameSaves_frames {G : Type} (step : G → List (Input × InputStatus) → G) (csf : G → Option Nat) (n : Nat) :
    ∀ (rs : List Request) (x : GS G), (gameSaves step csf n x rs).map (·.1) = savedFrames rs := by
  intro rs
  induction rs with
  | nil => intro x; rfl
  | cons r rest ih =>
    intro x
    cases r with
    | save f => simp only [gameSaves, savedFrames, List.map_cons, ih]
    | load f => simp only [gameSaves, savedFrames, ih]
    | advance ins => simp only [gameSaves, savedFrames, ih]

/-- The world invariant plus the cells' checksums. -/
def CInv {G : Type} (step : G → List (Input × InputStatus) → G) (g0 : G) (csf : G → Option Nat) (w : P2P × GS G) : Prop :=
  WInv step g0 w.1 w.2 ∧ CkRel csf w.1.sync.cells w.2

/-- **What is reported is the replay.** At every state with the invariant, the cell a checksum
report would be taken from holds a confirmed frame, and its checksum is the checksum of the serial
replay of the session's timeline up to that frame. -/
theorem reported_is_replay {G : Type} (step : G → List (Input × InputStatus) → G) (g0 : G) (csf : G → Option Nat)
    (s : P2P) (x : GS G) (h : CInv step g0 csf (s, x)) (interval : Nat) (cell : Cell)
    (hc : s.checksumCellToReport interval = .ok (some cell)) :
    0 ≤ cell.frame ∧ cell.frame ≤ s.sync.lastConfirmedFrame ∧ s.nextReportFrame interval ≤ cell.frame ∧
    cell.checksum = csf (replay step g0 x.R cell.frame.toNat) := by
  obtain ⟨hw, hck⟩ := h
  obtain ⟨i, hi, hget, h0, hle, hnext⟩ := checksumCell_mem s interval cell hw.ncells hc
  refine ⟨h0, hle, hnext, ?_⟩
  obtain ⟨c, _, hg, htags, hmode⟩ := hw.chk
  have htag : c.tag i = cell.frame := by rw [htags i hi, hget]
  have hvalid : c.valid i := by
    rcases hmode with ⟨_, hq, _⟩ | ⟨_, hq⟩
    · exact (hq.ok i hi (by rw [htag]; exact h0)).1
    · exact (hq.ok i hi (by rw [htag]; exact h0)).1
  obtain ⟨_, hcell⟩ := hg.cells i hi hvalid
  have := hck i hi (by rw [hget]; exact h0)
  rw [hget] at this
  rw [this, hcell, htag]

/-! ### runs -/

theorem report_fields (s s' : P2P) (now : Nat) (h : s.checkChecksumSendInterval now = .ok s') :
    P2P.SameCore s s' ∧ s'.outgoingLocalInputs = s.outgoingLocalInputs := by
  unfold P2P.checkChecksumSendInterval at h
  cases hd : s.desync with
  | none => rw [hd] at h; have := pure_ok h; subst this; exact ⟨P2P.SameCore.refl s, rfl⟩
  | some interval =>
    rw [hd] at h
    simp only at h
    obtain ⟨oc, _, h⟩ := bind_ok h
    cases oc with
    | none => have := pure_ok h; subst this; exact ⟨P2P.SameCore.refl s, rfl⟩
    | some cell =>
      simp only at h
      cases hcs : cell.checksum with
      | none => rw [hcs] at h; have := pure_ok h; subst this; exact ⟨P2P.SameCore.refl s, rfl⟩
      | some cs =>
        rw [hcs] at h
        have := pure_ok h
        subst this
        exact ⟨⟨rfl, rfl, rfl, rfl, rfl, rfl, rfl, rfl, rfl⟩, rfl⟩

theorem waitRec_fields (s s' : P2P) (h : s.checkWaitRecommendation = .ok s') :
    P2P.SameCore s s' ∧ s'.outgoingLocalInputs = s.outgoingLocalInputs := by
  unfold P2P.checkWaitRecommendation at h
  simp only at h
  split at h
  · have := pure_ok h; subst this
    exact ⟨⟨rfl, rfl, rfl, rfl, rfl, rfl, rfl, rfl, rfl⟩, rfl⟩
  · have := pure_ok h; subst this
    exact ⟨⟨rfl, rfl, rfl, rfl, rfl, rfl, rfl, rfl, rfl⟩, rfl⟩

theorem compare_fields (s : P2P) :
    P2P.SameCore s s.compareLocalChecksumsAgainstPeers ∧
    s.compareLocalChecksumsAgainstPeers.outgoingLocalInputs = s.outgoingLocalInputs := by
  unfold P2P.compareLocalChecksumsAgainstPeers
  cases hd : s.desync with
  | none => exact ⟨P2P.SameCore.refl s, rfl⟩
  | some interval =>
    simp only
    have key : ∀ (l : List (Nat × Endpoint)) (a : P2P), P2P.SameCore s a ∧ a.outgoingLocalInputs = s.outgoingLocalInputs →
        P2P.SameCore s (l.foldl (fun s (p : Nat × Endpoint) =>
          let (evs, checked) := P2P.comparePending s.sync.lastConfirmedFrame s.localChecksumHistory p.2.peerAddr p.2.pendingChecksums
          let e' := { p.2 with pendingChecksums := p.2.pendingChecksums.filter fun q => !checked.contains q.1 }
          { s with eventQueue := s.eventQueue ++ evs,
                   remotes := s.remotes.map fun (a', x) => if a' == p.1 then (a', e') else (a', x) }) a) ∧
        (l.foldl (fun s (p : Nat × Endpoint) =>
          let (evs, checked) := P2P.comparePending s.sync.lastConfirmedFrame s.localChecksumHistory p.2.peerAddr p.2.pendingChecksums
          let e' := { p.2 with pendingChecksums := p.2.pendingChecksums.filter fun q => !checked.contains q.1 }
          { s with eventQueue := s.eventQueue ++ evs,
                   remotes := s.remotes.map fun (a', x) => if a' == p.1 then (a', e') else (a', x) }) a).outgoingLocalInputs
          = s.outgoingLocalInputs := by
      intro l
      induction l with
      | nil => intro a ha; exact ha
      | cons p rest ih =>
        intro a ha
        simp only [List.foldl_cons]
        apply ih
        obtain ⟨hc, ho⟩ := ha
        exact ⟨⟨hc.sync, hc.pred, hc.statuses, hc.sparse, hc.maxPrediction, hc.handles, hc.pending, hc.numPlayers,
          hc.disconnectFrame⟩, ho⟩
    exact key s.remotes s ⟨P2P.SameCore.refl s, rfl⟩

/-- The comparison only writes the event queue and the endpoints: any predicate insensitive to
those two fields survives it. -/
theorem compare_inv (P : P2P → Prop)
    (hP : ∀ (a : P2P) evs rem, P a → P { a with eventQueue := evs, remotes := rem }) (s : P2P) (h : P s) :
    P s.compareLocalChecksumsAgainstPeers := by
  unfold P2P.compareLocalChecksumsAgainstPeers
  cases hd : s.desync with
  | none => exact h
  | some interval =>
    simp only
    have key : ∀ (l : List (Nat × Endpoint)) (a : P2P), P a →
        P (l.foldl (fun s (p : Nat × Endpoint) =>
          let (evs, checked) := P2P.comparePending s.sync.lastConfirmedFrame s.localChecksumHistory p.2.peerAddr p.2.pendingChecksums
          let e' := { p.2 with pendingChecksums := p.2.pendingChecksums.filter fun q => !checked.contains q.1 }
          { s with eventQueue := s.eventQueue ++ evs,
                   remotes := s.remotes.map fun (a', x) => if a' == p.1 then (a', e') else (a', x) }) a) := by
      intro l
      induction l with
      | nil => intro a ha; exact ha
      | cons p rest ih =>
        intro a ha
        simp only [List.foldl_cons]
        apply ih
        exact hP a _ _ ha
    exact key s.remotes s h

theorem compare_nsf (s : P2P) :
    s.compareLocalChecksumsAgainstPeers.nextSpectatorFrame = s.nextSpectatorFrame :=
  compare_inv (fun a => a.nextSpectatorFrame = s.nextSpectatorFrame) (fun _ _ _ h => h) s rfl

/-- Everything a P2P session does to a network-only part of its state (remotes, event queue,
checksum bookkeeping) leaves the world invariant alone. -/
theorem DWInv_netOnly {G : Type} (step : G → List (Input × InputStatus) → G) (g0 : G) (s s' : P2P) (x : GS G)
    (h : DWInv step g0 (s, x)) (hc : P2P.SameCore s s') (ho : s'.outgoingLocalInputs = s.outgoingLocalInputs) :
    DWInv step g0 (s', x) := by
  obtain ⟨hw, gh, hsess, hg⟩ := h
  have hsess' : SessInv s' gh ⟨x.cur, x.R⟩ [] := SessInv_congr s s' gh _ [] hsess hc.pred hc.sync hc.statuses hc.handles
  refine ⟨⟨⟨gh, hsess'⟩, by show 0 < s'.sync.cells.length; rw [hc.sync]; exact hw.ncells, ?_⟩, gh, hsess',
    GlueInv_transfer s s' gh gh hg ho hc.handles hc.statuses (by rw [hc.sync]) rfl⟩
  obtain ⟨c, hcur, hgi, htags, hmode⟩ := hw.chk
  refine ⟨c, by show c.cur = s'.sync.currentFrame; rw [hc.sync]; exact hcur,
    by show GInv step g0 s'.sync.cells.length x c; rw [hc.sync]; exact hgi,
    by show ∀ i, i < s'.sync.cells.length → _; rw [hc.sync]; exact htags, ?_⟩
  unfold ModeInv
  show (s'.sparse = false ∧ QInv s'.sync.cells.length c ∧ (0 < s'.sync.currentFrame → _)) ∨ _
  rw [hc.sync, hc.sparse]
  exact hmode

/-- Steps of the world with a deterministic game whose saves hand over the state's checksum. -/
inductive CWStep {G : Type} (step : G → List (Input × InputStatus) → G) (csf : G → Option Nat) :
    (P2P × GS G) → (P2P × GS G) → Prop
  | remoteInput (s s' : P2P) (x : GS G) (now : Nat) (inp : PlayerInput) (player : Nat) (handles : List Nat)
      (addr : Nat) : player ∉ s.localPlayerHandles → 0 ≤ inp.frame →
      s.handleEventCore now (.input inp player) handles addr = .ok s' → CWStep step csf (s, x) (s', x)
  | setDelay (s s' : P2P) (x : GS G) (now handle delay : Nat) (r : Except GgrsError Unit) :
      handle ∈ s.localPlayerHandles → handle < s.sync.queues.length →
      s.setInputDelay now handle delay = .ok (s', r) → CWStep step csf (s, x) (s', x)
  | report (s s' : P2P) (x : GS G) (now : Nat) : s.checkChecksumSendInterval now = .ok s' → CWStep step csf (s, x) (s', x)
  | compare (s : P2P) (x : GS G) : CWStep step csf (s, x) (s.compareLocalChecksumsAgainstPeers, x)
  | waitRec (s s' : P2P) (x : GS G) : s.checkWaitRecommendation = .ok s' → CWStep step csf (s, x) (s', x)
  | tick (s s' : P2P) (x : GS G) (now : Nat) (reqs' : List Request) :
      s.advanceRollbackFrame now [] = .ok (s', reqs') →
      CWStep step csf (s, x)
        (s'.userExecute (gameSaves step csf s.sync.cells.length x reqs'), execGs step s.sync.cells.length x reqs')
  | tick0 (s s' : P2P) (x : GS G) (now : Nat) (sy : SyncLayer) (r : Request) (reqs' : List Request) :
      s.sync.currentFrame = 0 → s.sync.saveCurrentState = .ok (sy, r) →
      ({ s with sync := sy } : P2P).advanceRollbackFrame now [r] = .ok (s', reqs') →
      CWStep step csf (s, x)
        (s'.userExecute (gameSaves step csf s.sync.cells.length x reqs'), execGs step s.sync.cells.length x reqs')
  /-- the user submits a local player's input for the coming call (`add_local_input`) -/
  | localInput (s : P2P) (x : GS G) (handle : Nat) (input : Input) :
      CWStep step csf (s, x) ((s.addLocalInput handle input).1, x)

inductive CWStar {G : Type} (step : G → List (Input × InputStatus) → G) (csf : G → Option Nat) :
    (P2P × GS G) → (P2P × GS G) → Prop
  | refl (w) : CWStar step csf w w
  | step (a b c) : CWStar step csf a b → CWStep step csf b c → CWStar step csf a c

/-- World invariant (with the glue pair) and the cells' checksums. -/
def CInv2 {G : Type} (step : G → List (Input × InputStatus) → G) (g0 : G) (csf : G → Option Nat) (w : P2P × GS G) : Prop :=
  DWInv step g0 w ∧ CkRel csf w.1.sync.cells w.2

/-- The cells after the game executed a call's requests. -/
theorem CkRel_tick {G : Type} (step : G → List (Input × InputStatus) → G) (csf : G → Option Nat)
    (s' : P2P) (x : GS G) (n : Nat) (reqs' : List Request) (hn : s'.sync.cells.length = n) (hpos : 0 < n)
    (hck : CkRel csf s'.sync.cells x) (hs : ∀ f ∈ savedFrames reqs', 0 ≤ f) :
    CkRel csf (s'.userExecute (gameSaves step csf n x reqs')).sync.cells (execGs step n x reqs') := by
  obtain ⟨e1, e2⟩ := execSWs_userExecute step csf reqs' s'.sync x
  rw [hn] at e1 e2
  obtain ⟨h1, _⟩ := CkRel_execSWs step csf reqs' (s'.sync.cells, x) hck (by rw [hn]; exact hpos) hs
  unfold P2P.userExecute
  show CkRel csf (List.foldl (fun sy (p : Frame × Option Nat) => sy.userSave p.1 p.2) s'.sync (gameSaves step csf n x reqs')).cells _
  rw [← e1, ← e2]
  exact h1

theorem CInv2_step {G : Type} (step : G → List (Input × InputStatus) → G) (g0 : G) (csf : G → Option Nat)
    (a b : P2P × GS G) (h : CInv2 step g0 csf a) (hs : CWStep step csf a b) : CInv2 step g0 csf b := by
  obtain ⟨hd, hck⟩ := h
  cases hs with
  | remoteInput s s' x now inp player handles addr hnl h0 hev =>
    obtain ⟨hcl, _, _⟩ := remoteInput_cells s s' now inp player handles addr hev
    exact ⟨DWInv_step step g0 _ _ hd (DWStep.base _ _ (WStep.remoteInput s s' x now inp player handles addr hnl h0 hev)),
      by show CkRel csf s'.sync.cells x; rw [hcl]; exact hck⟩
  | setDelay s s' x now handle delay r hloc hp hset =>
    have hd' := DWInv_step step g0 _ _ hd (DWStep.setDelay s s' x now handle delay r hloc hp hset)
    obtain ⟨_, gh, hsess, hg⟩ := hd
    obtain ⟨_, _, _, _, _, hcells, _⟩ := setInputDelay_spec s s' gh ⟨x.cur, x.R⟩ [] now handle delay r hsess hg hloc hp hset
    exact ⟨hd', by show CkRel csf s'.sync.cells x; rw [hcells]; exact hck⟩
  | report s s' x now hrep =>
    obtain ⟨hc, ho⟩ := report_fields s s' now hrep
    exact ⟨DWInv_netOnly step g0 s s' x hd hc ho, by show CkRel csf s'.sync.cells x; rw [hc.sync]; exact hck⟩
  | compare s x =>
    obtain ⟨hc, ho⟩ := compare_fields s
    exact ⟨DWInv_netOnly step g0 s _ x hd hc ho,
      by show CkRel csf s.compareLocalChecksumsAgainstPeers.sync.cells x; rw [hc.sync]; exact hck⟩
  | waitRec s s' x hw =>
    obtain ⟨hc, ho⟩ := waitRec_fields s s' hw
    exact ⟨DWInv_netOnly step g0 s s' x hd hc ho, by show CkRel csf s'.sync.cells x; rw [hc.sync]; exact hck⟩
  | tick s s' x now reqs' hadv =>
    have hfr := gameSaves_frames step csf s.sync.cells.length reqs' x
    have hws : WStep step (s, x) _ := WStep.tick s s' x now reqs' _ hadv hfr
    refine ⟨DWInv_step step g0 _ _ hd (DWStep.base _ _ hws), ?_⟩
    obtain ⟨_, ⟨c, c', _, hchk, _⟩, _⟩ := WInv_tick step g0 s s' x now reqs' _ hd.1 hadv hfr
    have hcl : s'.sync.cells = s.sync.cells := by
      cases hsp : s.sparse with
      | false => obtain ⟨_, _, _, _, _, _, hc, _⟩ := tick_shape_ns s s' now [] reqs' hsp hadv; exact hc
      | true => obtain ⟨_, _, _, _, _, _, _, _, hc, _⟩ := tick_shape_sp s s' now [] reqs' hsp hadv; exact hc
    exact CkRel_tick step csf s' x _ reqs' (by rw [hcl]) hd.1.ncells (by rw [hcl]; exact hck)
      (chk_saved_nonneg _ c c' reqs' hchk)
  | localInput s x handle input =>
    refine ⟨DWInv_step step g0 _ _ hd (DWStep.base _ _ (WStep.localInput s x handle input)), ?_⟩
    obtain ⟨l, hl⟩ := P2P.addLocalInput_pending s handle input
    show CkRel csf (s.addLocalInput handle input).1.sync.cells x
    rw [hl]; exact hck
  | tick0 s s' x now sy r reqs' hf0 hsv hadv =>
    have hfr := gameSaves_frames step csf s.sync.cells.length reqs' x
    have hws : WStep step (s, x) _ := WStep.tick0 s s' x now sy r reqs' _ hf0 hsv hadv hfr
    refine ⟨DWInv_step step g0 _ _ hd (DWStep.base _ _ hws), ?_⟩
    obtain ⟨_, ⟨c, c', _, hchk, _⟩, _⟩ := WInv_tick0 step g0 s s' x now sy r reqs' _ hd.1 hf0 hsv hadv hfr
    obtain ⟨_, _, _, _, _, hcl0, _⟩ := save_fields _ _ _ hsv
    have hcl : s'.sync.cells = s.sync.cells := by
      have hsp0 : ({ s with sync := sy } : P2P).sparse = s.sparse := rfl
      cases hsp : s.sparse with
      | false =>
        obtain ⟨_, _, _, _, _, _, hc, _⟩ := tick_shape_ns ({ s with sync := sy } : P2P) s' now [r] reqs' (by rw [hsp0]; exact hsp) hadv
        rw [hc]; exact hcl0
      | true =>
        obtain ⟨_, _, _, _, _, _, _, _, hc, _⟩ := tick_shape_sp ({ s with sync := sy } : P2P) s' now [r] reqs' (by rw [hsp0]; exact hsp) hadv
        rw [hc]; exact hcl0
    exact CkRel_tick step csf s' x _ reqs' (by rw [hcl]) hd.1.ncells (by rw [hcl]; exact hck)
      (chk_saved_nonneg _ c c' reqs' hchk)

theorem CInv2_run {G : Type} (step : G → List (Input × InputStatus) → G) (g0 : G) (csf : G → Option Nat)
    (a b : P2P × GS G) (h : CInv2 step g0 csf a) (hr : CWStar step csf a b) : CInv2 step g0 csf b := by
  induction hr with
  | refl => exact h
  | step b c _ hs ih => exact CInv2_step step g0 csf b c ih hs

end Ggrs
