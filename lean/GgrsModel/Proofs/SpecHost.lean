/-
L-spechost: what the host hands to its spectators. For every call of
`send_confirmed_inputs_to_spectators` (rollback mode or lockstep, nobody disconnected): the frames
offered are the next spectator frame, the one after it, ... up to the confirmed frame, in order, one
by one, and each is the row of every player's real input of that frame.
-/
import GgrsModel.Proofs.Lockstep

namespace Ggrs
open InputQueue

/-- The row of frame `f` as `send_input` receives it: every player's real input of frame `f`. -/
def rowMap (gh : Ghost) (N : Nat) (f : Nat) : List (Nat × PlayerInput) :=
  (List.range N).map fun h => (h, ⟨(f : Int), (gh.specs h).vals.getD f 0⟩)

/-- The frames offered to the spectators by one call, in order. -/
inductive Offers (gh : Ghost) (N : Nat) (now : Nat) : P2P → P2P → Prop
  | done (s : P2P) : Offers gh N now s s
  | step (s s1 s' : P2P) (f : Nat) : s.nextSpectatorFrame = (f : Int) →
      s.offerToSpectators now (rowMap gh N f) = .ok s1 → Offers gh N now s1 s' → Offers gh N now s s'

theorem zipIdx_map_swap (l : List PlayerInput) :
    (l.zipIdx.map fun (x : PlayerInput × Nat) => (x.2, x.1)) = (List.range l.length).map fun h => (h, rget l h) := by
  apply List.ext_getElem (by simp)
  intro i h1 h2
  simp only [List.getElem_map, List.getElem_zipIdx, List.getElem_range, Nat.zero_add]
  have hi : i < l.length := by simpa using h1
  rw [rget_eq_getElem _ _ hi]

theorem sendConfirmedLoop_rows (gh : Ghost) (t0 : TLState) (reqs : List Request) (now : Nat) (confirmed : Frame) :
    ∀ (fuel : Nat) (s s' : P2P), SessInv s gh t0 reqs → 0 ≤ s.nextSpectatorFrame →
    (∀ p, p < s.sync.queues.length → confirmed ≤ (rget s.localConnectStatus p).lastFrame) →
    P2P.sendConfirmedInputsToSpectators.loop now confirmed fuel s = .ok s' →
    Offers gh s.sync.queues.length now s s' ∧ s.nextSpectatorFrame ≤ s'.nextSpectatorFrame ∧
    s'.nextSpectatorFrame ≤ max s.nextSpectatorFrame (confirmed + 1) := by
  intro fuel
  induction fuel with
  | zero =>
    intro s s' _ _ _ h
    simp only [P2P.sendConfirmedInputsToSpectators.loop] at h
    cases h
    exact ⟨Offers.done s, Int.le_refl _, Int.le_max_left _ _⟩
  | succ k ih =>
    intro s s' hs h0 hle h
    simp only [P2P.sendConfirmedInputsToSpectators.loop] at h
    by_cases hc : s.nextSpectatorFrame ≤ confirmed
    · rw [if_pos hc] at h
      obtain ⟨inputs, hci, h⟩ := bind_ok h
      obtain ⟨_, h⟩ := ensure_bind_ok h
      obtain ⟨_, h⟩ := ensure_bind_ok h
      obtain ⟨s1, hoff, h⟩ := bind_ok h
      obtain ⟨f, hf⟩ : ∃ f : Nat, s.nextSpectatorFrame = (f : Int) := ⟨s.nextSpectatorFrame.toNat, by omega⟩
      have hN := hs.tinv.sync.nq
      have hconn := hs.tinv.sync.conn
      -- the confirmed inputs of frame f
      unfold SyncLayer.confirmedInputs at hci
      obtain ⟨l, hout, hlen, hpt⟩ := confirmedInputsLoop_ok _ _ _ 0 [] inputs hconn hci
      simp only [List.reverse_nil, List.nil_append] at hout
      subst hout
      have hval : ∀ p, p < s.sync.queues.length → rget inputs p = ⟨(f : Int), (gh.specs p).vals.getD f 0⟩ := by
        intro p hp
        obtain ⟨_, hk⟩ := hpt p (by rw [hN]; exact hp)
        rw [Nat.zero_add, hf] at hk
        have hlast := hs.status p hp
        rw [lastAdded_of_QI (hs.tinv.sync.all p hp)] at hlast
        have := hle p hp
        exact confirmedInput_ok _ _ (hs.tinv.sync.all p hp).ring f (by omega) _ hk
      have hmap : (inputs.zipIdx.map fun (x : PlayerInput × Nat) => (x.2, x.1)) = rowMap gh s.sync.queues.length f := by
        rw [zipIdx_map_swap, hlen, hN]
        unfold rowMap
        apply List.map_congr_left
        intro p hp
        rw [hval p (List.mem_range.mp hp)]
      have hoff' : s.offerToSpectators now (rowMap gh s.sync.queues.length f) = .ok s1 := by
        rw [← hmap]; exact hoff
      have hc1 := P2P.offerToSpectators_sameCore _ _ _ _ hoff
      have hn1 : s1.nextSpectatorFrame = s.nextSpectatorFrame + 1 := by
        unfold P2P.offerToSpectators at hoff
        obtain ⟨r, _, hoff⟩ := bind_ok hoff
        have := pure_ok hoff
        subst this
        rfl
      have hs1 : SessInv s1 gh t0 reqs := SessInv_congr s s1 gh t0 reqs hs hc1.pred hc1.sync hc1.statuses hc1.handles
      obtain ⟨ho, hl1, hl2⟩ := ih s1 s' hs1 (by rw [hn1]; omega)
        (fun p hp => by rw [hc1.statuses]; rw [hc1.sync] at hp; exact hle p hp) h
      rw [hc1.sync] at ho
      refine ⟨Offers.step s s1 s' f hf hoff' ho, by omega, ?_⟩
      rw [hn1] at hl2
      have : max (s.nextSpectatorFrame + 1) (confirmed + 1) = confirmed + 1 := by omega
      rw [this] at hl2
      omega
    · rw [if_neg hc] at h
      cases h
      exact ⟨Offers.done s, Int.le_refl _, Int.le_max_left _ _⟩

/-- **L-spechost.** -/
theorem sendConfirmed_rows (s s' : P2P) (gh : Ghost) (t0 : TLState) (reqs : List Request) (now : Nat)
    (confirmed : Frame) (hs : SessInv s gh t0 reqs) (h0 : 0 ≤ s.nextSpectatorFrame)
    (hle : ∀ p, p < s.sync.queues.length → confirmed ≤ (rget s.localConnectStatus p).lastFrame)
    (h : s.sendConfirmedInputsToSpectators now confirmed = .ok s') :
    Offers gh s.sync.queues.length now s s' ∧ s.nextSpectatorFrame ≤ s'.nextSpectatorFrame ∧
    s'.nextSpectatorFrame ≤ max s.nextSpectatorFrame (confirmed + 1) := by
  unfold P2P.sendConfirmedInputsToSpectators at h
  split at h
  · have := pure_ok h
    subst this
    exact ⟨Offers.done s, Int.le_refl _, Int.le_max_left _ _⟩
  · exact sendConfirmedLoop_rows gh t0 reqs now confirmed _ s s' hs h0 hle h

/-! ### `next_spectator_frame` is moved by `offer_to_spectators` only -/

namespace P2P

theorem queueOutgoing_nsf (s s' : P2P) (h : Nat) (inp : PlayerInput)
    (hq : s.queueOutgoingLocalInput h inp = .ok s') : s'.nextSpectatorFrame = s.nextSpectatorFrame := by
  unfold queueOutgoingLocalInput at hq
  obtain ⟨_, hq⟩ := ensure_bind_ok hq
  split at hq
  · have := pure_ok hq; subst this; rfl
  · have := pure_ok hq; subst this; rfl

theorem foldlM_nsf {α} (f : P2P → α → M P2P)
    (hf : ∀ s a s', f s a = .ok s' → s'.nextSpectatorFrame = s.nextSpectatorFrame) :
    ∀ (l : List α) (s s' : P2P), l.foldlM f s = .ok s' → s'.nextSpectatorFrame = s.nextSpectatorFrame := by
  intro l
  induction l with
  | nil => intro s s' h; simp only [List.foldlM_nil] at h; have := pure_ok h; subst this; rfl
  | cons a rest ih =>
    intro s s' h
    simp only [List.foldlM_cons] at h
    obtain ⟨s1, h1, h⟩ := bind_ok h
    exact (ih s1 s' h).trans (hf s a s1 h1)

theorem queueInitialBlanks_nsf (s s' : P2P) (h : Nat) (actual : Frame)
    (hq : s.queueInitialBlanks h actual = .ok s') : s'.nextSpectatorFrame = s.nextSpectatorFrame := by
  unfold queueInitialBlanks at hq
  split at hq
  · exact foldlM_nsf _ (fun s a s' hh => queueOutgoing_nsf s s' h _ hh) _ s s' hq
  · have := pure_ok hq; subst this; rfl

theorem sendReadyLoop_nsf (now : Nat) (lh : List Nat) : ∀ (fuel : Nat) (s s' : P2P),
    sendReadyOutgoingInputsToRemotes.loop now lh fuel s = .ok s' → s'.nextSpectatorFrame = s.nextSpectatorFrame := by
  intro fuel
  induction fuel with
  | zero => intro s s' h; simp only [sendReadyOutgoingInputsToRemotes.loop] at h; cases h; rfl
  | succ k ih =>
    intro s s' h
    simp only [sendReadyOutgoingInputsToRemotes.loop] at h
    split at h
    · cases h; rfl
    · split at h
      · obtain ⟨inputs, _, h⟩ := bind_ok h
        obtain ⟨r, hsend, h⟩ := bind_ok h
        refine (ih _ s' h).trans ?_
        unfold sendFrameToRemotes at hsend
        simp only at hsend
        obtain ⟨r2, _, hsend⟩ := bind_ok hsend
        have := pure_ok hsend
        subst this
        rfl
      · obtain ⟨_, hi, _⟩ := bind_ok h
        cases hi

theorem sendReady_nsf (s s' : P2P) (now : Nat) (h : s.sendReadyOutgoingInputsToRemotes now = .ok s') :
    s'.nextSpectatorFrame = s.nextSpectatorFrame := by
  unfold sendReadyOutgoingInputsToRemotes at h
  split at h
  · have := pure_ok h; subst this; rfl
  · simp only at h
    split at h
    · have := pure_ok h; subst this; rfl
    · exact sendReadyLoop_nsf now _ _ s s' h

theorem registerOne_nsf (s s' : P2P) (hd : Nat) (h : s.registerOne hd = .ok s') :
    s'.nextSpectatorFrame = s.nextSpectatorFrame := by
  unfold registerOne at h
  obtain ⟨pi, _, h⟩ := bind_ok h
  obtain ⟨r, _, h⟩ := bind_ok h
  obtain ⟨sy, actual⟩ := r
  simp only at h
  split at h
  · obtain ⟨s2, hbl, h⟩ := bind_ok h
    have h1 := queueInitialBlanks_nsf _ _ _ _ hbl
    have h2 := queueOutgoing_nsf _ _ _ _ h
    rw [h2]
    show s2.nextSpectatorFrame = _
    rw [h1]
  · have := pure_ok h
    subst this
    rfl

theorem registerLocalInputs_nsf (s s' : P2P) (now : Nat) (h : s.registerLocalInputs now = .ok s') :
    s'.nextSpectatorFrame = s.nextSpectatorFrame := by
  unfold registerLocalInputs at h
  obtain ⟨s1, hfold, hsend⟩ := bind_ok h
  rw [sendReady_nsf _ _ _ hsend]
  exact foldlM_nsf _ (fun a b c hh => registerOne_nsf a c b hh) _ s s1 hfold

theorem adjustGamestate_nsf (s s' : P2P) (fi mc : Frame) (reqs reqs' : List Request)
    (h : s.adjustGamestate fi mc reqs = .ok (s', reqs')) : s'.nextSpectatorFrame = s.nextSpectatorFrame := by
  unfold adjustGamestate at h
  simp only at h
  obtain ⟨_, h⟩ := ensure_bind_ok h
  obtain ⟨p1, _, h⟩ := bind_ok h
  obtain ⟨_, h⟩ := ensure_bind_ok h
  obtain ⟨p2, _, h⟩ := bind_ok h
  obtain ⟨_, h⟩ := ensure_bind_ok h
  have := pure_ok h
  simp only [Prod.mk.injEq] at this
  rw [← this.1]

theorem handleRollbackAndSave_nsf (s s' : P2P) (confirmed : Frame) (reqs reqs' : List Request)
    (h : s.handleRollbackAndSave confirmed reqs = .ok (s', reqs')) : s'.nextSpectatorFrame = s.nextSpectatorFrame := by
  unfold handleRollbackAndSave at h
  obtain ⟨r1, h1, h⟩ := bind_ok h
  obtain ⟨s1, reqs1⟩ := r1
  simp only at h
  have e1 : s1.nextSpectatorFrame = s.nextSpectatorFrame := by
    unfold rollbackIfNeeded at h1
    simp only at h1
    split at h1
    · obtain ⟨r, ha, h1⟩ := bind_ok h1
      obtain ⟨sa, ra⟩ := r
      simp only at h1
      have := pure_ok h1
      simp only [Prod.mk.injEq] at this
      rw [← this.1]
      show sa.nextSpectatorFrame = _
      exact adjustGamestate_nsf s sa _ _ _ _ ha
    · have := pure_ok h1
      simp only [Prod.mk.injEq] at this
      rw [← this.1]
  rw [← e1]
  unfold saveAfterRollback at h
  split at h
  · unfold checkLastSavedState at h
    split at h
    · obtain ⟨r, hs, h⟩ := bind_ok h
      obtain ⟨sb, rb⟩ := r
      simp only at h
      obtain ⟨_, h⟩ := ensure_bind_ok h
      have := pure_ok h
      simp only [Prod.mk.injEq] at this
      rw [← this.1]
      unfold saveOrRollbackToSaved at hs
      split at hs
      · obtain ⟨r, _, hs⟩ := bind_ok hs
        have := pure_ok hs
        simp only [Prod.mk.injEq] at this
        rw [← this.1]
      · exact adjustGamestate_nsf _ _ _ _ _ _ hs
    · have := pure_ok h
      simp only [Prod.mk.injEq] at this
      rw [← this.1]
  · obtain ⟨r, _, h⟩ := bind_ok h
    have := pure_ok h
    simp only [Prod.mk.injEq] at this
    rw [← this.1]

theorem rollbackGate_nsf (s s' : P2P) (reqs reqs' : List Request) (h : s.rollbackGate reqs = .ok (s', reqs')) :
    s'.nextSpectatorFrame = s.nextSpectatorFrame := by
  unfold rollbackGate at h
  split at h
  · obtain ⟨r, _, h⟩ := bind_ok h
    have := pure_ok h
    simp only [Prod.mk.injEq] at this
    rw [← this.1]
  · have := pure_ok h
    simp only [Prod.mk.injEq] at this
    rw [← this.1]

theorem remoteInput_nsf (s s' : P2P) (now : Nat) (inp : PlayerInput) (player : Nat) (handles : List Nat) (addr : Nat)
    (hev : s.handleEventCore now (.input inp player) handles addr = .ok s') :
    s'.nextSpectatorFrame = s.nextSpectatorFrame := by
  unfold handleEventCore at hev
  simp only at hev
  obtain ⟨_, hev⟩ := ensure_bind_ok hev
  split at hev
  · obtain ⟨_, hev⟩ := ensure_bind_ok hev
    obtain ⟨sy, _, hev⟩ := bind_ok hev
    have := pure_ok hev
    subst this
    rfl
  · have := pure_ok hev
    subst this
    rfl

end P2P

/-- **One rollback-mode call, the spectators' side.** Between the rollback phase and the
bookkeeping the call offers its spectators the frames `next_spectator_frame ..= confirmed_frame`,
each the row of real inputs; nothing else in the call moves `next_spectator_frame`. -/
theorem rollbackTick_offers (s s' : P2P) (gh : Ghost) (t0 : TLState) (reqs reqs' : List Request) (now : Nat)
    (h : SessInv s gh t0 reqs) (h0 : 0 ≤ s.nextSpectatorFrame)
    (hadv : s.advanceRollbackFrame now reqs = .ok (s', reqs')) :
    ∃ (confirmed : Frame) (s1 s2 : P2P) (gh1 : Ghost), s.confirmedFrame = .ok confirmed ∧ gh1.specs = gh.specs ∧
      s1.nextSpectatorFrame = s.nextSpectatorFrame ∧ s1.sync.queues.length = s.sync.queues.length ∧
      Offers gh1 s.sync.queues.length now s1 s2 ∧
      s'.nextSpectatorFrame = s2.nextSpectatorFrame ∧
      s.nextSpectatorFrame ≤ s'.nextSpectatorFrame ∧
      s'.nextSpectatorFrame ≤ max s.nextSpectatorFrame (confirmed + 1) := by
  unfold P2P.advanceRollbackFrame at hadv
  obtain ⟨confirmed, hconf, hadv⟩ := bind_ok hadv
  obtain ⟨r1, hrs, hadv⟩ := bind_ok hadv
  obtain ⟨s1, reqs1⟩ := r1
  simp only at hadv
  obtain ⟨s2, hspec, hadv⟩ := bind_ok hadv
  obtain ⟨sy3, hset, hadv⟩ := bind_ok hadv
  obtain ⟨s4, hreg, hgate⟩ := bind_ok hadv
  obtain ⟨gh1, hsettled, _⟩ := handleRollbackAndSave_spec s s1 confirmed t0 reqs reqs1 gh h.tinv h.asked hrs
  have hinv1 := SessInv_of_settled s s1 gh gh1 t0 reqs reqs1 h hsettled
  have hn1 := P2P.handleRollbackAndSave_nsf _ _ _ _ _ hrs
  have hle : ∀ p, p < s1.sync.queues.length → confirmed ≤ (rget s1.localConnectStatus p).lastFrame := by
    intro p hp
    rw [hsettled.statuses]
    apply confirmedFrame_le s confirmed hconf h.tinv.sync.conn
    rw [h.tinv.sync.nq, ← hsettled.nq]; exact hp
  obtain ⟨hoff, hl1, hl2⟩ := sendConfirmed_rows s1 s2 gh1 t0 reqs1 now confirmed hinv1 (by rw [hn1]; exact h0) hle hspec
  have hn4 : s4.nextSpectatorFrame = s2.nextSpectatorFrame := (P2P.registerLocalInputs_nsf _ _ _ hreg).trans rfl
  have hn' : s'.nextSpectatorFrame = s4.nextSpectatorFrame := P2P.rollbackGate_nsf _ _ _ _ hgate
  rw [hsettled.nq] at hoff
  refine ⟨confirmed, s1, s2, gh1, hconf, hsettled.specs, hn1, hsettled.nq, hoff, hn'.trans hn4, ?_, ?_⟩
  · rw [hn', hn4, ← hn1]; exact hl1
  · rw [hn', hn4, ← hn1]; exact hl2

/-- `next_spectator_frame` never goes negative along a run. -/
theorem nsf_run (x y : P2P × TLState) (h : ∃ gh, SessInv x.1 gh x.2 []) (h0 : 0 ≤ x.1.nextSpectatorFrame)
    (hr : SStar x y) : 0 ≤ y.1.nextSpectatorFrame := by
  induction hr with
  | refl => exact h0
  | step y z hxy hs ih =>
    obtain ⟨gh, hy⟩ := SessInv_run x y h hxy
    cases hs with
    | remoteInput s s' t now inp player handles addr hnl hf hev =>
      show 0 ≤ s'.nextSpectatorFrame
      rw [P2P.remoteInput_nsf s s' now inp player handles addr hev]; exact ih
    | tick s s' t now reqs' hadv =>
      obtain ⟨_, _, _, _, _, _, _, _, _, hle, _⟩ := rollbackTick_offers s s' gh t [] reqs' now hy ih hadv
      show 0 ≤ s'.nextSpectatorFrame
      have : 0 ≤ s.nextSpectatorFrame := ih
      omega
    | localInput s t handle input =>
      obtain ⟨l, hl⟩ := P2P.addLocalInput_pending s handle input
      show 0 ≤ (s.addLocalInput handle input).1.nextSpectatorFrame
      rw [hl]; exact ih
    | saves s t sv => exact ih

end Ggrs
