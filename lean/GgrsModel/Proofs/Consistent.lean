/-
C02, all schedules (rollback mode without sparse saving): the request list of every
`advance_frame` call passes the frame-consistency check `ChkList` from the quiescent check state,
and leaves a quiescent check state.
-/
import GgrsModel.Proofs.Replay
import GgrsModel.Proofs.Shape

namespace Ggrs

/-- Quiescent check state: every cell that has been written holds a state of the current timeline,
its tag is at most the current frame and it sits in the cell its tag maps to. -/
structure QInv (n : Nat) (c : CS) : Prop where
  cur : 0 ≤ c.cur
  ok : ∀ i, i < n → 0 ≤ c.tag i → c.valid i ∧ c.tag i ≤ c.cur ∧ (c.tag i).toNat % n = i

/-- Inside the re-simulation, at frame `c'` with loop counter `i`, on the way back to `cmax`. -/
structure LInvC (n : Nat) (i : Nat) (c' cmax : Int) (c : CS) : Prop where
  cur : c.cur = c'
  nonneg : 0 ≤ c'
  ok : ∀ idx, idx < n → 0 ≤ c.tag idx → c.tag idx ≤ cmax ∧ (c.tag idx).toNat % n = idx ∧
    (c.tag idx < c' → c.valid idx) ∧ (i = 0 → c.valid idx)

theorem chk_resim (n : Nat) (hn : 0 < n) : ∀ (k i : Nat) (c' cmax : Int) (c : CS) (L : List Request),
    ResimShape false i c' k L → LInvC n i c' cmax c → c' + (k : Int) = cmax →
    ∃ c2, ChkList n c L c2 ∧ LInvC n (i + k) cmax cmax c2 := by
  intro k
  induction k with
  | zero =>
    intro i c' cmax c L hsh hinv hk
    simp only [ResimShape] at hsh
    subst hsh
    have : c' = cmax := by omega
    subst this
    exact ⟨c, ChkList.nil c, hinv⟩
  | succ k ih =>
    intro i c' cmax c L hsh hinv hk
    simp only [ResimShape] at hsh
    obtain ⟨mid, ins, L', hL, _, hns, hsh'⟩ := hsh
    obtain ⟨hi0, hipos⟩ := hns trivial
    have hc0 := hinv.nonneg
    by_cases hi : i = 0
    · -- the frame just loaded: no save
      have hmid := hi0 hi
      subst hmid
      let c1 : CS := { c with cur := c.cur + 1, valid := fun idx => c.valid idx ∧ c.tag idx ≤ c.cur }
      have hstep : Chk n c (.advance ins) c1 := Chk.advance c ins (by rw [hinv.cur]; exact hc0)
      have hinv1 : LInvC n (i + 1) (c' + 1) cmax c1 := by
        refine ⟨by show c.cur + 1 = c' + 1; rw [hinv.cur], by omega, ?_⟩
        intro idx hidx htag
        obtain ⟨a, b, _, d⟩ := hinv.ok idx hidx htag
        refine ⟨a, b, fun hlt => ?_, fun h0 => by omega⟩
        have hlt' : c.tag idx < c' + 1 := hlt
        exact ⟨d hi, by show c.tag idx ≤ c.cur; rw [hinv.cur]; omega⟩
      obtain ⟨c2, hl2, hinv2⟩ := ih (i + 1) (c' + 1) cmax c1 L' hsh' hinv1 (by push_cast at hk; omega)
      have e : i + 1 + k = i + (k + 1) := by omega
      rw [e] at hinv2
      refine ⟨c2, ?_, hinv2⟩
      rw [hL]
      simp only [List.nil_append, List.singleton_append]
      exact ChkList.cons c c1 c2 _ _ hstep hl2
    · -- every other frame: save, then advance
      have hmid := hipos (by omega)
      subst hmid
      let c0 : CS := { c with tag := upd c.tag (c'.toNat % n) c', valid := fun idx => idx = c'.toNat % n ∨ c.valid idx }
      have hs0 : Chk n c (.save c') c0 := Chk.save c c' hinv.cur.symm hc0
      let c1 : CS := { c0 with cur := c0.cur + 1, valid := fun idx => c0.valid idx ∧ c0.tag idx ≤ c0.cur }
      have hs1 : Chk n c0 (.advance ins) c1 := Chk.advance c0 ins (by show 0 ≤ c.cur; rw [hinv.cur]; exact hc0)
      have hinv1 : LInvC n (i + 1) (c' + 1) cmax c1 := by
        refine ⟨by show c.cur + 1 = c' + 1; rw [hinv.cur], by omega, ?_⟩
        intro idx hidx htag
        have htag' : 0 ≤ upd c.tag (c'.toNat % n) c' idx := htag
        by_cases hie : idx = c'.toNat % n
        · refine ⟨?_, ?_, fun _ => ⟨Or.inl hie, ?_⟩, fun h0 => by omega⟩
          · show upd c.tag (c'.toNat % n) c' idx ≤ cmax
            rw [hie, upd_self]; push_cast at hk; omega
          · show (upd c.tag (c'.toNat % n) c' idx).toNat % n = idx
            rw [hie, upd_self]
          · show upd c.tag (c'.toNat % n) c' idx ≤ c.cur
            rw [hie, upd_self, hinv.cur]; exact Int.le_refl _
        · rw [upd_ne _ _ _ _ hie] at htag'
          obtain ⟨a, b, d, _⟩ := hinv.ok idx hidx htag'
          refine ⟨by show upd c.tag (c'.toNat % n) c' idx ≤ cmax; rw [upd_ne _ _ _ _ hie]; exact a,
            by show (upd c.tag (c'.toNat % n) c' idx).toNat % n = idx; rw [upd_ne _ _ _ _ hie]; exact b,
            fun hlt => ?_, fun h0 => by omega⟩
          have hlt' : c.tag idx < c' + 1 := by
            have : upd c.tag (c'.toNat % n) c' idx < c' + 1 := hlt
            rw [upd_ne _ _ _ _ hie] at this; exact this
          have hne : c.tag idx ≠ c' := by
            intro he
            apply hie
            rw [← b, he]
          refine ⟨Or.inr (d (by omega)), ?_⟩
          show upd c.tag (c'.toNat % n) c' idx ≤ c.cur
          rw [upd_ne _ _ _ _ hie, hinv.cur]; omega
      obtain ⟨c2, hl2, hinv2⟩ := ih (i + 1) (c' + 1) cmax c1 L' hsh' hinv1 (by push_cast at hk; omega)
      have e : i + 1 + k = i + (k + 1) := by omega
      rw [e] at hinv2
      refine ⟨c2, ?_, hinv2⟩
      rw [hL]
      simp only [List.cons_append, List.nil_append]
      exact ChkList.cons c c0 c2 _ _ hs0 (ChkList.cons c0 c1 c2 _ _ hs1 hl2)

end Ggrs

namespace Ggrs

/-- The tags after the saves of a request list. -/
def tagsAfter (n : Nat) (tag : Nat → Int) : List Request → Nat → Int
  | [] => tag
  | .save f :: rs => tagsAfter n (upd tag (f.toNat % n) f) rs
  | _ :: rs => tagsAfter n tag rs

theorem chk_tags (n : Nat) (c c' : CS) (rs : List Request) (h : ChkList n c rs c') :
    c'.tag = tagsAfter n c.tag rs := by
  induction h with
  | nil c => rfl
  | cons c c1 c2 r rs hr _ ih =>
    cases hr with
    | save f _ _ => simpa [tagsAfter] using ih
    | load f _ _ _ _ => simpa [tagsAfter] using ih
    | advance ins _ => simpa [tagsAfter] using ih

theorem QInv_save (n : Nat) (c : CS) (h : QInv n c) :
    QInv n { c with tag := upd c.tag (c.cur.toNat % n) c.cur, valid := fun i => i = c.cur.toNat % n ∨ c.valid i } := by
  refine ⟨h.cur, ?_⟩
  intro i hi htag
  have htag' : 0 ≤ upd c.tag (c.cur.toNat % n) c.cur i := htag
  by_cases hie : i = c.cur.toNat % n
  · refine ⟨Or.inl hie, ?_, ?_⟩
    · show upd c.tag (c.cur.toNat % n) c.cur i ≤ c.cur; rw [hie, upd_self]; exact Int.le_refl _
    · show (upd c.tag (c.cur.toNat % n) c.cur i).toNat % n = i; rw [hie, upd_self]
  · rw [upd_ne _ _ _ _ hie] at htag'
    obtain ⟨a, b, d⟩ := h.ok i hi htag'
    exact ⟨Or.inr a, by show upd c.tag (c.cur.toNat % n) c.cur i ≤ c.cur; rw [upd_ne _ _ _ _ hie]; exact b,
      by show (upd c.tag (c.cur.toNat % n) c.cur i).toNat % n = i; rw [upd_ne _ _ _ _ hie]; exact d⟩

theorem QInv_advance (n : Nat) (c : CS) (h : QInv n c) :
    QInv n { c with cur := c.cur + 1, valid := fun i => c.valid i ∧ c.tag i ≤ c.cur } := by
  refine ⟨by show 0 ≤ c.cur + 1; have := h.cur; omega, ?_⟩
  intro i hi htag
  obtain ⟨a, b, d⟩ := h.ok i hi htag
  exact ⟨⟨a, b⟩, by show c.tag i ≤ c.cur + 1; omega, d⟩

/-- The rollback-and-save part of a request list without sparse saving, as a pure statement about
lists: an optional rollback block (a load of an earlier frame whose cell is tagged with it, then
the re-simulation back to `cur`) followed by the save of `cur`, from a quiescent check state. -/
theorem shape_consistent_ns (n : Nat) (hn : 0 < n) (c : CS) (cur : Int) (h0 : 0 ≤ cur) (hq : QInv n c)
    (hcur : c.cur = cur) (RB : List Request)
    (hrb : RB = [] ∨ ∃ (r : Frame) (L : List Request), RB = [.load r] ++ L ∧ 0 ≤ r ∧ r < cur ∧
      c.tag (r.toNat % n) = r ∧ ResimShape false 0 r (cur - r).toNat L) :
    ∃ c2, ChkList n c (RB ++ [.save cur]) c2 ∧ QInv n c2 ∧ c2.cur = cur := by
  have hRB : ∃ c1, ChkList n c RB c1 ∧ c1.cur = cur ∧
      QInv n { c1 with tag := upd c1.tag (c1.cur.toNat % n) c1.cur, valid := fun i => i = c1.cur.toNat % n ∨ c1.valid i } := by
    rcases hrb with he | ⟨r, L, hRBL, hr0, hlt, htr, hsh⟩
    · subst he
      exact ⟨c, ChkList.nil c, hcur, QInv_save n c hq⟩
    · have hidx : r.toNat % n < n := Nat.mod_lt _ hn
      have hval : c.valid (r.toNat % n) := (hq.ok _ hidx (by rw [htr]; exact hr0)).1
      let c0 : CS := { c with cur := r }
      have hload : Chk n c (.load r) c0 := Chk.load c r hr0 (by rw [hcur]; exact hlt) htr hval
      have hinv0 : LInvC n 0 r cur c0 := by
        refine ⟨rfl, hr0, ?_⟩
        intro idx hidx htg
        obtain ⟨a, b, d⟩ := hq.ok idx hidx htg
        exact ⟨by rw [← hcur]; exact b, d, fun _ => a, fun _ => a⟩
      obtain ⟨c1, hl1, hinv1⟩ := chk_resim n hn _ 0 r cur c0 L hsh hinv0 (by omega)
      refine ⟨c1, by rw [hRBL]; exact ChkList.cons c c0 c1 _ _ hload hl1, hinv1.cur, ⟨by rw [hinv1.cur]; exact h0, ?_⟩⟩
      intro i hi htg
      have htg' : 0 ≤ upd c1.tag (c1.cur.toNat % n) c1.cur i := htg
      by_cases hie : i = c1.cur.toNat % n
      · refine ⟨Or.inl hie, ?_, ?_⟩
        · show upd c1.tag (c1.cur.toNat % n) c1.cur i ≤ c1.cur; rw [hie, upd_self]; exact Int.le_refl _
        · show (upd c1.tag (c1.cur.toNat % n) c1.cur i).toNat % n = i; rw [hie, upd_self]
      · rw [upd_ne _ _ _ _ hie] at htg'
        obtain ⟨a, b, d, _⟩ := hinv1.ok i hi htg'
        have hne : c1.tag i ≠ c1.cur := by
          intro he; apply hie; rw [← b, he]
        refine ⟨Or.inr (d (by rw [hinv1.cur] at hne; omega)), ?_, ?_⟩
        · show upd c1.tag (c1.cur.toNat % n) c1.cur i ≤ c1.cur; rw [upd_ne _ _ _ _ hie, hinv1.cur]; exact a
        · show (upd c1.tag (c1.cur.toNat % n) c1.cur i).toNat % n = i; rw [upd_ne _ _ _ _ hie]; exact b
  obtain ⟨c1, hl1, hc1, hq2⟩ := hRB
  let c2 : CS := { c1 with tag := upd c1.tag (c1.cur.toNat % n) c1.cur, valid := fun i => i = c1.cur.toNat % n ∨ c1.valid i }
  have hsave : Chk n c1 (.save cur) c2 := by
    have := Chk.save (n := n) c1 c1.cur rfl (by rw [hc1]; exact h0)
    rw [← hc1]
    exact this
  exact ⟨c2, ChkList_append n c c1 c2 _ _ hl1 (ChkList.cons c1 c2 c2 _ _ hsave (ChkList.nil c2)), hq2, hc1⟩

/-- **C02, one call (rollback mode without sparse saving).** From a quiescent check state whose
tags are the cells' tags, the requests the call appends pass the check and leave a quiescent
check state at the session's new frame. -/
theorem tick_consistent_ns (s s' : P2P) (now : Nat) (reqs reqs' : List Request) (hns : s.sparse = false)
    (h : s.advanceRollbackFrame now reqs = .ok (s', reqs')) (c : CS) (hn : 0 < s.sync.cells.length)
    (hq : QInv s.sync.cells.length c) (hcur : c.cur = s.sync.currentFrame)
    (htags : 0 < s.sync.currentFrame → ∀ i, i < s.sync.cells.length → c.tag i = (rget s.sync.cells i).frame) :
    ∃ (new : List Request) (c' : CS), reqs' = reqs ++ new ∧ ChkList s.sync.cells.length c new c' ∧
      QInv s.sync.cells.length c' ∧ c'.cur = s'.sync.currentFrame ∧
      (s'.sync.currentFrame = s.sync.currentFrame ∨ s'.sync.currentFrame = s.sync.currentFrame + 1) ∧
      s'.sync.cells = s.sync.cells ∧ s'.sparse = s.sparse := by
  obtain ⟨RB, G, hL, h0, hrb, hg, hcl, hsp, _⟩ := tick_shape_ns s s' now reqs reqs' hns h
  generalize hnn : s.sync.cells.length = n at *
  have hrb' : RB = [] ∨ ∃ (r : Frame) (L : List Request), RB = [.load r] ++ L ∧ 0 ≤ r ∧ r < s.sync.currentFrame ∧
      c.tag (r.toNat % n) = r ∧ ResimShape false 0 r (s.sync.currentFrame - r).toNat L := by
    rcases hrb with he | ⟨r, L, a, b, d, e, f⟩
    · exact Or.inl he
    · exact Or.inr ⟨r, L, a, b, d, by rw [htags (by omega) _ (Nat.mod_lt _ hn)]; exact e, f⟩
  obtain ⟨c2, hl2, hq2, hc2⟩ := shape_consistent_ns n hn c s.sync.currentFrame h0 hq hcur RB hrb'
  rcases hg with ⟨hG, hcs⟩ | ⟨ins, hG, hcs⟩
  · exact ⟨RB ++ [.save s.sync.currentFrame], c2, by rw [hL, hG]; simp, hl2, hq2, by rw [hc2, hcs], Or.inl hcs, hcl, hsp⟩
  · let c3 : CS := { c2 with cur := c2.cur + 1, valid := fun i => c2.valid i ∧ c2.tag i ≤ c2.cur }
    have hadv : Chk n c2 (.advance ins) c3 := Chk.advance c2 ins (by rw [hc2]; exact h0)
    refine ⟨RB ++ [.save s.sync.currentFrame] ++ [.advance ins], c3, by rw [hL, hG]; simp, ?_, QInv_advance n c2 hq2,
      by show c2.cur + 1 = _; rw [hc2, hcs], Or.inr hcs, hcl, hsp⟩
    exact ChkList_append n c c2 c3 _ _ hl2 (ChkList.cons c2 c3 c3 _ _ hadv (ChkList.nil c3))

end Ggrs
