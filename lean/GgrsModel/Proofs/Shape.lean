/-
The shape of the request list of a rollback-mode `advance_frame` call (no invariants needed: these
are facts about what the functions append, on runs that do not hit an assertion).
-/
import GgrsModel.Model.P2P
import GgrsModel.Proofs.Monad
import GgrsModel.Proofs.Frame

namespace Ggrs

/-- The re-simulation of `n` frames starting at frame `c` (loop counter `i`): per frame an
optional SaveGameState of that frame followed by an AdvanceFrame. Without sparse saving the save
is there exactly for `i > 0`. -/
def ResimShape (sparse : Bool) : Nat → Int → Nat → List Request → Prop
  | _, _, 0, L => L = []
  | i, c, n + 1, L => ∃ (mid : List Request) (ins : List (Input × InputStatus)) (L' : List Request),
      L = mid ++ [.advance ins] ++ L' ∧ (mid = [] ∨ mid = [.save c]) ∧
      (sparse = false → (i = 0 → mid = []) ∧ (i > 0 → mid = [.save c])) ∧
      ResimShape sparse (i + 1) (c + 1) n L'

theorem syncInputs_fields (pr : Predictor) (sy sy' : SyncLayer) (st : List ConnStatus) (ins : List (Input × InputStatus))
    (h : sy.synchronizedInputs pr st = .ok (sy', ins)) :
    sy'.currentFrame = sy.currentFrame ∧ sy'.cells = sy.cells ∧ sy'.lastSavedFrame = sy.lastSavedFrame := by
  unfold SyncLayer.synchronizedInputs at h
  obtain ⟨r, _, h⟩ := bind_ok h
  have := pure_ok h
  simp only [Prod.mk.injEq] at this
  rw [← this.1]
  exact ⟨rfl, rfl, rfl⟩

theorem save_shape (sy sy' : SyncLayer) (r : Request) (h : sy.saveCurrentState = .ok (sy', r)) :
    r = .save sy.currentFrame ∧ 0 ≤ sy.currentFrame ∧ sy'.currentFrame = sy.currentFrame ∧ sy'.cells = sy.cells ∧
    sy'.queues = sy.queues := by
  unfold SyncLayer.saveCurrentState at h
  simp only at h
  obtain ⟨_, hpos, h⟩ := bind_ok h
  unfold SyncLayer.cellPos at hpos
  obtain ⟨h0, _⟩ := ensure_bind_ok hpos
  have := pure_ok h
  simp only [Prod.mk.injEq] at this
  obtain ⟨h1, h2⟩ := this
  subst h1; subst h2
  exact ⟨rfl, by simpa using h0, rfl, rfl, rfl⟩

theorem resimSave_shape (s : P2P) (mc : Frame) (i : Nat) (sy sy' : SyncLayer) (reqs reqs' : List Request)
    (h : s.resimSave mc i sy reqs = .ok (sy', reqs')) :
    ∃ mid, reqs' = reqs ++ mid ∧ (mid = [] ∨ mid = [.save sy.currentFrame]) ∧
      (s.sparse = false → (i = 0 → mid = []) ∧ (i > 0 → mid = [.save sy.currentFrame])) ∧
      sy'.currentFrame = sy.currentFrame ∧ sy'.cells = sy.cells := by
  unfold P2P.resimSave at h
  have keep : (pure (sy, reqs) : M (SyncLayer × List Request)) = .ok (sy', reqs') →
      sy' = sy ∧ reqs' = reqs := by
    intro hp
    have := pure_ok hp
    simp only [Prod.mk.injEq] at this
    exact ⟨this.1.symm, this.2.symm⟩
  have sv : (do let (sync, r) ← sy.saveCurrentState; pure (sync, reqs ++ [r]) : M (SyncLayer × List Request))
      = .ok (sy', reqs') →
      reqs' = reqs ++ [.save sy.currentFrame] ∧ sy'.currentFrame = sy.currentFrame ∧ sy'.cells = sy.cells := by
    intro hp
    obtain ⟨r3, hs3, hp⟩ := bind_ok hp
    obtain ⟨sy3, rq⟩ := r3
    simp only at hp
    have := pure_ok hp
    simp only [Prod.mk.injEq] at this
    obtain ⟨hr, _, hc, hcl, _⟩ := save_shape sy sy3 rq hs3
    exact ⟨by rw [← this.2, hr], by rw [← this.1, hc], by rw [← this.1, hcl]⟩
  by_cases hsp : s.sparse = true
  · rw [if_pos hsp] at h
    by_cases hm : (sy.currentFrame == mc) = true
    · rw [if_pos hm] at h
      obtain ⟨a, b, c⟩ := sv h
      exact ⟨_, a, Or.inr rfl, (fun hf => by rw [hsp] at hf; cases hf), b, c⟩
    · rw [if_neg hm] at h
      obtain ⟨a, b⟩ := keep h
      exact ⟨[], by rw [b]; simp, Or.inl rfl, (fun hf => by rw [hsp] at hf; cases hf), by rw [a], by rw [a]⟩
  · rw [if_neg hsp] at h
    by_cases hi : i > 0
    · rw [if_pos hi] at h
      obtain ⟨a, b, c⟩ := sv h
      exact ⟨_, a, Or.inr rfl, (fun _ => ⟨(fun h0 => by omega), (fun _ => rfl)⟩), b, c⟩
    · rw [if_neg hi] at h
      obtain ⟨a, b⟩ := keep h
      exact ⟨[], by rw [b]; simp, Or.inl rfl, (fun _ => ⟨(fun _ => rfl), (fun h0 => absurd h0 hi)⟩), by rw [a], by rw [a]⟩

theorem resim_shape (s : P2P) (mc : Frame) : ∀ (n i : Nat) (sy sy' : SyncLayer) (reqs reqs' : List Request),
    P2P.adjustGamestate.loop s mc n i sy reqs = .ok (sy', reqs') →
    ∃ L, reqs' = reqs ++ L ∧ ResimShape s.sparse i sy.currentFrame n L ∧ sy'.cells = sy.cells ∧
      sy'.currentFrame = sy.currentFrame + n := by
  intro n
  induction n with
  | zero =>
    intro i sy sy' reqs reqs' h
    simp only [P2P.adjustGamestate.loop] at h
    cases h
    exact ⟨[], by simp, rfl, rfl, by simp⟩
  | succ k ih =>
    intro i sy sy' reqs reqs' h
    simp only [P2P.adjustGamestate.loop] at h
    obtain ⟨r1, hsim, h⟩ := bind_ok h
    obtain ⟨sy1, ins⟩ := r1
    simp only at h
    obtain ⟨r2, hsave, h⟩ := bind_ok h
    obtain ⟨sy2, reqs2⟩ := r2
    simp only at h
    obtain ⟨hc1, hcl1, _⟩ := syncInputs_fields _ _ _ _ _ hsim
    obtain ⟨mid, hr2, hmid, hns, hc2, hcl2⟩ := resimSave_shape s mc i sy1 sy2 reqs reqs2 hsave
    obtain ⟨L', hr', hsh', hcl', hcur'⟩ := ih (i + 1) sy2.advanceFrame sy' _ reqs' h
    refine ⟨mid ++ [.advance ins] ++ L', by rw [hr', hr2]; simp, ?_, ?_, ?_⟩
    · refine ⟨mid, ins, L', rfl, by rw [← hc1]; exact hmid, fun hf => by rw [← hc1]; exact hns hf, ?_⟩
      have : sy2.advanceFrame.currentFrame = sy.currentFrame + 1 := by
        show sy2.currentFrame + 1 = _; rw [hc2, hc1]
      rw [← this]; exact hsh'
    · rw [hcl']; show sy2.cells = _; rw [hcl2, hcl1]
    · rw [hcur']; show sy2.currentFrame + 1 + (k : Int) = _; rw [hc2, hc1]; push_cast; omega

/-- `adjust_gamestate`: a LoadGameState of a frame in the past whose cell carries that frame's tag,
then the re-simulation back to the frame the session was at. -/
theorem adjust_shape (s s' : P2P) (fi mc : Frame) (reqs reqs' : List Request)
    (h : s.adjustGamestate fi mc reqs = .ok (s', reqs')) :
    ∃ (r : Frame) (L : List Request), reqs' = reqs ++ [.load r] ++ L ∧ 0 ≤ r ∧ r < s.sync.currentFrame ∧
      (rget s.sync.cells (r.toNat % s.sync.cells.length)).frame = r ∧
      ResimShape s.sparse 0 r (s.sync.currentFrame - r).toNat L ∧
      s'.sync.cells = s.sync.cells ∧ s'.sync.currentFrame = s.sync.currentFrame ∧
      (s.sparse = false → r = fi) := by
  unfold P2P.adjustGamestate at h
  simp only at h
  obtain ⟨_, h⟩ := ensure_bind_ok h
  generalize hr : (if s.sparse = true then s.sync.lastSavedFrame else fi) = r at h
  obtain ⟨p1, hload, h⟩ := bind_ok h
  obtain ⟨sy1, req⟩ := p1
  simp only at h
  obtain ⟨_, h⟩ := ensure_bind_ok h
  obtain ⟨p2, hloop, h⟩ := bind_ok h
  obtain ⟨sy2, reqs2⟩ := p2
  simp only at h
  obtain ⟨hback, h⟩ := ensure_bind_ok h
  have := pure_ok h
  simp only [Prod.mk.injEq] at this
  obtain ⟨hs', hreqs'⟩ := this
  -- load_frame
  unfold SyncLayer.loadFrame at hload
  obtain ⟨_, hload⟩ := ensure_bind_ok hload
  obtain ⟨hlt, hload⟩ := ensure_bind_ok hload
  obtain ⟨_, hload⟩ := ensure_bind_ok hload
  obtain ⟨pos, hpos, hload⟩ := bind_ok hload
  obtain ⟨htag, hload⟩ := ensure_bind_ok hload
  have := pure_ok hload
  simp only [Prod.mk.injEq] at this
  obtain ⟨hsy1, hreq⟩ := this
  unfold SyncLayer.cellPos at hpos
  obtain ⟨h0, hpos⟩ := ensure_bind_ok hpos
  have hp := pure_ok hpos
  have h0' : 0 ≤ r := by simpa using h0
  have hposv : pos = r.toNat % s.sync.cells.length := by
    rw [← hp]; simp [frameIdx, usizeOfFrame, h0']
  obtain ⟨L, hL, hsh, hcl, hcur⟩ := resim_shape s mc _ 0 _ sy2 _ reqs2 hloop
  have hc1 : sy1.resetPrediction.currentFrame = r := by rw [← hsy1]; rfl
  have hcl1 : sy1.resetPrediction.cells = s.sync.cells := by rw [← hsy1]; rfl
  rw [hc1] at hsh
  refine ⟨r, L, by rw [← hreqs', hL, ← hreq], h0', by simpa using hlt, ?_, hsh, ?_, ?_, ?_⟩
  · rw [← hposv]; simpa using htag
  · rw [← hs']; show sy2.cells = _; rw [hcl, hcl1]
  · rw [← hs']; show sy2.currentFrame = _; simpa using hback
  · intro hf
    rw [← hr, hf]; rfl

end Ggrs

namespace Ggrs

/-- What a step keeps of the sync layer's save bookkeeping. -/
def KeepCells (s s' : P2P) : Prop :=
  s'.sync.cells = s.sync.cells ∧ s'.sync.currentFrame = s.sync.currentFrame ∧ s'.sparse = s.sparse ∧
  s'.maxPrediction = s.maxPrediction

theorem KeepCells.trans {a b c : P2P} (h1 : KeepCells a b) (h2 : KeepCells b c) : KeepCells a c :=
  ⟨h2.1.trans h1.1, h2.2.1.trans h1.2.1, h2.2.2.1.trans h1.2.2.1, h2.2.2.2.trans h1.2.2.2⟩

theorem rollbackIfNeeded_shape (s s' : P2P) (confirmed : Frame) (reqs reqs' : List Request)
    (h : s.rollbackIfNeeded confirmed reqs = .ok (s', reqs')) :
    KeepCells s s' ∧
    (reqs' = reqs ∨ ∃ (r : Frame) (L : List Request), reqs' = reqs ++ [.load r] ++ L ∧ 0 ≤ r ∧
      r < s.sync.currentFrame ∧ (rget s.sync.cells (r.toNat % s.sync.cells.length)).frame = r ∧
      ResimShape s.sparse 0 r (s.sync.currentFrame - r).toNat L) := by
  unfold P2P.rollbackIfNeeded at h
  simp only at h
  split at h
  · obtain ⟨r1, hadj, h⟩ := bind_ok h
    obtain ⟨s1, reqs1⟩ := r1
    simp only at h
    have := pure_ok h
    simp only [Prod.mk.injEq] at this
    obtain ⟨hs', hr'⟩ := this
    obtain ⟨r, L, hL, h0, hlt, htag, hsh, hcl, hcur, _⟩ := adjust_shape s s1 _ confirmed reqs reqs1 hadj
    have hsp : s1.sparse = s.sparse ∧ s1.maxPrediction = s.maxPrediction := by
      unfold P2P.adjustGamestate at hadj
      simp only at hadj
      obtain ⟨_, hadj⟩ := ensure_bind_ok hadj
      obtain ⟨_, _, hadj⟩ := bind_ok hadj
      obtain ⟨_, hadj⟩ := ensure_bind_ok hadj
      obtain ⟨_, _, hadj⟩ := bind_ok hadj
      obtain ⟨_, hadj⟩ := ensure_bind_ok hadj
      have := pure_ok hadj
      simp only [Prod.mk.injEq] at this
      rw [← this.1]; exact ⟨rfl, rfl⟩
    subst hs'; subst hr'
    exact ⟨⟨hcl, hcur, hsp.1, hsp.2⟩, Or.inr ⟨r, L, hL, h0, hlt, htag, hsh⟩⟩
  · have := pure_ok h
    simp only [Prod.mk.injEq] at this
    obtain ⟨hs', hr'⟩ := this
    subst hs'; subst hr'
    exact ⟨⟨rfl, rfl, rfl, rfl⟩, Or.inl rfl⟩

theorem saveAfterRollback_shape_ns (s s' : P2P) (confirmed : Frame) (reqs reqs' : List Request)
    (hns : s.sparse = false) (h : s.saveAfterRollback confirmed reqs = .ok (s', reqs')) :
    KeepCells s s' ∧ reqs' = reqs ++ [.save s.sync.currentFrame] ∧ 0 ≤ s.sync.currentFrame := by
  unfold P2P.saveAfterRollback at h
  have hsp : ¬ s.sparse = true := by rw [hns]; simp
  rw [if_neg hsp] at h
  obtain ⟨r3, hs3, h⟩ := bind_ok h
  obtain ⟨sy, r⟩ := r3
  simp only at h
  have := pure_ok h
  simp only [Prod.mk.injEq] at this
  obtain ⟨hs2, hr2⟩ := this
  obtain ⟨hr, h0, hc, hcl, _⟩ := save_shape _ _ _ hs3
  subst hs2; subst hr2
  exact ⟨⟨hcl, hc, rfl, rfl⟩, by rw [hr], h0⟩

theorem rollbackGate_shape (s s' : P2P) (reqs reqs' : List Request) (h : s.rollbackGate reqs = .ok (s', reqs')) :
    s'.sync.cells = s.sync.cells ∧ s'.sparse = s.sparse ∧ s'.maxPrediction = s.maxPrediction ∧
    ((reqs' = reqs ∧ s'.sync.currentFrame = s.sync.currentFrame) ∨
     (∃ ins, reqs' = reqs ++ [.advance ins] ∧ s'.sync.currentFrame = s.sync.currentFrame + 1)) := by
  unfold P2P.rollbackGate at h
  split at h
  · obtain ⟨r, hsim, h⟩ := bind_ok h
    obtain ⟨sy1, ins⟩ := r
    simp only at h
    have := pure_ok h
    simp only [Prod.mk.injEq] at this
    obtain ⟨hs', hr'⟩ := this
    obtain ⟨hc, hcl, _⟩ := syncInputs_fields _ _ _ _ _ hsim
    subst hs'; subst hr'
    exact ⟨hcl, rfl, rfl, Or.inr ⟨ins, rfl, by show sy1.currentFrame + 1 = _; rw [hc]⟩⟩
  · have := pure_ok h
    simp only [Prod.mk.injEq] at this
    obtain ⟨hs', hr'⟩ := this
    subst hs'; subst hr'
    exact ⟨rfl, rfl, rfl, Or.inl ⟨rfl, rfl⟩⟩

end Ggrs

namespace Ggrs

theorem setLastConfirmed_cells (sy sy' : SyncLayer) (f : Frame) (sp : Bool)
    (h : sy.setLastConfirmedFrame f sp = .ok sy') : sy'.cells = sy.cells ∧ sy'.currentFrame = sy.currentFrame := by
  unfold SyncLayer.setLastConfirmedFrame at h
  simp only at h
  generalize (min (if sp = true then min f sy.lastSavedFrame else f) sy.currentFrame) = fr at h
  obtain ⟨_, h⟩ := ensure_bind_ok h
  by_cases hpos : fr > 0
  · simp only [hpos, if_true] at h
    obtain ⟨qs, _, h⟩ := bind_ok h
    have := pure_ok h
    subst this
    exact ⟨rfl, rfl⟩
  · simp only [hpos, if_false] at h
    have := pure_ok h
    subst this
    exact ⟨rfl, rfl⟩

theorem registerOne_cells (s s' : P2P) (hd : Nat) (h : s.registerOne hd = .ok s') : KeepCells s s' := by
  unfold P2P.registerOne at h
  obtain ⟨pi, _, h⟩ := bind_ok h
  obtain ⟨r, hadd, h⟩ := bind_ok h
  obtain ⟨sy, actual⟩ := r
  simp only at h
  unfold SyncLayer.addLocalInput at hadd
  obtain ⟨_, hadd⟩ := ensure_bind_ok hadd
  obtain ⟨_, hadd⟩ := ensure_bind_ok hadd
  obtain ⟨r2, _, hadd⟩ := bind_ok hadd
  have := pure_ok hadd
  simp only [Prod.mk.injEq] at this
  obtain ⟨hsy, _⟩ := this
  have hk1 : KeepCells s { s with sync := sy } := by rw [← hsy]; exact ⟨rfl, rfl, rfl, rfl⟩
  split at h
  · obtain ⟨s2, hbl, h⟩ := bind_ok h
    have hc1 := P2P.queueInitialBlanks_sameCore _ _ _ _ hbl
    have hc2 := P2P.queueOutgoing_sameCore _ _ _ _ h
    refine hk1.trans ⟨?_, ?_, ?_, ?_⟩
    · rw [hc2.sync]; show s2.sync.cells = _; rw [hc1.sync]
    · rw [hc2.sync]; show s2.sync.currentFrame = _; rw [hc1.sync]
    · rw [hc2.sparse]; show s2.sparse = _; rw [hc1.sparse]
    · rw [hc2.maxPrediction]; show s2.maxPrediction = _; rw [hc1.maxPrediction]
  · have := pure_ok h
    subst this
    exact hk1

theorem registerLocalInputs_cells (s s' : P2P) (now : Nat) (h : s.registerLocalInputs now = .ok s') : KeepCells s s' := by
  unfold P2P.registerLocalInputs at h
  obtain ⟨s1, hfold, hsend⟩ := bind_ok h
  have hf : ∀ (l : List Nat) (a b : P2P), l.foldlM P2P.registerOne a = .ok b → KeepCells a b := by
    intro l
    induction l with
    | nil => intro a b hh; simp only [List.foldlM_nil] at hh; have := pure_ok hh; subst this; exact ⟨rfl, rfl, rfl, rfl⟩
    | cons x xs ih =>
      intro a b hh
      simp only [List.foldlM_cons] at hh
      obtain ⟨a1, h1, hh⟩ := bind_ok hh
      exact (registerOne_cells a a1 x h1).trans (ih a1 b hh)
  have hc := P2P.sendReady_sameCore _ _ _ hsend
  exact (hf _ s s1 hfold).trans ⟨by rw [hc.sync], by rw [hc.sync], hc.sparse, hc.maxPrediction⟩

/-- **The request list of a rollback-mode `advance_frame` without sparse saving**: what was there,
then (only if a misprediction was detected) a LoadGameState of an earlier frame whose cell carries
that frame's tag followed by the re-simulation up to the current frame (every re-simulated frame
but the loaded one saved first), then a SaveGameState of the current frame, then at most one
AdvanceFrame. The cells (their tags) are untouched by the call itself. -/
theorem tick_shape_ns (s s' : P2P) (now : Nat) (reqs reqs' : List Request) (hns : s.sparse = false)
    (h : s.advanceRollbackFrame now reqs = .ok (s', reqs')) :
    ∃ (RB G : List Request), reqs' = reqs ++ RB ++ [.save s.sync.currentFrame] ++ G ∧ 0 ≤ s.sync.currentFrame ∧
      (RB = [] ∨ ∃ (r : Frame) (L : List Request), RB = [.load r] ++ L ∧ 0 ≤ r ∧ r < s.sync.currentFrame ∧
        (rget s.sync.cells (r.toNat % s.sync.cells.length)).frame = r ∧
        ResimShape false 0 r (s.sync.currentFrame - r).toNat L) ∧
      ((G = [] ∧ s'.sync.currentFrame = s.sync.currentFrame) ∨
       (∃ ins, G = [.advance ins] ∧ s'.sync.currentFrame = s.sync.currentFrame + 1)) ∧
      s'.sync.cells = s.sync.cells ∧ s'.sparse = s.sparse ∧ s'.maxPrediction = s.maxPrediction := by
  unfold P2P.advanceRollbackFrame at h
  obtain ⟨confirmed, _, h⟩ := bind_ok h
  obtain ⟨r1, hrs, h⟩ := bind_ok h
  obtain ⟨s1, reqs1⟩ := r1
  simp only at h
  obtain ⟨s2, hspec, h⟩ := bind_ok h
  obtain ⟨sy3, hset, h⟩ := bind_ok h
  obtain ⟨s4, hreg, hgate⟩ := bind_ok h
  unfold P2P.handleRollbackAndSave at hrs
  obtain ⟨r0, hrb, hsv⟩ := bind_ok hrs
  obtain ⟨s0, reqs0⟩ := r0
  simp only at hsv
  obtain ⟨hk0, hcase0⟩ := rollbackIfNeeded_shape s s0 confirmed reqs reqs0 hrb
  obtain ⟨hk1, hr1, h0⟩ := saveAfterRollback_shape_ns s0 s1 confirmed reqs0 reqs1 (by rw [hk0.2.2.1]; exact hns) hsv
  have hc2 := P2P.sendConfirmed_sameCore _ _ _ _ hspec
  obtain ⟨hcl3, hcur3⟩ := setLastConfirmed_cells _ _ _ _ hset
  have hk4 := registerLocalInputs_cells _ s4 now hreg
  obtain ⟨hclg, hspg, hmpg, hcaseg⟩ := rollbackGate_shape s4 s' reqs1 reqs' hgate
  -- everything up to the gate keeps cells, frame and configuration
  have hk : KeepCells s s4 := by
    refine (hk0.trans hk1).trans (KeepCells.trans ⟨?_, ?_, ?_, ?_⟩ hk4)
    · show sy3.cells = s1.sync.cells; rw [hcl3, hc2.sync]
    · show sy3.currentFrame = s1.sync.currentFrame; rw [hcur3, hc2.sync]
    · show s2.sparse = s1.sparse; exact hc2.sparse
    · show s2.maxPrediction = s1.maxPrediction; exact hc2.maxPrediction
  rw [hk0.2.1] at hr1 h0
  refine ⟨(if reqs0 = reqs then [] else reqs0.drop reqs.length), reqs'.drop reqs1.length, ?_, h0, ?_, ?_,
    hclg.trans hk.1, hspg.trans hk.2.2.1, hmpg.trans hk.2.2.2⟩
  · rcases hcase0 with he | ⟨r, L, hL, _⟩
    · rw [if_pos he]
      rcases hcaseg with ⟨hg, _⟩ | ⟨ins, hg, _⟩
      · rw [hg, hr1, he]; simp
      · rw [hg, hr1, he]; simp
    · have hne : reqs0 ≠ reqs := by
        intro hc; rw [hc] at hL
        have := congrArg List.length hL
        simp at this
      rw [if_neg hne]
      rcases hcaseg with ⟨hg, _⟩ | ⟨ins, hg, _⟩
      · rw [hg, hr1, hL]; simp
      · rw [hg, hr1, hL]; simp
  · rcases hcase0 with he | ⟨r, L, hL, hr0, hlt, htag, hsh⟩
    · left; rw [if_pos he]
    · right
      have hne : reqs0 ≠ reqs := by
        intro hc; rw [hc] at hL
        have := congrArg List.length hL
        simp at this
      rw [if_neg hne, hL]
      rw [hns] at hsh
      exact ⟨r, L, by simp, hr0, hlt, htag, hsh⟩
  · rcases hcaseg with ⟨hg, hc⟩ | ⟨ins, hg, hc⟩
    · left; rw [hg]; exact ⟨by simp, by rw [hc, hk.2.1]⟩
    · right; exact ⟨ins, by rw [hg]; simp, by rw [hc, hk.2.1]⟩

end Ggrs
