/-
Delta layer (length-prefixed XOR against the previous input) and the bounds / no-panic facts
about the checked decoder.
-/
import GgrsModel.Proofs.Rle

namespace Ggrs.Codec

theorem xorWithBase_length : ∀ (b x : Bytes), (xorWithBase b x).length = x.length := by
  intro b
  induction b with
  | nil => intro x; simp [xorWithBase]
  | cons b bs ih =>
    intro x
    cases x with
    | nil => simp [xorWithBase]
    | cons y ys => simp [xorWithBase, ih]

theorem xor_cancel (a b : UInt8) : (a ^^^ b) ^^^ a = b := by
  rw [UInt8.xor_comm a b, UInt8.xor_assoc, UInt8.xor_self, UInt8.xor_zero]

theorem xorInPlace_xorWithBase : ∀ (b x : Bytes), xorInPlace (xorWithBase b x) b = x := by
  intro b
  induction b with
  | nil => intro x; cases x <;> simp [xorWithBase, xorInPlace]
  | cons b bs ih =>
    intro x
    cases x with
    | nil => simp [xorWithBase, xorInPlace]
    | cons y ys => simp [xorWithBase, xorInPlace, ih, xor_cancel]

theorem u16le_decode (n : Nat) (h : n ≤ 65535) :
    (UInt8.ofNat (n % 256)).toNat + 256 * (UInt8.ofNat (n / 256 % 256)).toNat = n := by
  simp only [UInt8.toNat_ofNat']
  omega

/-- Number of bytes `delta_encode` writes for a list of inputs. -/
def encodedSize : List Bytes → Nat
  | [] => 0
  | x :: xs => 2 + x.length + encodedSize xs

theorem encodedSize_append (a b : List Bytes) : encodedSize (a ++ b) = encodedSize a + encodedSize b := by
  induction a with
  | nil => simp [encodedSize]
  | cons x xs ih => simp [encodedSize, ih]; omega

theorem deltaEncode_length : ∀ (xs : List Bytes) (base : Bytes),
    (deltaEncode base xs).length = encodedSize xs := by
  intro xs
  induction xs with
  | nil => intro _; rfl
  | cons x xs ih => intro base; simp [deltaEncode, encodedSize, u16le, xorWithBase_length, ih]; omega

theorem length_le_encodedSize (xs : List Bytes) : xs.length ≤ encodedSize xs := by
  induction xs with
  | nil => simp [encodedSize]
  | cons x xs ih => simp [encodedSize]; omega

theorem deltaDecodeLoop_nil (k : Nat) (base : Bytes) (out : List Bytes) :
    deltaDecodeLoop k base [] out = .ok out.reverse := by
  cases k <;> simp [deltaDecodeLoop]

theorem deltaDecodeLoop_encode : ∀ (xs : List Bytes) (k : Nat) (base : Bytes) (acc : List Bytes),
    (∀ x ∈ xs, x.length ≤ 65535) →
    deltaDecodeLoop (xs.length + k) base (deltaEncode base xs) acc = .ok (acc.reverse ++ xs) := by
  intro xs
  induction xs with
  | nil => intro k base acc _; simp [deltaEncode, deltaDecodeLoop_nil]
  | cons x xs ih =>
    intro k base acc hlen
    have hx := hlen x List.mem_cons_self
    have hfuel : (x :: xs).length + k = (xs.length + k) + 1 := by simp; omega
    rw [hfuel]
    simp only [deltaEncode, u16le, List.cons_append, List.nil_append, deltaDecodeLoop]
    rw [u16le_decode _ hx]
    have e1 : takeExact x.length (xorWithBase base x ++ deltaEncode x xs) []
        = some ((xorWithBase base x).reverse ++ [], deltaEncode x xs) := by
      rw [← xorWithBase_length base x]; exact takeExact_append _ _ _
    simp only [e1, List.append_nil, List.reverse_reverse, xorInPlace_xorWithBase]
    rw [ih k x _ (fun y hy => hlen y (List.mem_cons_of_mem _ hy))]
    simp

theorem delta_roundtrip (reference : Bytes) (xs : List Bytes) (h : ∀ x ∈ xs, x.length ≤ 65535) :
    deltaDecode reference (deltaEncode reference xs) = .ok xs := by
  unfold deltaDecode
  have hle : xs.length ≤ (deltaEncode reference xs).length := by
    rw [deltaEncode_length]; exact length_le_encodedSize xs
  obtain ⟨k, hk⟩ : ∃ k, (deltaEncode reference xs).length = xs.length + k :=
    ⟨_, (Nat.add_sub_cancel' hle).symm⟩
  rw [hk, deltaDecodeLoop_encode xs k reference [] h]
  simp

/-! ### Bounds and absence of panics in the decoder -/

/-- `rle_decode` never reaches a panic site; `room` really is `MAX_DECODED_BYTES - output.len()`
(the invariant `room + |out| = MAX_DECODED_BYTES` is preserved, so the `usize` subtraction of
the Rust code never underflows) and whatever is returned is within the cap. -/
theorem rleDecodeLoop_safe : ∀ (fuel : Nat) (data out : Bytes) (room : Nat),
    room + out.length = MAX_DECODED_BYTES →
    (∀ s, rleDecodeLoop fuel data out room ≠ .error (.panic s)) ∧
    (∀ buf, rleDecodeLoop fuel data out room = .ok buf → buf.length ≤ MAX_DECODED_BYTES) := by
  intro fuel
  induction fuel with
  | zero =>
    intro data out room h
    constructor
    · intro s; simp [rleDecodeLoop]
    · intro buf hb; simp [rleDecodeLoop] at hb; subst hb; simp; omega
  | succ n ih =>
    intro data out room h
    rw [rleDecodeLoop_succ]
    by_cases he : data.isEmpty
    · simp only [he, if_true]
      constructor
      · intro s; simp
      · intro buf hb; cases hb; simp; omega
    · simp only [he, Bool.false_eq_true, if_false]
      cases hr : readHeader 0 0 data with
      | error e =>
        simp only
        constructor
        · intro s hs
          cases hs
          exact readHeader_no_panic data 0 0 0 (by simp) (by simp) s hr
        · intro buf hb; cases hb
      | ok p =>
        obtain ⟨header, rest⟩ := p
        simp only
        split
        · split
          · constructor
            · intro s; simp
            · intro buf hb; cases hb
          · rename_i hcap
            apply ih
            simp; omega
        · cases ht : takeExact (header / 2) rest [] with
          | none =>
            simp only
            constructor
            · intro s; simp
            · intro buf hb; cases hb
          | some pr =>
            obtain ⟨litRev, rest'⟩ := pr
            simp only
            have hl := (takeExact_length _ _ _ _ _ ht).1
            split
            · constructor
              · intro s; simp
              · intro buf hb; cases hb
            · rename_i hcap
              apply ih
              simp at hl ⊢; omega

theorem rleDecode_safe (data : Bytes) :
    (∀ s, rleDecode data ≠ .error (.panic s)) ∧
    (∀ buf, rleDecode data = .ok buf → buf.length ≤ MAX_DECODED_BYTES) :=
  rleDecodeLoop_safe data.length data [] MAX_DECODED_BYTES (by simp)

theorem xorInPlace_length : ∀ (d b : Bytes), (xorInPlace d b).length = d.length := by
  intro d
  induction d with
  | nil => intro b; simp [xorInPlace]
  | cons y ys ihd => intro b; cases b <;> simp [xorInPlace, ihd]

theorem encodedSize_reverse (xs : List Bytes) : encodedSize xs.reverse = encodedSize xs := by
  induction xs with
  | nil => rfl
  | cons x xs ih => simp [encodedSize_append, encodedSize, ih]; omega

/-- `delta_decode` never panics and what it returns accounts for at most the bytes it consumed. -/
theorem deltaDecodeLoop_safe : ∀ (fuel : Nat) (base data : Bytes) (acc : List Bytes),
    (∀ s, deltaDecodeLoop fuel base data acc ≠ .error (.panic s)) ∧
    (∀ xs, deltaDecodeLoop fuel base data acc = .ok xs →
      encodedSize xs ≤ encodedSize acc + data.length) := by
  intro fuel
  induction fuel with
  | zero =>
    intro base data acc
    constructor
    · intro s; simp [deltaDecodeLoop]
    · intro xs h; simp [deltaDecodeLoop] at h; subst h; rw [encodedSize_reverse]; omega
  | succ n ih =>
    intro base data acc
    match data with
    | [] =>
      constructor
      · intro s; simp [deltaDecodeLoop]
      · intro xs h; simp [deltaDecodeLoop] at h; subst h; rw [encodedSize_reverse]; omega
    | [_] =>
      constructor
      · intro s; simp [deltaDecodeLoop]
      · intro xs h; simp [deltaDecodeLoop] at h
    | lo :: hi :: rest =>
      simp only [deltaDecodeLoop]
      cases ht : takeExact (lo.toNat + 256 * hi.toNat) rest [] with
      | none =>
        simp only
        constructor
        · intro s; simp
        · intro xs h; cases h
      | some pr =>
        obtain ⟨encRev, rest'⟩ := pr
        simp only
        have hl := takeExact_length _ _ _ _ _ ht
        have := ih (xorInPlace encRev.reverse base) rest' (xorInPlace encRev.reverse base :: acc)
        constructor
        · exact this.1
        · intro xs h
          have h2 := this.2 xs h
          simp only [encodedSize, xorInPlace_length, List.length_reverse, List.length_cons] at h2 ⊢
          simp at hl
          omega

end Ggrs.Codec
