/-
L-stream, receiver side: whatever subset of the sender's input packets arrives, in whatever order
and however often, the inputs the receiving endpoint hands to its session are a gapless, in-order
prefix of the stream the sender sent.

The sender's stream is `S : SStream` (frame `f0 + i` carries `items[i]`, all of one width). A
packet of the sender is `encode(ref, S[start .. start+n))` with `start_frame = start`, where the
reference `ref` is the input before `start` (zeros before the first one) — exactly what
`send_pending_output` produces from `last_acked_input` and `pending_output`.
-/
import GgrsModel.Proofs.Endpoint
import GgrsModel.Properties.C14

namespace Ggrs
open Codec (Bytes)

/-- largest key of an association list (`NULL_FRAME` for the empty one): `last_recv_frame`. -/
def maxKey : List (Int × Bytes) → Int
  | [] => NULL_FRAME
  | (k, _) :: rest => rest.foldl (fun m p => max m p.1) k

theorem lastRecvFrame_eq (e : Endpoint) : e.lastRecvFrame = maxKey e.recvInputs := by
  unfold Endpoint.lastRecvFrame maxKey
  cases e.recvInputs with
  | nil => rfl
  | cons p rest => obtain ⟨k, v⟩ := p; rfl

theorem foldl_max_ge (l : List (Int × Bytes)) (m : Int) :
    m ≤ l.foldl (fun m p => max m p.1) m ∧ ∀ p ∈ l, p.1 ≤ l.foldl (fun m p => max m p.1) m := by
  induction l generalizing m with
  | nil => exact ⟨Int.le_refl _, fun p hp => by cases hp⟩
  | cons x xs ih =>
    simp only [List.foldl_cons]
    have := ih (max m x.1)
    constructor
    · exact Int.le_trans (Int.le_max_left _ _) this.1
    · intro p hp
      rcases List.mem_cons.mp hp with rfl | hin
      · exact Int.le_trans (Int.le_max_right _ _) this.1
      · exact this.2 p hin

theorem foldl_max_mem (l : List (Int × Bytes)) (m : Int) :
    l.foldl (fun m p => max m p.1) m = m ∨ ∃ p ∈ l, l.foldl (fun m p => max m p.1) m = p.1 := by
  induction l generalizing m with
  | nil => exact Or.inl rfl
  | cons x xs ih =>
    simp only [List.foldl_cons]
    rcases ih (max m x.1) with h | ⟨p, hp, h⟩
    · rw [h]
      by_cases hm : m ≤ x.1
      · right; exact ⟨x, List.mem_cons_self, by rw [Int.max_eq_right hm]⟩
      · left; exact Int.max_eq_left (Int.le_of_lt (Int.not_le.mp hm))
    · right; exact ⟨p, List.mem_cons_of_mem _ hp, h⟩

/-- `maxKey` is an upper bound of the keys and is attained. -/
theorem maxKey_spec (l : List (Int × Bytes)) (hne : l ≠ []) :
    (∀ p ∈ l, p.1 ≤ maxKey l) ∧ ∃ p ∈ l, p.1 = maxKey l := by
  cases l with
  | nil => exact absurd rfl hne
  | cons x xs =>
    obtain ⟨k, v⟩ := x
    simp only [maxKey]
    have h1 := foldl_max_ge xs k
    constructor
    · intro p hp
      rcases List.mem_cons.mp hp with rfl | hin
      · exact h1.1
      · exact h1.2 p hin
    · rcases foldl_max_mem xs k with h | ⟨p, hp, h⟩
      · exact ⟨(k, v), List.mem_cons_self, h.symm⟩
      · exact ⟨p, List.mem_cons_of_mem _ hp, h.symm⟩

theorem maxKey_unique (l : List (Int × Bytes)) (hne : l ≠ []) (m : Int)
    (hub : ∀ p ∈ l, p.1 ≤ m) (hmem : ∃ p ∈ l, p.1 = m) : maxKey l = m := by
  obtain ⟨h1, p, hp, hpe⟩ := maxKey_spec l hne
  obtain ⟨q, hq, hqe⟩ := hmem
  have a : maxKey l ≤ m := by rw [← hpe]; exact hub p hp
  have b : m ≤ maxKey l := by rw [← hqe]; exact h1 q hq
  exact Int.le_antisymm a b

/-! ### `ainsert` / `alookup` facts (no sortedness needed) -/

theorem alookup_ainsert_self (k : Int) (v : Bytes) : ∀ (l : List (Int × Bytes)),
    alookup k (ainsert k v l) = some v := by
  intro l
  induction l with
  | nil => simp [ainsert, alookup]
  | cons x xs ih =>
    obtain ⟨k', v'⟩ := x
    simp only [ainsert]
    by_cases h1 : k < k'
    · simp [h1, alookup]
    · simp only [h1, if_false]
      by_cases h2 : (k == k') = true
      · simp [h2, alookup]
      · simp only [h2, Bool.false_eq_true, if_false, alookup]
        have : (k' == k) = false := by
          simp only [beq_eq_false_iff_ne, ne_eq]
          intro h; apply h2; simp [h]
        simp [this, ih]

theorem alookup_ainsert_ne (k j : Int) (v : Bytes) (hj : j ≠ k) : ∀ (l : List (Int × Bytes)),
    alookup j (ainsert k v l) = alookup j l := by
  intro l
  induction l with
  | nil =>
    have : (k == j) = false := by simp only [beq_eq_false_iff_ne, ne_eq]; exact fun h => hj h.symm
    simp [ainsert, alookup, this]
  | cons x xs ih =>
    obtain ⟨k', v'⟩ := x
    have hkj : (k == j) = false := by simp only [beq_eq_false_iff_ne, ne_eq]; exact fun h => hj h.symm
    simp only [ainsert]
    by_cases h1 : k < k'
    · simp [h1, alookup, hkj]
    · simp only [h1, if_false]
      by_cases h2 : (k == k') = true
      · have hk : k = k' := by simpa using h2
        have : (k' == j) = false := by rw [← hk]; exact hkj
        simp [h2, alookup, hkj, this]
      · simp only [h2, Bool.false_eq_true, if_false, alookup, ih]

theorem mem_ainsert_sub (k : Int) (v : Bytes) : ∀ (l : List (Int × Bytes)) (p : Int × Bytes),
    p ∈ ainsert k v l → p = (k, v) ∨ p ∈ l := by
  intro l
  induction l with
  | nil => intro p hp; simp [ainsert] at hp; exact Or.inl hp
  | cons x xs ih =>
    intro p hp
    obtain ⟨k', v'⟩ := x
    simp only [ainsert] at hp
    split at hp
    · rcases List.mem_cons.mp hp with h | h
      · exact Or.inl h
      · exact Or.inr h
    · split at hp
      · rcases List.mem_cons.mp hp with h | h
        · exact Or.inl h
        · exact Or.inr (List.mem_cons_of_mem _ h)
      · rcases List.mem_cons.mp hp with h | h
        · exact Or.inr (by rw [h]; exact List.mem_cons_self)
        · rcases ih p h with h2 | h2
          · exact Or.inl h2
          · exact Or.inr (List.mem_cons_of_mem _ h2)

theorem self_mem_ainsert (k : Int) (v : Bytes) : ∀ (l : List (Int × Bytes)), (k, v) ∈ ainsert k v l := by
  intro l
  induction l with
  | nil => simp [ainsert]
  | cons x xs ih =>
    obtain ⟨k', v'⟩ := x
    simp only [ainsert]
    split
    · exact List.mem_cons_self
    · split
      · exact List.mem_cons_self
      · exact List.mem_cons_of_mem _ ih

theorem key_mem_ainsert (k : Int) (v : Bytes) : ∀ (l : List (Int × Bytes)) (q : Int × Bytes),
    q ∈ l → ∃ p ∈ ainsert k v l, p.1 = q.1 := by
  intro l
  induction l with
  | nil => intro q hq; cases hq
  | cons x xs ih =>
    intro q hq
    obtain ⟨k', v'⟩ := x
    simp only [ainsert]
    split
    · exact ⟨q, List.mem_cons_of_mem _ hq, rfl⟩
    · split
      · rename_i _ h2
        rcases List.mem_cons.mp hq with rfl | hin
        · exact ⟨(k, v), List.mem_cons_self, by simpa using h2⟩
        · exact ⟨q, List.mem_cons_of_mem _ hin, rfl⟩
      · rcases List.mem_cons.mp hq with rfl | hin
        · exact ⟨(k', v'), List.mem_cons_self, rfl⟩
        · obtain ⟨p, hp, hpe⟩ := ih q hin
          exact ⟨p, List.mem_cons_of_mem _ hp, hpe⟩

theorem ainsert_ne_nil (k : Int) (v : Bytes) (l : List (Int × Bytes)) : ainsert k v l ≠ [] := by
  intro h
  have := self_mem_ainsert k v l
  rw [h] at this
  cases this

theorem maxKey_ainsert (k : Int) (v : Bytes) (l : List (Int × Bytes)) (hne : l ≠ []) :
    maxKey (ainsert k v l) = max k (maxKey l) := by
  obtain ⟨hub, q, hq, hqe⟩ := maxKey_spec l hne
  apply maxKey_unique _ (ainsert_ne_nil k v l)
  · intro p hp
    rcases mem_ainsert_sub k v l p hp with rfl | hin
    · exact Int.le_max_left _ _
    · exact Int.le_trans (hub p hin) (Int.le_max_right _ _)
  · by_cases hk : maxKey l ≤ k
    · exact ⟨(k, v), self_mem_ainsert k v l, by rw [Int.max_eq_left hk]⟩
    · obtain ⟨p, hp, hpe⟩ := key_mem_ainsert k v l q hq
      refine ⟨p, hp, ?_⟩
      rw [hpe, hqe, Int.max_eq_right (Int.le_of_lt (Int.not_le.mp hk))]

/-- Looking up a key that survives a key-based filter. -/
theorem alookup_filter (j : Int) (keep : Int → Bool) (hj : keep j = true) : ∀ (l : List (Int × Bytes)),
    alookup j (l.filter fun p => keep p.1) = alookup j l := by
  intro l
  induction l with
  | nil => rfl
  | cons x xs ih =>
    obtain ⟨k', v'⟩ := x
    simp only [List.filter_cons]
    by_cases hk : keep k' = true
    · simp only [hk, if_true, alookup, ih]
    · simp only [hk, Bool.false_eq_true, if_false, alookup]
      have : (k' == j) = false := by
        simp only [beq_eq_false_iff_ne, ne_eq]
        intro h; rw [h] at hk; exact hk hj
      simp [this, ih]

theorem alookup_some_mem : ∀ (l : List (Int × Bytes)) (j : Int) (b : Bytes),
    alookup j l = some b → (j, b) ∈ l := by
  intro l
  induction l with
  | nil => intro j b h; simp [alookup] at h
  | cons x xs ih =>
    intro j b h
    obtain ⟨k', v'⟩ := x
    simp only [alookup] at h
    split at h
    · rename_i hk
      have hk' : k' = j := by simpa using hk
      cases h
      rw [hk']; exact List.mem_cons_self
    · exact List.mem_cons_of_mem _ (ih j b h)

end Ggrs
