/-
L-glue with dropped players: what the owner hands to its remote endpoints is still its own queue,
frame by frame, whoever has dropped.
-/
import GgrsModel.Proofs.DropWorld
import GgrsModel.Proofs.Glue

namespace Ggrs
open InputQueue

/-- The stream part of the ghost, as the glue invariant reads it. -/
def DGhost.g (gh : DGhost) : Ghost := ⟨gh.specs, gh.hists, gh.T⟩

/-- One local player's registration, the outgoing side — stated for whatever invariant provides the
queue facts of that player. -/
theorem registerOne_glueD (s s' : P2P) (gh : Ghost) (t0 : TLState) (reqs : List Request) (hd : Nat)
    (hcur0 : 0 ≤ s.sync.currentFrame) (hlen : s.localConnectStatus.length = s.sync.queues.length)
    (hqi : hd < s.sync.queues.length → ∃ H Tp, QI s.pred (rget s.sync.queues hd) (gh.specs hd) H Tp s.sync.currentFrame ∧
      Asked (rget s.sync.queues hd) s.sync.currentFrame)
    (hg : GlueInv s gh) (hloc : hd ∈ s.localPlayerHandles)
    (hreg : s.registerOne hd = .ok s') :
    ∃ pi, s.pendingInputOf hd = .ok pi ∧ 0 ≤ pi.frame ∧ GlueInv s' (ghAfter gh hd pi) ∧ s'.handles = s.handles ∧
      s'.lastSentOutgoingInputFrame = s.lastSentOutgoingInputFrame ∧
      s'.sync.queues.length = s.sync.queues.length := by
  unfold P2P.registerOne at hreg
  obtain ⟨pi, hpi, hreg⟩ := bind_ok hreg
  obtain ⟨r, hadd, hreg⟩ := bind_ok hreg
  obtain ⟨sy, actual⟩ := r
  simp only at hreg
  unfold SyncLayer.addLocalInput at hadd
  obtain ⟨hfr, hadd⟩ := ensure_bind_ok hadd
  obtain ⟨hpl, hadd⟩ := ensure_bind_ok hadd
  have hp : hd < s.sync.queues.length := of_decide_eq_true hpl
  obtain ⟨r2, haq, hadd⟩ := bind_ok hadd
  obtain ⟨q', fr⟩ := r2
  simp only at hadd
  have := pure_ok hadd
  simp only [Prod.mk.injEq] at this
  obtain ⟨hsy, hfre⟩ := this
  subst hsy; subst hfre
  have hpf : pi.frame = s.sync.currentFrame := by simpa using hfr
  have h0 : 0 ≤ pi.frame := by rw [hpf]; exact hcur0
  have haq' : (rget s.sync.queues hd).addInput ⟨pi.frame, pi.input⟩ = .ok (q', fr) := haq
  obtain ⟨H, Tp, hq0, ha0⟩ := hqi hp
  obtain ⟨_, _, hfrs⟩ := QI_add s.pred _ q' _ _ _ _ pi.frame pi.input fr hq0 ha0 haq'
  have hpre := ghAfter_prefix gh hd pi h0
  have hsp : (ghAfter gh hd pi).specs hd = ((gh.specs hd).submit pi.frame pi.input).1 := by simp [ghAfter]
  have hspo : ∀ p, p ≠ hd → (ghAfter gh hd pi).specs p = gh.specs p := by intro p hp; simp [ghAfter, hp]
  refine ⟨pi, hpi, h0, ?_⟩
  by_cases hact : (fr != NULL_FRAME) = true
  · simp only [hact, if_true] at hreg
    obtain ⟨s2, hbl, hreg⟩ := bind_ok hreg
    have hne : ((gh.specs hd).submit pi.frame pi.input).2 ≠ NULL_FRAME := by rw [← hfrs]; simpa using hact
    obtain ⟨l0, l1, l2, _, l4⟩ := submit_landed (gh.specs hd) pi.frame pi.input h0 hne
    rw [← hfrs] at l0 l1 l2 l4
    -- the state after add_local_input
    have ho1 : OutOk ({ s with sync := { s.sync with queues := rset s.sync.queues hd q' } } : P2P) (ghAfter gh hd pi) :=
      OutOk_congr s _ _ (OutOk_grow s gh _ hg.out hpre) rfl rfl
    -- blanks
    have hc1 := P2P.queueInitialBlanks_sameCore _ _ _ _ hbl
    have hb : OutOk s2 (ghAfter gh hd pi) ∧ s2.handles = s.handles ∧
        s2.lastSentOutgoingInputFrame = s.lastSentOutgoingInputFrame := by
      unfold P2P.queueInitialBlanks at hbl
      split at hbl
      · rename_i hnull
        have hnull' : (rget s.localConnectStatus hd).lastFrame = NULL_FRAME := by simpa using hnull
        have hempty : (gh.specs hd).vals = [] := by
          have := hg.top hd hloc hp
          rw [hnull'] at this
          simp only [NULL_FRAME] at this
          exact List.length_eq_zero_iff.mp (by omega)
        exact queueBlanks_out (ghAfter gh hd pi) hd _ ({ s with sync := { s.sync with queues := rset s.sync.queues hd q' } } : P2P) s2 ho1 hloc (fun f hf => by
          rw [hsp]
          have hf' : f < fr.toNat := List.mem_range.mp hf
          exact ⟨by omega, l4 hempty f hf'⟩) hbl
      · have := pure_ok hbl; subst this; exact ⟨ho1, rfl, rfl⟩
    obtain ⟨ho2, hh2, hs2⟩ := hb
    -- the input itself
    have hloc3 : hd ∈ (s2.setStatus hd fun c => { c with lastFrame := fr }).localPlayerHandles := by
      unfold P2P.localPlayerHandles; show hd ∈ s2.handles.filterMap _; rw [hh2]; exact hloc
    obtain ⟨ho3, hh3, hs3⟩ := queueOutgoing_out (s2.setStatus hd fun c => { c with lastFrame := fr }) s' (ghAfter gh hd pi) hd
      ⟨fr, pi.input⟩ (OutOk_congr s2 _ _ ho2 rfl rfl) hloc3 l0 (by rw [hsp]; show fr.toNat < _; omega) (by rw [hsp]; exact l2.symm) hreg
    have hc3 := P2P.queueOutgoing_sameCore _ _ _ _ hreg
    refine ⟨⟨ho3, ?_⟩, hh3.trans hh2, hs3.trans hs2, ?_⟩
    · intro p hpl hpq
      rw [hc3.statuses]
      show (rget (rset s2.localConnectStatus hd _) p).lastFrame = _
      rw [hc1.statuses]
      have hpq' : p < s.sync.queues.length := by
        rw [hc3.sync] at hpq
        have : s2.sync = ({ s with sync := { s.sync with queues := rset s.sync.queues hd q' } } : P2P).sync := hc1.sync
        have hq : (s2.setStatus hd fun c => { c with lastFrame := fr }).sync = s2.sync := rfl
        rw [hq, this] at hpq
        simpa [rset_length] using hpq
      have hpl' : p ∈ s.localPlayerHandles := by
        unfold P2P.localPlayerHandles at hpl ⊢; rw [hh3.trans hh2] at hpl; exact hpl
      by_cases hpe : p = hd
      · subst hpe
        rw [rget_rset_eq _ _ _ (by rw [hlen]; exact hp), hsp]
        show fr = _
        omega
      · rw [rget_rset_ne _ _ _ _ (fun e => hpe e.symm), hspo p hpe]
        exact hg.top p hpl' hpq'
    · rw [hc3.sync]
      show s2.sync.queues.length = _
      rw [hc1.sync]
      exact rset_length _ _ _
  · simp only [hact, Bool.false_eq_true, if_false] at hreg
    have := pure_ok hreg
    subst this
    have he : ((gh.specs hd).submit pi.frame pi.input).2 = NULL_FRAME := by rw [← hfrs]; simpa using hact
    have hvals := submit_dropped _ _ _ he h0
    refine ⟨⟨OutOk_congr s _ _ (OutOk_grow s gh _ hg.out hpre) rfl rfl, ?_⟩, rfl, rfl, rset_length _ _ _⟩
    intro p hpl hpq
    have hpq' : p < s.sync.queues.length := by simpa [rset_length] using hpq
    show (rget s.localConnectStatus p).lastFrame = _
    by_cases hpe : p = hd
    · subst hpe; rw [hsp, hvals]; exact hg.top p hpl hpq'
    · rw [hspo p hpe]; exact hg.top p hpl hpq'


theorem registerFold_glueD (t0 : TLState) (reqs : List Request) : ∀ (l : List Nat) (s s' : P2P) (gh : DGhost),
    SessInvD s gh t0 reqs s.localConnectStatus → GlueInv s gh.g → (∀ x ∈ l, x ∈ s.localPlayerHandles) →
    l.foldlM P2P.registerOne s = .ok s' →
    ∃ gh', SessInvD s' gh' t0 reqs s'.localConnectStatus ∧ GlueInv s' gh'.g ∧ RegKeepsD s s' gh gh' ∧
      s'.lastSentOutgoingInputFrame = s.lastSentOutgoingInputFrame ∧
      ∀ p, PrefixOf (gh.specs p).vals (gh'.specs p).vals := by
  intro l
  induction l with
  | nil =>
    intro s s' gh h hg _ hf
    simp only [List.foldlM_nil] at hf
    have := pure_ok hf; subst this
    exact ⟨gh, h, hg, ⟨rfl, rfl, rfl, rfl, rfl, rfl, rfl, rfl, rfl, fun _ => Nat.le_refl _, fun _ => rfl,
      fun _ _ => ⟨rfl, rfl⟩, fun _ _ => rfl⟩, rfl, fun _ => PrefixOf.refl _⟩
  | cons a rest ih =>
    intro s s' gh h hg hl hf
    simp only [List.foldlM_cons] at hf
    obtain ⟨s1, h1, hf⟩ := bind_ok hf
    have hla := hl a List.mem_cons_self
    obtain ⟨gh1, st1, hinv1, hT1, hg1, hc1, hh1, hp1, hm1, hn1, hlc1, hdf1, hst1, hgr1, hfl1, hdq1, hrs1, pi, hpi, hspecs⟩ :=
      registerOne_specD s s1 gh t0 reqs s.localConnectStatus a h hla h1
    rw [hst1 rfl] at hinv1
    have hnd : (rget s.localConnectStatus a).disconnected = false := h.localAlive a hla
    have hqi : a < s.sync.queues.length → ∃ H Tp, QI s.pred (rget s.sync.queues a) (gh.g.specs a) H Tp s.sync.currentFrame ∧
        Asked (rget s.sync.queues a) s.sync.currentFrame := by
      intro hp
      have hng : ¬ gh.gone a := fun hg' => by
        have := (h.tinv.sync.gone a hp hg').dead; rw [hnd] at this; cases this
      have hq0 := h.tinv.sync.live a hp hng
      have hpc : pcur (rget s.localConnectStatus a) s.sync.currentFrame = s.sync.currentFrame := by
        unfold pcur; rw [if_neg (by rw [hnd]; simp)]
      rw [hpc] at hq0
      exact ⟨_, _, hq0, h.asked a hp hnd⟩
    obtain ⟨pi', hpi', h0, hgl1, _, hls1, _⟩ := registerOne_glueD s s1 gh.g t0 reqs a h.tinv.sync.cur
      (by rw [h.marks.len]; exact h.tinv.sync.nq) hqi hg hla h1
    have hpe : pi' = pi := by rw [hpi] at hpi'; cases hpi'; rfl
    subst hpe
    have hg1' : GlueInv s1 gh1.g := GlueInv_specs s1 _ gh1.g hgl1 (by show gh1.specs = _; rw [hspecs]; rfl)
    have hlp : s1.localPlayerHandles = s.localPlayerHandles := by unfold P2P.localPlayerHandles; rw [hh1]
    obtain ⟨gh', hinv', hg', hk, hls, hpre⟩ := ih s1 s' gh1 hinv1 hg1'
      (fun x hx => by rw [hlp]; exact hl x (List.mem_cons_of_mem _ hx)) hf
    refine ⟨gh', hinv', hg', ⟨hk.T.trans hT1, hk.gone.trans hg1, hk.cur.trans hc1, hk.handles.trans hh1, hk.pred.trans hp1,
      hk.maxPrediction.trans hm1, hk.nq.trans hn1, hk.lastConfirmed.trans hlc1, hk.df.trans hdf1,
      fun p => Nat.le_trans (hgr1 p) (hk.grows p), fun p => (hk.flags p).trans (hfl1 p),
      fun p hdp => ⟨(hk.deadQ p (by rw [hfl1 p]; exact hdp)).1.trans (hdq1 p hdp).1,
        (hk.deadQ p (by rw [hfl1 p]; exact hdp)).2.trans (hdq1 p hdp).2⟩,
      fun p hnl => (hk.remoteSpecs p (by rw [hlp]; exact hnl)).trans
        (hrs1 p (fun he => hnl (he ▸ hla)))⟩, hls.trans hls1, ?_⟩
    intro p
    have h1p : PrefixOf (gh.specs p).vals (gh1.specs p).vals := by
      have := ghAfter_prefix gh.g a pi' h0 p
      rw [hspecs]; exact this
    exact h1p.trans (hpre p)

theorem registerLocalInputs_glueD (s s' : P2P) (gh : DGhost) (t0 : TLState) (reqs : List Request) (now : Nat)
    (h : SessInvD s gh t0 reqs s.localConnectStatus) (hg : GlueInv s gh.g) (hreg : s.registerLocalInputs now = .ok s') :
    ∃ (gh' : DGhost) (s1 : P2P), SessInvD s' gh' t0 reqs s'.localConnectStatus ∧ GlueInv s' gh'.g ∧ RegKeepsD s s' gh gh' ∧
      s1.lastSentOutgoingInputFrame = s.lastSentOutgoingInputFrame ∧ Sends gh'.g now s1 s' ∧
      ∀ p, PrefixOf (gh.specs p).vals (gh'.specs p).vals := by
  unfold P2P.registerLocalInputs at hreg
  obtain ⟨s1, hfold, hsend⟩ := bind_ok hreg
  obtain ⟨gh', hinv1, hg1, hk, hls, hpre⟩ := registerFold_glueD t0 reqs _ s s1 gh h hg (fun x hx => hx) hfold
  have hc := P2P.sendReady_sameCore _ _ _ hsend
  have hinv' : SessInvD s' gh' t0 reqs s'.localConnectStatus := by
    have := SessInvD_congr s1 s' gh' t0 reqs _ hinv1 hc
    rw [← hc.statuses] at this
    exact this
  have hkeep : RegKeepsD s s' gh gh' :=
    ⟨hk.T, hk.gone, by rw [hc.sync]; exact hk.cur, hc.handles.trans hk.handles, hc.pred.trans hk.pred,
     hc.maxPrediction.trans hk.maxPrediction, by rw [hc.sync]; exact hk.nq, by rw [hc.sync]; exact hk.lastConfirmed,
     hc.disconnectFrame.trans hk.df, hk.grows, by rw [hc.statuses]; exact hk.flags,
     by rw [hc.sync, hc.statuses]; exact hk.deadQ, hk.remoteSpecs⟩
  unfold P2P.sendReadyOutgoingInputsToRemotes at hsend
  split at hsend
  · have := pure_ok hsend; subst this
    exact ⟨gh', s1, hinv', hg1, hkeep, hls, Sends.done _, hpre⟩
  · simp only at hsend
    split at hsend
    · have := pure_ok hsend; subst this
      exact ⟨gh', s1, hinv', hg1, hkeep, hls, Sends.done _, hpre⟩
    · obtain ⟨hs, hg', _⟩ := sendReadyLoop_glue gh'.g now _ s1 s' hg1 hsend
      exact ⟨gh', s1, hinv', hg', hkeep, hls, hs, hpre⟩

/-- The glue invariant only reads the outgoing queue, the handles, the local players' statuses
and the streams. -/
theorem GlueInv_transferL (s s' : P2P) (gh gh' : Ghost) (h : GlueInv s gh)
    (ho : s'.outgoingLocalInputs = s.outgoingLocalInputs) (hh : s'.handles = s.handles)
    (hst : ∀ p, p ∈ s.localPlayerHandles → rget s'.localConnectStatus p = rget s.localConnectStatus p)
    (hq : s'.sync.queues.length = s.sync.queues.length)
    (hs : ∀ p, p ∈ s.localPlayerHandles → gh'.specs p = gh.specs p) : GlueInv s' gh' := by
  have hlp : s'.localPlayerHandles = s.localPlayerHandles := by unfold P2P.localPlayerHandles; rw [hh]
  refine ⟨?_, ?_⟩
  · intro f m hl
    rw [ho] at hl
    obtain ⟨a, b⟩ := h.out f m hl
    refine ⟨a, fun x hx => ?_⟩
    obtain ⟨b1, b2, b3⟩ := b x hx
    rw [hlp, hs x.1 b1]
    exact ⟨b1, b2, b3⟩
  · intro p hp hpq
    have hp' : p ∈ s.localPlayerHandles := by rw [← hlp]; exact hp
    rw [hst p hp', hs p hp']
    exact h.top p hp' (by rw [← hq]; exact hpq)

/-- **One rollback-mode call with dropped players, the remotes' side.** -/
theorem rollbackTick_glueD (s s' : P2P) (gh : DGhost) (t0 : TLState) (reqs reqs' : List Request) (now : Nat)
    (st0 : List ConnStatus) (h : SessInvD s gh t0 reqs st0) (hg : GlueInv s gh.g)
    (hadv : s.advanceRollbackFrame now reqs = .ok (s', reqs')) :
    ∃ (gh2 gh' : DGhost) (sA sB : P2P), SessInvD s' gh' t0 reqs' s'.localConnectStatus ∧ GlueInv s' gh'.g ∧
      gh'.specs = gh2.specs ∧
      (∀ p, PrefixOf (gh.specs p).vals (gh2.specs p).vals) ∧
      sA.lastSentOutgoingInputFrame = s.lastSentOutgoingInputFrame ∧ Sends gh2.g now sA sB ∧
      s'.lastSentOutgoingInputFrame = sB.lastSentOutgoingInputFrame := by
  unfold P2P.advanceRollbackFrame at hadv
  obtain ⟨confirmed, hconf, hadv⟩ := bind_ok hadv
  obtain ⟨r1, hrs, hadv⟩ := bind_ok hadv
  obtain ⟨s1, reqs1⟩ := r1
  simp only at hadv
  obtain ⟨s2, hspec, hadv⟩ := bind_ok hadv
  obtain ⟨sy3, hset, hadv⟩ := bind_ok hadv
  obtain ⟨s4, hreg, hgate⟩ := bind_ok hadv
  obtain ⟨gh1, hsettled, hright⟩ := handleRollbackAndSaveD s s1 confirmed t0 reqs reqs1 gh st0 h.tinv h.marks
    h.asked h.pend
    (fun p hp hg' => by
      have := h.safe p hp hg'
      have hsv := fun hsp => h.saved hsp p hp hg'
      rw [h.marks.last] at this hsv
      exact ⟨this.1, this.2.1, hsv⟩) hrs
  have hinv1 := SessInvD_of_settledD s s1 gh gh1 t0 reqs reqs1 st0 h hsettled
  obtain ⟨ho1, hl1⟩ := P2P.handleRollbackAndSave_out _ _ _ _ _ hrs
  have hg1 : GlueInv s1 gh1.g := GlueInv_transfer s s1 gh.g gh1.g hg ho1 hsettled.rest.1 hsettled.statuses hsettled.nq
    (by show gh1.specs = gh.specs; exact hsettled.specs)
  have hc2 := P2P.sendConfirmed_sameCore _ _ _ _ hspec
  obtain ⟨ho2, hl2⟩ := P2P.sendConfirmed_out _ _ _ _ hspec
  have hinv2 : SessInvD s2 gh1 t0 reqs1 s2.localConnectStatus := by
    have := SessInvD_congr s1 s2 gh1 t0 reqs1 _ hinv1 hc2
    rw [← hc2.statuses] at this
    exact this
  have hg2 : GlueInv s2 gh1.g := GlueInv_transfer s1 s2 gh1.g gh1.g hg1 ho2 hc2.handles hc2.statuses (by rw [hc2.sync]) rfl
  have hst2 : s2.localConnectStatus = s.localConnectStatus := by rw [hc2.statuses, hsettled.statuses]
  have hnq2 : s2.sync.queues.length = s.sync.queues.length := by rw [hc2.sync, hsettled.nq]
  have hn1 : s.localConnectStatus.length = s.sync.queues.length := by rw [h.marks.len]; exact h.tinv.sync.nq
  have hle : ∀ p, p < s2.sync.queues.length → (rget s2.localConnectStatus p).disconnected = false →
      confirmed ≤ (rget s2.localConnectStatus p).lastFrame := by
    intro p hp hc
    rw [hst2] at hc ⊢
    exact confirmedFrame_leD s confirmed hconf p (by rw [hn1, ← hnq2]; exact hp) hc
  have hclean2 : ∀ p, p < s2.sync.queues.length → (rget s2.sync.queues p).firstIncorrectFrame = NULL_FRAME := by
    rw [hc2.sync]; exact hsettled.clean
  have hright2 : TimelineRightD s2.sync s2.localConnectStatus gh1 := by rw [hc2.sync, hst2]; exact hright
  obtain ⟨gh3, hinv3, hsp3, _, _, _, hq3, _⟩ := setLastConfirmed_specD s2 sy3 gh1 t0 reqs1 confirmed hinv2
    hclean2 (by rw [hc2.disconnectFrame]; exact hsettled.df) hright2 hle hset
  have hg3 : GlueInv ({ s2 with sync := sy3 } : P2P) gh3.g :=
    GlueInv_transfer s2 _ gh1.g gh3.g hg2 rfl rfl rfl hq3 (by show gh3.specs = gh1.specs; exact hsp3)
  obtain ⟨gh4, sA, hinv4, hg4, hk4, hlsA, hsends, hpre⟩ := registerLocalInputs_glueD _ s4 gh3 t0 reqs1 now hinv3 hg3 hreg
  obtain ⟨gh', hinv', hsp', _, hst', hh', _, hnq', _⟩ := rollbackGate_specD s4 s' gh4 t0 reqs1 reqs' hinv4 hgate
  obtain ⟨ho5, hl5⟩ := P2P.rollbackGate_out _ _ _ _ hgate
  have hg' : GlueInv s' gh'.g := GlueInv_transfer s4 s' gh4.g gh'.g hg4 ho5 hh' hst' hnq' (by show gh'.specs = gh4.specs; exact hsp')
  refine ⟨gh4, gh', sA, s4, hinv', hg', hsp', ?_, ?_, hsends, hl5⟩
  · intro p
    have := hpre p
    rw [hsp3, hsettled.specs] at this
    exact this
  · rw [hlsA]
    show s2.lastSentOutgoingInputFrame = _
    rw [hl2, hl1]

/-- A remote input arrives (or is ignored, for a dropped player): the glue invariant survives. -/
theorem glue_remoteInputD (s s' : P2P) (gh : DGhost) (t : TLState) (st0 : List ConnStatus) (now : Nat) (inp : PlayerInput)
    (player : Nat) (handles : List Nat) (addr : Nat) (hy : SessInvD s gh t [] st0) (hgy : GlueInv s gh.g)
    (hnl : player ∉ s.localPlayerHandles) (hf : 0 ≤ inp.frame)
    (hev : s.handleEventCore now (.input inp player) handles addr = .ok s') :
    ∃ gh' st0', SessInvD s' gh' t [] st0' ∧ GlueInv s' gh'.g := by
  obtain ⟨gh', st0', h', _, _, _, hh, _, hnq, _, _, _, _, hsp⟩ :=
    remoteInput_specD s s' gh t [] st0 now inp player handles addr hy hnl hf hev
  obtain ⟨ho, _, hst⟩ := P2P.remoteInput_out s s' now inp player handles addr hev
  refine ⟨gh', st0', h', GlueInv_transferL s s' gh.g gh'.g hgy ho hh ?_ hnq ?_⟩
  · intro p hp
    exact hst p (fun e => hnl (e ▸ hp))
  · intro p hp
    exact hsp p (fun e => hnl (e ▸ hp))

/-- The session invariant with drops and the glue invariant, together. -/
def XGInv (x : P2P × TLState) : Prop := ∃ gh st0, SessInvD x.1 gh x.2 [] st0 ∧ GlueInv x.1 gh.g

theorem XGInv_step (x y : P2P × TLState) (h : XGInv x) (hs : XStep x y) : XGInv y := by
  obtain ⟨gh, st0, h, hg⟩ := h
  cases hs with
  | remoteInput s s' t now inp player handles addr hnl h0 hev =>
    obtain ⟨gh', st0', h', hg'⟩ := glue_remoteInputD s s' gh t st0 now inp player handles addr h hg hnl h0 hev
    exact ⟨gh', st0', h', hg'⟩
  | tick s s' t now reqs' hadv =>
    obtain ⟨_, gh', _, _, h', hg', _⟩ := rollbackTick_glueD s s' gh t [] reqs' now st0 h hg hadv
    exact ⟨gh', _, SessInvD_rebase s' gh' t reqs' _ h', hg'⟩
  | localInput s t handle input =>
    obtain ⟨l, hl⟩ := P2P.addLocalInput_pending s handle input
    show XGInv ((s.addLocalInput handle input).1, t)
    rw [hl]
    exact ⟨gh, st0, SessInvD_pending s gh t [] st0 l h, GlueInv_pending s gh.g l hg⟩
  | saves s t sv => exact ⟨gh, st0, SessInvD_userExecute s gh t [] st0 sv h, GlueInv_userExecute s gh.g sv hg⟩
  | dropApi s s' t now handle addr ep hpt hep hrem hlt hl0 hsame hcall =>
    unfold P2P.disconnectPlayer at hcall
    rw [hpt] at hcall
    simp only at hcall
    by_cases hc : (rget s.localConnectStatus handle).disconnected = true
    · simp only [hc, Bool.not_true, Bool.false_eq_true, if_false] at hcall
      have := pure_ok hcall
      simp only [Prod.mk.injEq] at this
      cases this.2
    · have hc' : (rget s.localConnectStatus handle).disconnected = false := by simpa using hc
      simp only [hc', Bool.not_false, if_true] at hcall
      obtain ⟨s1, hdrop, hcall⟩ := bind_ok hcall
      have := pure_ok hcall
      simp only [Prod.mk.injEq] at this
      rw [← this.1]
      obtain ⟨h', hsy, hh, _, _, _, _, _, hoth, hout, _⟩ := drop_specD s s1 gh t [] st0 now handle addr _ ep h hpt hep hrem
        ⟨hlt, conn_of_marks h.marks handle hc', rfl⟩ hl0 hsame hdrop
      exact ⟨gh, st0, h', GlueInv_transferL s s1 gh.g gh.g hg hout hh
        (fun p hp => hoth p (fun hin => hrem p hin hp)) (by rw [hsy]) (fun _ _ => rfl)⟩
  | dropEvent s s' t now addr hs ep L hpt hep hsub hrem hlt hconn hL0 hsame hev =>
    unfold P2P.handleEventCore at hev
    simp only at hev
    obtain ⟨s1, hfold, hev⟩ := bind_ok hev
    have := pure_ok hev
    subst this
    have cfg : DropCfg s hs addr ep.handles L st0 :=
      ⟨hpt, ⟨ep, hep, rfl⟩, hsub, hrem, hlt,
        fun x hx => ⟨conn_of_marks h.marks x (hconn x hx), hsame x (hsub x hx) (hlt x hx).2 (hconn x hx)⟩, hL0, hsame⟩
    obtain ⟨h', hsy, hh, _, _, _, _, _, hoth, hout, _⟩ := dropFold_specD gh t [] st0 now addr ep.handles L hs s s1 h cfg hfold
    refine ⟨gh, st0, SessInvD_congr s1 _ gh t [] st0 h' ⟨rfl, rfl, rfl, rfl, rfl, rfl, rfl, rfl, rfl⟩, ?_⟩
    exact GlueInv_transferL s _ gh.g gh.g hg hout hh
      (fun p hp => hoth p (fun hin => hrem p hin hp)) (by show s1.sync.queues.length = _; rw [hsy]) (fun _ _ => rfl)
  | adopt s s' t now handle addr ep lf hpt hep hrem hl0 hlow hdead hdrop =>
    obtain ⟨h', hsy, hh, _, _, _, _, _, hoth, hout, _⟩ := drop_specG s s' gh t [] st0 now handle addr lf ep h hpt hep hrem hl0 hlow
      (fun g hg' hgg => hdead g hg' (h.marks.mono g (h.tinv.sync.gone g hg' hgg).dead)) hdrop
    exact ⟨gh, st0, h', GlueInv_transferL s s' gh.g gh.g hg hout hh
      (fun p hp => hoth p (fun hin => hrem p hin hp)) (by rw [hsy]) (fun _ _ => rfl)⟩

/-- **L-glue with drops.** -/
theorem XGInv_run (x y : P2P × TLState) (h : XGInv x) (hr : XStar x y) : XGInv y := by
  induction hr with
  | refl => exact h
  | step y z _ hs ih => exact XGInv_step y z ih hs

end Ggrs
