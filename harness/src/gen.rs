//! Closed-loop scenario generator: chooses ops from one PRNG while executing them on the world, so
//! every op in the emitted scenario file is explicit (replay never depends on the PRNG).
use crate::world::World;
use crate::Rng;

#[derive(Clone, Debug)]
pub struct Peer {
    pub sid: usize,
    pub handles: Vec<usize>,
    pub period_us: u64,
    pub next_tick: u64,
    pub alive: bool,
    pub die_at: Option<u64>,
    pub pause: Option<(u64, u64)>,
    pub pattern: u8,
    pub is_spec: bool,
    pub drain_events: bool,
    pub ticks: u64,
}

#[derive(Clone, Debug)]
pub struct GenCfg {
    pub family: String,
    pub n_peers: usize,
    pub players_per_peer: Vec<usize>,
    pub n_spec: usize,
    pub mp: usize,
    pub delay: usize,
    pub sparse: bool,
    pub pred: char,
    pub dd: u32,
    pub fps: usize,
    pub dt: u64,
    pub dn: u64,
    pub duration_ticks: u64,
    pub p_deliver: u64, // per step, out of 100
    pub p_drop: u64,    // per packet per step, out of 1000
    pub p_dup: u64,     // out of 1000
    pub p_skip: u64,    // probability to skip a packet this step (reordering), out of 100
    pub p_late: u64,    // probability per network step to keep a copy for a late duplicate, out of 1000
    pub latency_us: u64, // fixed one-way latency (timesync family), 0 = deliver at the next step
    pub step_us: u64,
    pub outages: Vec<(usize, usize, u64, u64)>, // src,dst,from,to (us)
    /// src,dst,until (us),keep: the link keeps every packet in flight until `until`, then delivers
    /// the oldest `keep` of them in order and loses the rest
    pub holds: Vec<(usize, usize, u64, usize)>,
    pub mfb: usize,
    pub cs: usize,
}

pub struct Gen {
    pub rng: Rng,
    pub ops: Vec<String>,
    pub w: World,
    pub peers: Vec<Peer>,
    pub cfg: GenCfg,
    /// the magic number each endpoint (link src → dst) stamps its packets with, once seen on the wire
    pub magic_of: std::collections::HashMap<(usize, usize), String>,
    /// late duplicates: (release time, dst, src, message text)
    pub stash: Vec<(u64, usize, usize, String)>,
    /// fixed-latency links: enqueue times of the packets in flight, per link
    pub flight: std::collections::BTreeMap<(usize, usize), std::collections::VecDeque<u64>>,
}

impl Gen {
    fn emit(&mut self, op: String) {
        self.w.op(&op);
        self.ops.push(op);
    }

    pub fn draw_cfg(rng: &mut Rng, family: &str) -> GenCfg {
        let n_peers = match family {
            "death3" | "three" => 3 + rng.below(2) as usize,
            // a single peer that owns every player (with or without spectators)
            "solo" => 1,
            "timesync" | "lossack" | "death" | "zombie" | "disc" | "specack" | "specdeath" | "specdisc" | "hsloss" | "idle" | "glitch" | "forge" | "evq" => 2,
            _ => *rng.pick(&[2usize, 2, 2, 3, 3, 4]),
        };
        let players_per_peer: Vec<usize> = if family == "solo" {
            vec![1 + rng.below(3) as usize]
        } else {
            (0..n_peers).map(|_| if rng.chance(1, 4) { 2 } else { 1 }).collect()
        };
        let mp = match family {
            "lockstep" => 0,
            "death3" => 1 + rng.below(10) as usize,
            "death" | "zombie" | "disc" if rng.chance(1, 4) => 0,
            _ => *rng.pick(&[0usize, 1, 2, 3, 4, 6, 8, 8, 8, 10, 12]),
        };
        let n_spec = match family {
            "spec" => 1 + rng.below(2) as usize,
            "solo" => rng.below(3) as usize,
            "specack" | "specdeath" | "specdisc" => 1,
            "death" | "zombie" | "disc" => if rng.chance(1, 2) { 1 } else { 0 },
            "mix" | "events" | "delay" => if rng.chance(1, 4) { 1 } else { 0 },
            _ => 0,
        };
        let long = family == "long" || family == "events" || (family == "solo" && rng.chance(1, 6));
        let longish = family == "specdeath";
        let mut cfg = GenCfg {
            family: family.to_owned(),
            n_peers,
            players_per_peer,
            n_spec,
            mp,
            delay: *rng.pick(&[0usize, 0, 0, 1, 2, 3, 4, 6]),
            sparse: rng.chance(1, 3),
            pred: if rng.chance(1, 3) { 'D' } else { 'R' },
            dd: if family == "desync" || rng.chance(1, 4) { 1 + rng.below(12) as u32 } else { 0 },
            fps: *rng.pick(&[30usize, 60, 60, 60, 120]),
            dt: *rng.pick(&[300u64, 500, 1000, 2000]),
            dn: *rng.pick(&[100u64, 200, 500]),
            duration_ticks: if long { 1500 + rng.below(1500) } else if longish { 450 + rng.below(200) } else { 60 + rng.below(240) },
            p_deliver: *rng.pick(&[100u64, 100, 90, 70, 50, 30]),
            p_drop: *rng.pick(&[0u64, 0, 0, 10, 50, 150, 300]),
            p_dup: *rng.pick(&[0u64, 0, 0, 20, 100]),
            p_skip: *rng.pick(&[0u64, 0, 10, 30]),
            latency_us: if family == "timesync" { *rng.pick(&[0u64, 0, 10_000, 30_000, 60_000, 100_000, 130_000]) } else { 0 },
            p_late: match family {
                "three" | "death3" | "loss" | "lossack" | "late" => *rng.pick(&[0u64, 20, 60]),
                "mix" | "death" | "spec" => *rng.pick(&[0u64, 0, 0, 20]),
                // stale copies of the host's packets keep arriving at the spectator long after a drop
                "specdisc" => *rng.pick(&[150u64, 300, 600]),
                // replies of the handshake are lost for a long time, copies of them arrive late
                "hsloss" => *rng.pick(&[500u64, 800, 950]),
                _ => 0,
            },
            step_us: *rng.pick(&[2000u64, 4000, 8000, 16000]),
            outages: vec![],
            holds: vec![],
            mfb: *rng.pick(&[1usize, 2, 5, 10, 10, 30, 59]),
            cs: *rng.pick(&[1usize, 1, 2, 5, 60, 200]),
        };
        // only the families about faults and drops play with short timeouts; everywhere else an
        // accidental timeout would just move the scenario into another property's space
        if !matches!(family, "loss" | "lossack" | "death" | "zombie" | "death3" | "disc" | "specdisc" | "three") {
            cfg.dt = *rng.pick(&[2000u64, 3000]);
        }
        if cfg.dn >= cfg.dt {
            cfg.dn = cfg.dt / 2;
        }
        match family {
            "loss" | "lossack" => {
                cfg.p_drop = *rng.pick(&[100u64, 200, 300, 500]);
                let n = 1 + rng.below(3);
                for _ in 0..n {
                    let a = 1 + rng.below(n_peers as u64) as usize;
                    let mut b = 1 + rng.below(n_peers as u64) as usize;
                    if a == b {
                        b = a % n_peers + 1;
                    }
                    let from = 200_000 + rng.below(2_000_000);
                    let len = rng.below((cfg.dt * 1000 * 8 / 10).max(1));
                    cfg.outages.push((a, b, from, from + len));
                    if rng.chance(1, 2) {
                        cfg.outages.push((b, a, from, from + len));
                    }
                }
            }
            "idle" => {
                cfg.dt = 2000;
                cfg.dn = 500;
                cfg.p_deliver = 100;
                cfg.p_drop = 0;
                cfg.p_dup = 0;
                cfg.p_skip = 0;
                cfg.step_us = *rng.pick(&[5_000u64, 20_000, 50_000, 100_000]);
                cfg.duration_ticks = 400;
            }
            "specack" => {
                cfg.p_drop = 0;
                cfg.p_dup = 0;
                cfg.p_skip = 0;
                cfg.p_deliver = 100;
                cfg.dt = 2000;
                // acknowledgements from the spectator (sid 3) to its host (sid 1) are lost for a while
                let from = 400_000 + rng.below(600_000);
                let len = 50_000 + rng.below(1_200_000);
                cfg.outages.push((3, 1, from, from + len));
            }
            "hsloss" => {
                // one direction of the link is dead from the start for one to three seconds: the
                // handshake requests of one side are answered into the void (many retries, many
                // outstanding requests), while late copies of the early replies trickle in
                cfg.p_drop = 0;
                cfg.p_deliver = 100;
                cfg.dt = 3000;
                let (a, b) = if rng.chance(1, 2) { (1, 2) } else { (2, 1) };
                if rng.chance(1, 2) {
                    cfg.outages.push((a, b, 0, 1_300_000 + rng.below(1_500_000)));
                } else {
                    // the replies are not lost but stuck: after the hold the oldest few come through
                    // (answers to the earliest requests), the others are lost
                    cfg.p_late = 0;
                    cfg.holds.push((a, b, 1_300_000 + rng.below(1_500_000), 1 + rng.below(8) as usize));
                }
                cfg.duration_ticks = 200 + rng.below(150);
            }
            "specdisc" => {
                // a host with a spectator drops the other peer (explicitly or by timeout) on an
                // otherwise mild network with many late duplicates
                cfg.p_drop = *rng.pick(&[0u64, 0, 10]);
                cfg.p_deliver = *rng.pick(&[100u64, 100, 70]);
                cfg.duration_ticks = 150 + rng.below(200);
            }
            "glitch" => {
                cfg.dd = 1 + rng.below(12) as u32;
                cfg.sparse = false;
                if cfg.mp == 0 { cfg.mp = 8; }
                cfg.duration_ticks = 300 + rng.below(200);
            }
            "evq" => {
                // one peer ticks faster than the other and nobody ever drains events
                cfg.mp = 8;
                cfg.delay = 0;
                cfg.dd = 0;
                cfg.sparse = false;
                cfg.fps = 60;
                cfg.players_per_peer = vec![1, 1];
                cfg.duration_ticks = 7000;
                cfg.step_us = 8000;
                cfg.p_deliver = 100;
                cfg.p_drop = 0;
                cfg.p_dup = 0;
                cfg.p_skip = 0;
            }
            "clean" | "timesync" => {
                if family == "timesync" {
                    cfg.mp = 12;
                    // the same input delay on both sides: the estimates must not depend on it
                    cfg.delay = *rng.pick(&[0usize, 0, 0, 2, 3, 4, 6]);
                    cfg.dd = 0;
                    cfg.duration_ticks = 400;
                    cfg.step_us = 2000;
                }
                cfg.p_deliver = 100;
                cfg.p_drop = 0;
                cfg.p_dup = 0;
                cfg.p_skip = 0;
            }
            _ => {}
        }
        cfg
    }

    pub fn new(seed: u64, family: &str) -> Gen {
        let mut rng = Rng(seed);
        let cfg = Self::draw_cfg(&mut rng, family);
        Gen { rng, ops: vec![], w: World::new(), peers: vec![], cfg, magic_of: Default::default(), stash: vec![], flight: Default::default() }
    }

    /// Creates the sessions: peers 1..=n (address = sid), spectators n+1.. attached to peer 1
    /// (and peer 2 for the second one).
    pub fn setup(&mut self) {
        let cfg = self.cfg.clone();
        let np: usize = cfg.players_per_peer.iter().sum();
        // handle assignment: consecutive handles per peer, in a rotated order so that the local
        // handles are not always the lowest ones
        let mut owner = vec![0usize; np];
        let mut h = 0;
        for (p, k) in cfg.players_per_peer.iter().enumerate() {
            for _ in 0..*k {
                owner[h] = p + 1;
                h += 1;
            }
        }
        if self.rng.chance(1, 2) {
            owner.reverse();
        }
        let spec_sids: Vec<usize> = (0..cfg.n_spec).map(|i| cfg.n_peers + 1 + i).collect();
        let spec_host = |i: usize| if i == 0 { 1 } else { 2.min(cfg.n_peers) };
        for p in 1..=cfg.n_peers {
            let mut players = Vec::new();
            for (h, o) in owner.iter().enumerate() {
                players.push(if *o == p { format!("{h}:L") } else { format!("{h}:R{o}") });
            }
            for (i, s) in spec_sids.iter().enumerate() {
                if spec_host(i) == p {
                    players.push(format!("{}:S{}", np + i, s));
                }
            }
            let delay = if cfg.family == "delay" && self.rng.chance(1, 2) { self.rng.below(5) as usize } else { cfg.delay };
            // the order of the builder calls (sparse saving before or after the window) must not matter
            let ord = self.rng.below(2);
            self.emit(format!(
                "new p2p {} np={} mp={} sparse={} dd={} delay={} fps={} dt={} dn={} pred={} ord={} players={}",
                p, np, cfg.mp, u8::from(cfg.sparse), cfg.dd, delay, cfg.fps, cfg.dt, cfg.dn, cfg.pred, ord, players.join(",")
            ));
            let handles: Vec<usize> = owner.iter().enumerate().filter(|(_, o)| **o == p).map(|(h, _)| h).collect();
            let base = 1_000_000 / cfg.fps as u64;
            let period = match cfg.family.as_str() {
                "timesync" => base,
                _ => base * *self.rng.pick(&[100u64, 100, 100, 95, 105, 120, 80, 150]) / 100,
            };
            self.peers.push(Peer {
                sid: p,
                handles,
                period_us: period,
                next_tick: self.rng.below(period),
                alive: true,
                die_at: None,
                pause: None,
                pattern: self.rng.below(4) as u8,
                is_spec: false,
                drain_events: cfg.family != "events" && !self.rng.chance(1, 6),
                ticks: 0,
            });
        }
        for (i, s) in spec_sids.iter().enumerate() {
            self.emit(format!(
                "new spec {} host={} np={} mp={} fps={} dt={} dn={} mfb={} cs={}",
                s, spec_host(i), np, cfg.mp, cfg.fps, cfg.dt, cfg.dn, cfg.mfb, cfg.cs
            ));
            let base = 1_000_000 / cfg.fps as u64;
            let pause = if cfg.family != "specdisc" && self.rng.chance(1, 2) {
                let from = 300_000 + self.rng.below(1_500_000);
                Some((from, from + self.rng.below(2_500_000)))
            } else {
                None
            };
            self.peers.push(Peer {
                sid: *s,
                handles: vec![],
                period_us: base * *self.rng.pick(&[100u64, 100, 50, 200, 300]) / 100,
                next_tick: 0,
                alive: true,
                die_at: None,
                pause,
                pattern: 0,
                is_spec: true,
                drain_events: self.rng.chance(3, 4),
                ticks: 0,
            });
        }
        if cfg.family == "evq" {
            let base = 1_000_000 / cfg.fps as u64;
            self.peers[0].period_us = base / 2;
            self.peers[1].period_us = base;
            for p in self.peers.iter_mut() {
                p.drain_events = false;
            }
        }
        if cfg.family == "timesync" {
            let k = self.rng.below(8);
            let base = 1_000_000 / cfg.fps as u64;
            for p in self.peers.iter_mut() {
                p.period_us = base;
                p.next_tick = 0;
                p.drain_events = true;
            }
            self.peers[1].next_tick = k * base;
        }
        if cfg.family == "forge" {
            // a stranger's handshake reply arrives before the genuine peer's first one
            for dst in 1..=cfg.n_peers {
                for src in 1..=cfg.n_peers {
                    if src != dst && self.rng.chance(1, 2) {
                        let magic = 1 + self.rng.below(3);
                        let nonce = 7 + self.rng.below(100_000);
                        self.emit(format!("inject {dst} {src} {magic} SyncReply {nonce}"));
                    }
                }
            }
        }
        if cfg.family == "glitch" {
            let sid = 1 + self.rng.below(2);
            let f = 20 + self.rng.below(150);
            // k = 0: every execution of frame f on that session is perturbed (a lasting divergence)
            self.emit(format!("glitch {sid} {f} 0"));
        }
        if cfg.family == "specdisc" && self.rng.chance(1, 2) {
            // the other peer dies; otherwise the host disconnects it explicitly (extra_ops)
            self.peers[1].die_at = Some(300_000 + self.rng.below(1_500_000));
        }
        if cfg.family == "specdeath" {
            let idx = self.peers.len() - 1;
            self.peers[idx].die_at = Some(300_000 + self.rng.below(1_000_000));
        }
        if cfg.family == "death" || cfg.family == "death3" || cfg.family == "zombie" {
            let victim = self.rng.below(cfg.n_peers as u64) as usize;
            let t1 = 400_000 + self.rng.below(2_500_000);
            self.peers[victim].die_at = Some(t1);
            // with four or more peers sometimes a second one drops out later (the survivors have
            // settled the first drop by then, or are still settling it)
            if cfg.family == "death3" && cfg.n_peers >= 4 && self.rng.chance(1, 2) {
                let mut second = self.rng.below(cfg.n_peers as u64) as usize;
                if second == victim {
                    second = (second + 1) % cfg.n_peers;
                }
                self.peers[second].die_at = Some(t1 + 100_000 + self.rng.below(2_000_000));
            }
        }
    }

    fn input_value(&mut self, peer_idx: usize, k: usize) -> u8 {
        let p = &self.peers[peer_idx];
        let t = p.ticks;
        match p.pattern {
            0 => 3 + k as u8,
            1 => ((t / 7) % 2) as u8 * 5 + k as u8,
            2 => self.rng.below(3) as u8,
            _ => {
                if self.rng.chance(1, 10) {
                    self.rng.below(256) as u8
                } else {
                    (t % 4) as u8
                }
            }
        }
    }

    fn in_outage(&self, src: usize, dst: usize) -> bool {
        let now = self.w.now_us;
        self.cfg.outages.iter().any(|(a, b, f, t)| *a == src && *b == dst && *f <= now && now < *t)
    }

    /// One network step: every link gets a chance to move, drop or duplicate packets.
    pub fn net_step(&mut self) {
        // late duplicates: UDP may deliver a copy of an old datagram much later
        if self.cfg.p_late > 0 {
            let now = self.w.now_us;
            let due: Vec<(u64, usize, usize, String)> = self.stash.iter().filter(|e| e.0 <= now).cloned().collect();
            self.stash.retain(|e| e.0 > now);
            for (_, dst, src, text) in due {
                let dst_alive = self.peers.iter().find(|p| p.sid == dst).map_or(false, |p| p.alive);
                if dst_alive {
                    self.emit(format!("inject {dst} {src} {text}"));
                }
            }
            if self.rng.below(1000) < self.cfg.p_late {
                let links: Vec<(usize, usize, usize)> = self.w.links().into_iter().filter(|l| l.2 > 0).collect();
                if !links.is_empty() {
                    let (src, dst, n) = *self.rng.pick(&links);
                    let k = self.rng.below(n as u64) as usize;
                    if let Some(text) = self.w.peek(src, dst, k) {
                        let delay = 100_000 + self.rng.below(3_000_000);
                        self.stash.push((now + delay, dst, src, text));
                    }
                }
            }
        }
        let links = self.w.links();
        if self.cfg.family == "zombie" {
            for (src, dst, n) in links.iter() {
                if *n > 0 && !self.magic_of.contains_key(&(*src, *dst)) {
                    if let Some(text) = self.w.peek(*src, *dst, 0) {
                        if let Some(m) = text.split_whitespace().next() {
                            self.magic_of.insert((*src, *dst), m.to_owned());
                        }
                    }
                }
            }
        }
        if self.cfg.latency_us > 0 {
            // a lossless FIFO link with a fixed one-way latency
            let now = self.w.now_us;
            for (src, dst, n) in links {
                let q = self.flight.entry((src, dst)).or_default();
                while q.len() < n {
                    q.push_back(now);
                }
                let mut due = 0;
                while let Some(t) = q.front() {
                    if *t + self.cfg.latency_us <= now {
                        q.pop_front();
                        due += 1;
                    } else {
                        break;
                    }
                }
                for _ in 0..due {
                    self.emit(format!("deliver {src} {dst} 0"));
                }
            }
            return;
        }
        for (src, dst, n) in links {
            if n == 0 {
                continue;
            }
            if let Some(pos) = self.cfg.holds.iter().position(|h| h.0 == src && h.1 == dst) {
                let (_, _, until, keep) = self.cfg.holds[pos];
                if self.w.now_us < until {
                    continue;
                }
                self.cfg.holds.remove(pos);
                for k in 0..n {
                    if k < keep {
                        self.emit(format!("deliver {src} {dst} 0"));
                    } else {
                        self.emit(format!("drop {src} {dst} 0"));
                    }
                }
                continue;
            }
            if self.in_outage(src, dst) {
                self.emit(format!("dropall {src} {dst}"));
                continue;
            }
            // a dead peer's packets still arrive; packets to a dead peer are dropped
            if self.peers.iter().any(|p| p.sid == dst && !p.alive) {
                self.emit(format!("dropall {src} {dst}"));
                continue;
            }
            let mut k = 0usize;
            let mut remaining = n;
            while k < remaining {
                if self.rng.below(1000) < self.cfg.p_drop {
                    self.emit(format!("drop {src} {dst} {k}"));
                    remaining -= 1;
                    continue;
                }
                if self.rng.below(100) < self.cfg.p_skip {
                    k += 1;
                    continue;
                }
                if self.rng.below(100) < self.cfg.p_deliver {
                    if self.rng.below(1000) < self.cfg.p_dup {
                        self.emit(format!("dup {src} {dst} {k}"));
                    }
                    self.emit(format!("deliver {src} {dst} {k}"));
                    remaining -= 1;
                } else {
                    // FIFO latency: later packets wait behind this one unless skipped above
                    break;
                }
            }
        }
    }

    /// Family-specific extra op around a tick of peer `i`.
    fn extra_ops(&mut self, i: usize) {
        let sid = self.peers[i].sid;
        let fam = self.cfg.family.clone();
        match fam.as_str() {
            "delay" if !self.peers[i].is_spec && self.rng.chance(1, 12) && !self.peers[i].handles.is_empty() => {
                let h = *self.rng.pick(&self.peers[i].handles.clone());
                let d = self.rng.below(7);
                self.emit(format!("setdelay {sid} {h} {d}"));
                if self.rng.chance(1, 3) {
                    let d2 = self.rng.below(7);
                    self.emit(format!("setdelay {sid} {h} {d2}"));
                }
            }
            "specdisc" if sid == 1 && self.peers[1].die_at.is_none() && self.peers[i].ticks > 20 && self.rng.chance(1, 60) => {
                let hs = self.peers[1].handles.clone();
                if !hs.is_empty() {
                    let h = *self.rng.pick(&hs);
                    self.emit(format!("disc {sid} {h}"));
                }
            }
            "disc" if !self.peers[i].is_spec && self.rng.chance(1, 120) => {
                let np: usize = self.cfg.players_per_peer.iter().sum();
                let h = self.rng.below(np as u64) as usize;
                if !self.peers[i].handles.contains(&h) {
                    self.emit(format!("disc {sid} {h}"));
                }
            }
            "forge" if self.rng.chance(1, 6) => {
                let links = self.w.links();
                let cands: Vec<(usize, usize, usize)> = links.into_iter().filter(|l| l.2 > 0).collect();
                if !cands.is_empty() {
                    let (src, dst, n) = *self.rng.pick(&cands);
                    let k = self.rng.below(n as u64);
                    let nh = self.peers.iter().find(|p| p.sid == src).map_or(1, |p| p.handles.len().max(1));
                    // a wrong magic number is only recognisable once the handshake has fixed the
                    // peer's magic: before that the protocol cannot tell (outside C08's claim)
                    let pick = self.rng.below(9);
                    // before the handshake is over a stranger's SyncReply (another session's magic,
                    // a nonce nobody asked for) must be ignored like any other stray reply
                    if !self.w.is_running(dst) && self.rng.chance(1, 2) {
                        let magic = 1 + self.rng.below(3);
                        let nonce = 7 + self.rng.below(100_000);
                        self.emit(format!("inject {dst} {src} {magic} SyncReply {nonce}"));
                    }
                    let pick = if pick == 0 && !self.w.is_running(dst) { 1 } else { pick };
                    let m = match pick {
                        0 => "magic".to_owned(),
                        1 => "addr".to_owned(),
                        2 => "status-".to_owned(),
                        3 => "status+".to_owned(),
                        4 => "startneg".to_owned(),
                        5 => {
                            let len = self.rng.below(6) as usize;
                            let bytes: Vec<u8> = (0..len).map(|_| *self.rng.pick(&[0x80u8, 0xFF, 0xFD, 0x01, 0x03, 0x0F, 0x7F, 0x00, 0x08])).collect();
                            format!("payload {}", crate::to_hex(&bytes))
                        }
                        6 => format!("size {} {}", 2 * nh, 1 + self.rng.below(3)),
                        7 => format!("size 0 {}", 1 + self.rng.below(3)),
                        _ => format!("size {} {}", 2 * nh + 1, 1 + self.rng.below(2)),
                    };
                    self.emit(format!("forge {src} {dst} {k} {m}"));
                }
            }
            // a stranger (a restarted peer, another session) keeps sending from a dead peer's
            // address with a magic number that is not the dead peer's
            "zombie" if self.rng.chance(1, 2) => {
                let dead: Vec<usize> = self.peers.iter().filter(|p| !p.alive && !p.is_spec).map(|p| p.sid).collect();
                for v in dead {
                    // ... or from an address nobody has registered, stamped with the dead peer's own
                    // magic number (its packets were seen on the wire): not from the peer either
                    if let Some(m) = self.magic_of.get(&(v, sid)).cloned() {
                        if self.rng.chance(1, 2) {
                            self.emit(format!("inject {sid} 99 {m} KeepAlive"));
                        }
                    }
                    let magic = 1 + self.rng.below(2);
                    let body = match self.rng.below(3) {
                        0 => "KeepAlive".to_owned(),
                        1 => format!("SyncRequest {}", 7 + self.rng.below(1000)),
                        _ => "QualityReply 5".to_owned(),
                    };
                    self.emit(format!("inject {sid} {v} {magic} {body}"));
                }
            }
            "misuse" if self.rng.chance(1, 10) => {
                let np: usize = self.cfg.players_per_peer.iter().sum();
                let h = self.rng.below(np as u64 + 3) as usize;
                // a legitimate manual disconnect of a remote player, then the same call again for that
                // player and for every player behind the same address (all already disconnected:
                // each must be refused and change nothing)
                // (two-peer worlds only: with a third peer the gossiped cut-off is the recorded
                // C10 finding, which is not this family's subject)
                let two_peers = self.peers.iter().filter(|p| !p.is_spec).count() == 2;
                if two_peers && self.rng.chance(1, 8) {
                    let owners: Vec<Vec<usize>> = self.peers.iter().filter(|p| !p.is_spec && p.sid != sid).map(|p| p.handles.clone()).collect();
                    if !owners.is_empty() {
                        let group = self.rng.pick(&owners).clone();
                        if !group.is_empty() {
                            let first = *self.rng.pick(&group);
                            self.emit(format!("disc {sid} {first}"));
                            for g in group {
                                if self.rng.chance(2, 3) {
                                    self.emit(format!("disc {sid} {g}"));
                                }
                            }
                        }
                    }
                }
                let op = match self.rng.below(6) {
                    0 => format!("addin {sid} {h} 9"),
                    1 => format!("adv {sid}"),
                    2 => format!("setdelay {sid} {h} 2"),
                    3 => format!("stats {sid} {h}"),
                    4 if self.peers[i].handles.contains(&h) || h >= np => format!("disc {sid} {h}"),
                    _ => format!("stats {sid} {h}"),
                };
                self.emit(op);
            }
            _ => {}
        }
        if self.rng.chance(1, 40) && !self.peers[i].is_spec {
            let np: usize = self.cfg.players_per_peer.iter().sum();
            let h = self.rng.below(np as u64 + self.cfg.n_spec as u64) as usize;
            self.emit(format!("stats {sid} {h}"));
        }
    }

    /// SyncTest families: one session, no network.
    fn run_sync(&mut self) {
        let np = 1 + self.rng.below(4) as usize;
        let mp = 1 + self.rng.below(12) as usize;
        // mostly valid check distances, sometimes invalid ones (the builder must reject them)
        let cd = if self.rng.chance(1, 8) { mp + self.rng.below(3) as usize } else { self.rng.below(mp as u64) as usize };
        let delay = *self.rng.pick(&[0usize, 0, 1, 2, 3, 5]);
        let pred = if self.rng.chance(1, 3) { 'D' } else { 'R' };
        self.emit(format!("new sync 1 np={np} mp={mp} cd={cd} delay={delay} pred={pred}"));
        if self.cfg.family == "syncglitch" {
            // the k-th execution (k >= 2: a re-simulation) of frame f yields another state than the
            // first one did. (A deviation of the first execution only is invisible to any observer
            // once the session rolls back on every call: its result is discarded by the very next
            // rollback before it is ever saved.)
            let (f, k) = if cd >= 2 && cd < mp && self.rng.chance(1, 3) {
                // the warm-up phase: the first `cd` calls do not roll back, so the FIRST execution
                // of a frame 1 ..= cd - 1 is saved and later compared with its re-simulation (frame 0 is
                // never simulated a second time: the first rollback starts from frame 1); and the
                // re-simulations of the very first rollback are the first ones to be compared at all
                if self.rng.chance(1, 2) { (1 + self.rng.below(cd as u64 - 1), 1) } else { (1 + self.rng.below(cd as u64 + 1), 2) }
            } else {
                (3 + self.rng.below(60), 2 + self.rng.below(2))
            };
            self.emit(format!("glitch 1 {f} {k}"));
        }
        let ticks = if self.rng.chance(1, 10) { 600 } else { 40 + self.rng.below(160) };
        for t in 0..ticks {
            let vals: Vec<String> = (0..np).map(|k| match self.rng.below(3) { 0 => (t % 5).to_string(), 1 => (k + 1).to_string(), _ => self.rng.below(256).to_string() }).collect();
            if self.cfg.family == "sync" && self.rng.chance(1, 50) {
                // a misuse in between: advancing with an input missing
                self.emit("adv 1".to_owned());
            }
            if self.cfg.family == "sync" && np >= 2 && self.rng.chance(1, 40) {
                // the same with some of the inputs already registered: the refused call must leave
                // them replaceable (the tick below registers every player's input again)
                let k = 1 + self.rng.below(np as u64 - 1) as usize;
                let mut hs: Vec<usize> = (0..np).collect();
                for i in (1..hs.len()).rev() {
                    hs.swap(i, self.rng.below(i as u64 + 1) as usize);
                }
                for h in hs.into_iter().take(k) {
                    let v = 200 + self.rng.below(50);
                    self.emit(format!("addin 1 {h} {v}"));
                }
                self.emit("adv 1".to_owned());
            }
            self.emit(format!("tick 1 {}", vals.join(",")));
        }
    }

    pub fn run(&mut self) {
        if self.cfg.family == "sync" || self.cfg.family == "syncglitch" {
            self.run_sync();
            return;
        }
        self.setup();
        let total_us = self.cfg.duration_ticks * (1_000_000 / self.cfg.fps as u64);
        let end = self.w.now_us + total_us;
        let mut guard = 0u64;
        while self.w.now_us < end && guard < 400_000 {
            guard += 1;
            let step = self.cfg.step_us;
            self.emit(format!("clock +{step}"));
            self.net_step();
            for i in 0..self.peers.len() {
                let now = self.w.now_us;
                if let Some(t) = self.peers[i].die_at {
                    if now >= t {
                        self.peers[i].alive = false;
                    }
                }
                if !self.peers[i].alive {
                    continue;
                }
                if let Some((f, t)) = self.peers[i].pause {
                    if f <= now && now < t {
                        // a paused peer still polls now and then
                        if self.rng.chance(1, 3) {
                            let sid = self.peers[i].sid;
                            self.emit(format!("poll {sid}"));
                        }
                        continue;
                    }
                }
                if self.peers[i].next_tick > now {
                    if self.rng.chance(1, 8) {
                        let sid = self.peers[i].sid;
                        self.emit(format!("poll {sid}"));
                    }
                    continue;
                }
                let sid = self.peers[i].sid;
                self.extra_ops(i);
                if self.cfg.family == "idle" {
                    self.emit(format!("poll {sid}"));
                } else if self.peers[i].is_spec {
                    self.emit(format!("adv {sid}"));
                } else {
                    let n = self.peers[i].handles.len();
                    let vals: Vec<String> = (0..n).map(|k| self.input_value(i, k).to_string()).collect();
                    self.emit(format!("tick {} {}", sid, vals.join(",")));
                }
                self.peers[i].ticks += 1;
                self.peers[i].next_tick += self.peers[i].period_us;
                if self.peers[i].next_tick + 10 * self.peers[i].period_us < now {
                    self.peers[i].next_tick = now;
                }
                if self.peers[i].drain_events && self.rng.chance(1, 2) {
                    self.emit(format!("events {sid}"));
                }
            }
        }
        // epilogue: the network behaves, everybody alive keeps ticking
        if !matches!(self.cfg.family.as_str(), "idle" | "events" | "timesync" | "evq") {
            self.emit("mark epilogue".to_owned());
            self.cfg.p_drop = 0;
            self.cfg.p_dup = 0;
            self.cfg.p_skip = 0;
            self.cfg.p_deliver = 100;
            self.cfg.outages.clear();
            let end2 = self.w.now_us + 100 * (1_000_000 / self.cfg.fps as u64);
            while self.w.now_us < end2 {
                let step = self.cfg.step_us.min(8000);
                self.emit(format!("clock +{step}"));
                // `flushall` instead of per-packet ops: the epilogue stays a clean network even
                // when the scenario is replayed on code that sends a different number of packets
                self.emit("flushall".to_owned());
                for i in 0..self.peers.len() {
                    if !self.peers[i].alive || self.peers[i].next_tick > self.w.now_us {
                        continue;
                    }
                    let sid = self.peers[i].sid;
                    if self.peers[i].is_spec {
                        self.emit(format!("adv {sid}"));
                    } else {
                        let n = self.peers[i].handles.len();
                        let vals: Vec<String> = (0..n).map(|k| self.input_value(i, k).to_string()).collect();
                        self.emit(format!("tick {} {}", sid, vals.join(",")));
                    }
                    self.peers[i].ticks += 1;
                    self.peers[i].next_tick = self.w.now_us + self.peers[i].period_us;
                    if self.peers[i].drain_events {
                        self.emit(format!("events {sid}"));
                    }
                }
            }
        }
        // final drain so that every event is visible in the trace
        let sids: Vec<usize> = self.peers.iter().filter(|p| p.alive).map(|p| p.sid).collect();
        for sid in sids {
            self.emit(format!("events {sid}"));
        }
    }
}
