//! The world: real ggrs sessions over a fake in-memory network under a virtual clock.
//! Executes scenario ops and writes, per API call, everything the session consumed and produced.
use crate::msg::Msg;
use ggrs::{
    Config, GgrsError, GgrsEvent, GgrsRequest, InputStatus, NonBlockingSocket, P2PSession, PlayerType,
    PredictDefault, PredictRepeatLast, SessionBuilder, SessionState, SpectatorSession, SyncTestSession,
    DesyncDetection,
};
use std::cell::RefCell;
use std::collections::{BTreeMap, VecDeque};
use std::fmt::Write as _;
use std::panic::{catch_unwind, AssertUnwindSafe};
use std::rc::Rc;

/// The harness game: a deterministic fold of the inputs (plus optional scripted glitches).
#[derive(Clone, Debug, PartialEq, Eq)]
pub struct Game {
    pub frame: i32,
    pub acc: u64,
}

impl Game {
    pub fn new() -> Self {
        Game { frame: 0, acc: 0x9E37_79B9 }
    }
    pub fn step(&mut self, inputs: &[(u8, InputStatus)]) {
        let mut a = self.acc.wrapping_mul(6364136223846793005).wrapping_add(self.frame as u64 + 1);
        for (h, (v, st)) in inputs.iter().enumerate() {
            let d = if *st == InputStatus::Disconnected { 256 } else { 0 };
            a = a.wrapping_mul(1099511628211).wrapping_add((h as u64 + 1) * (u64::from(*v) + 1 + d));
        }
        self.acc = a;
        self.frame += 1;
    }
}

pub struct CfgR;
impl Config for CfgR {
    type Input = u8;
    type InputPredictor = PredictRepeatLast;
    type State = Game;
    type Address = usize;
}
pub struct CfgD;
impl Config for CfgD {
    type Input = u8;
    type InputPredictor = PredictDefault;
    type State = Game;
    type Address = usize;
}

#[derive(Default)]
pub struct Net {
    pub links: BTreeMap<(usize, usize), VecDeque<Msg>>,
    pub inbox: BTreeMap<usize, Vec<(usize, Msg)>>,
    pub sent_log: Vec<(usize, usize, Msg)>,
    pub recv_log: Vec<(usize, usize, Msg)>,
    pub total_sent: u64,
}

pub struct FakeSocket {
    me: usize,
    net: Rc<RefCell<Net>>,
}

impl NonBlockingSocket<usize> for FakeSocket {
    fn send_to(&mut self, msg: &ggrs::Message, addr: &usize) {
        let m = Msg::from_ggrs(msg);
        let mut n = self.net.borrow_mut();
        n.total_sent += 1;
        n.sent_log.push((self.me, *addr, m.clone()));
        n.links.entry((self.me, *addr)).or_default().push_back(m);
    }
    fn receive_all_messages(&mut self) -> Vec<(usize, ggrs::Message)> {
        let mut n = self.net.borrow_mut();
        let msgs = n.inbox.remove(&self.me).unwrap_or_default();
        let mut out = Vec::new();
        for (from, m) in msgs {
            n.recv_log.push((self.me, from, m.clone()));
            out.push((from, m.to_ggrs()));
        }
        out
    }
}

pub enum Sess {
    P2PR(P2PSession<CfgR>),
    P2PD(P2PSession<CfgD>),
    Spec(SpectatorSession<CfgR>),
    SyncR(SyncTestSession<CfgR>),
    SyncD(SyncTestSession<CfgD>),
}

pub struct Slot {
    pub sess: Sess,
    pub game: Game,
    pub dead: bool,
    pub local_handles: Vec<usize>,
    pub kind: &'static str,
    pub np: usize,
    /// executions of each frame so far (for scripted glitches)
    pub exec_count: BTreeMap<i32, u32>,
    pub glitches: Vec<(i32, u32)>,
}

pub struct World {
    pub net: Rc<RefCell<Net>>,
    pub now_us: u64,
    pub sessions: BTreeMap<usize, Slot>,
    pub trace: String,
    pub panics: u64,
    pub calls: u64,
}

fn err_text(e: &GgrsError) -> String {
    match e {
        GgrsError::PredictionThreshold => "PredictionThreshold".into(),
        GgrsError::InvalidRequest { .. } => "InvalidRequest".into(),
        GgrsError::MismatchedChecksum { current_frame, mismatched_frames } => format!(
            "MismatchedChecksum:{}:{}",
            current_frame,
            mismatched_frames.iter().map(|f| f.to_string()).collect::<Vec<_>>().join(",")
        ),
        GgrsError::NotSynchronized => "NotSynchronized".into(),
        GgrsError::SpectatorTooFarBehind => "SpectatorTooFarBehind".into(),
        GgrsError::NotEnoughData => "NotEnoughData".into(),
    }
}

fn status_char(s: InputStatus) -> char {
    match s {
        InputStatus::Confirmed => 'C',
        InputStatus::Predicted => 'P',
        InputStatus::Disconnected => 'D',
    }
}

/// Executes the requests on the game; returns (request text, game-side log).
fn exec_requests<T: Config<Input = u8, State = Game>>(
    game: &mut Game,
    exec_count: &mut BTreeMap<i32, u32>,
    glitches: &[(i32, u32)],
    reqs: Vec<GgrsRequest<T>>,
) -> (String, String) {
    let mut rt = String::new();
    let mut gt = String::new();
    for r in reqs {
        match r {
            GgrsRequest::SaveGameState { cell, frame } => {
                let cs = u128::from(game.acc);
                cell.save(frame, Some(game.clone()), Some(cs));
                write!(rt, " S{frame}").unwrap();
                write!(gt, " s:{}:{}:{}", frame, game.frame, cs).unwrap();
            }
            GgrsRequest::LoadGameState { cell, frame } => {
                write!(rt, " L{frame}").unwrap();
                match cell.load() {
                    Some(g) => {
                        write!(gt, " l:{}:{}:{}", frame, g.frame, g.acc).unwrap();
                        *game = g;
                    }
                    None => {
                        write!(gt, " l:{frame}:-:-").unwrap();
                    }
                }
            }
            GgrsRequest::AdvanceFrame { inputs } => {
                let txt = inputs.iter().map(|(v, s)| format!("{}:{}", v, status_char(*s))).collect::<Vec<_>>().join(",");
                write!(rt, " A{txt}").unwrap();
                write!(gt, " a:{}", game.frame).unwrap();
                let f = game.frame;
                let k = exec_count.entry(f).or_insert(0);
                *k += 1;
                let kth = *k;
                game.step(&inputs);
                if glitches.iter().any(|(gf, gk)| *gf == f && (*gk == kth || *gk == 0)) {
                    game.acc ^= 0x5555;
                    write!(gt, " g:{f}:{kth}").unwrap();
                }
            }
        }
    }
    (rt, gt)
}

fn events_text<T: Config<Address = usize>>(evs: Vec<GgrsEvent<T>>) -> String {
    let mut parts = Vec::new();
    for e in evs {
        parts.push(match e {
            GgrsEvent::Synchronizing { addr, total, count } => format!("Synchronizing:{addr}:{total}:{count}"),
            GgrsEvent::Synchronized { addr } => format!("Synchronized:{addr}"),
            GgrsEvent::Disconnected { addr } => format!("Disconnected:{addr}"),
            GgrsEvent::NetworkInterrupted { addr, disconnect_timeout } => format!("NetworkInterrupted:{addr}:{disconnect_timeout}"),
            GgrsEvent::NetworkResumed { addr } => format!("NetworkResumed:{addr}"),
            GgrsEvent::WaitRecommendation { skip_frames } => format!("WaitRecommendation:{skip_frames}"),
            GgrsEvent::DesyncDetected { frame, local_checksum, remote_checksum, addr } => {
                format!("DesyncDetected:{frame}:{local_checksum}:{remote_checksum}:{addr}")
            }
        });
    }
    if parts.is_empty() { "ev".into() } else { format!("ev {}", parts.join(";")) }
}

fn ep_text(e: &ggrs::verif_hooks::EndpointSnapshot) -> String {
    format!(
        "{}:{}:{}:{}:{}:{}:{}:{}",
        e.state, e.pending_output, e.recv_inputs, e.pending_checksums, e.send_queue, e.sync_random_requests,
        e.last_recv_frame, e.last_acked_frame
    )
}

fn p2p_snapshot<T: Config<Address = usize>>(s: &P2PSession<T>) -> String {
    let snap = s.verif_snapshot();
    let conf = catch_unwind(AssertUnwindSafe(|| s.confirmed_frame())).map(|f| f.to_string()).unwrap_or_else(|_| "PANIC".into());
    let st = snap.connect_status.iter().map(|(d, f)| format!("{}:{}", u8::from(*d), f)).collect::<Vec<_>>().join(",");
    let mut eps = snap.endpoints.clone();
    eps.sort_by_key(|(a, sp, _)| (*sp, *a));
    let eps = eps
        .iter()
        .map(|(a, sp, e)| format!("{}:{}:{}", a, if *sp { 'S' } else { 'R' }, ep_text(e)))
        .collect::<Vec<_>>()
        .join(",");
    format!(
        "cur={} conf={} ahead={} run={} st={} evq={} out={} lch={} lcf={} lsf={} df={} nsf={} eps={}",
        s.current_frame(),
        conf,
        s.frames_ahead(),
        u8::from(s.current_state() == SessionState::Running),
        st,
        snap.event_queue,
        snap.outgoing_local_inputs,
        snap.local_checksum_history,
        snap.last_confirmed_frame,
        snap.last_saved_frame,
        snap.disconnect_frame,
        snap.next_spectator_frame,
        if eps.is_empty() { "_".into() } else { eps }
    )
}

fn spec_snapshot(s: &SpectatorSession<CfgR>) -> String {
    let snap = s.verif_snapshot();
    let behind = catch_unwind(AssertUnwindSafe(|| s.frames_behind_host())).map(|f| f.to_string()).unwrap_or_else(|_| "PANIC".into());
    let st = snap.host_connect_status.iter().map(|(d, f)| format!("{}:{}", u8::from(*d), f)).collect::<Vec<_>>().join(",");
    format!(
        "cur={} behind={} run={} evq={} lrf={} st={} host={}",
        s.current_frame(),
        behind,
        u8::from(s.current_state() == SessionState::Running),
        snap.event_queue,
        snap.last_recv_frame,
        st,
        ep_text(&snap.host)
    )
}

pub fn kv<'a>(words: &'a [&'a str], key: &str) -> Option<&'a str> {
    words.iter().find_map(|w| w.strip_prefix(key).and_then(|r| r.strip_prefix('=')))
}

fn kvn(words: &[&str], key: &str, default: u64) -> u64 {
    kv(words, key).and_then(|v| v.parse().ok()).unwrap_or(default)
}

impl World {
    pub fn new() -> World {
        ggrs::verif_hooks::set_clock_us(0);
        World {
            net: Rc::new(RefCell::new(Net::default())),
            now_us: 0,
            sessions: BTreeMap::new(),
            trace: String::new(),
            panics: 0,
            calls: 0,
        }
    }

    fn socket(&self, me: usize) -> FakeSocket {
        FakeSocket { me, net: self.net.clone() }
    }

    fn take_logs(&self) -> (Vec<(usize, usize, Msg)>, Vec<(usize, usize, Msg)>) {
        let mut n = self.net.borrow_mut();
        (std::mem::take(&mut n.recv_log), std::mem::take(&mut n.sent_log))
    }

    /// Writes one call block to the trace.
    fn log_call(&mut self, sid: usize, call: &str, result: &str, game: Option<&str>, snap: &str) {
        let (recv, sent) = self.take_logs();
        writeln!(self.trace, "C {} {} {}", sid, self.now_us, call).unwrap();
        for (_, from, m) in recv {
            writeln!(self.trace, "R {} {}", from, m.text()).unwrap();
        }
        for (_, to, m) in sent {
            writeln!(self.trace, "O {} {}", to, m.text()).unwrap();
        }
        writeln!(self.trace, "= {result}").unwrap();
        if let Some(g) = game {
            writeln!(self.trace, "G{g}").unwrap();
        }
        writeln!(self.trace, "A {snap}").unwrap();
        self.calls += 1;
    }

    fn snapshot(slot: &Slot) -> String {
        match &slot.sess {
            Sess::P2PR(s) => p2p_snapshot(s),
            Sess::P2PD(s) => p2p_snapshot(s),
            Sess::Spec(s) => spec_snapshot(s),
            Sess::SyncR(s) => format!("cur={}", s.current_frame()),
            Sess::SyncD(s) => format!("cur={}", s.current_frame()),
        }
    }

    /// `new p2p <sid> ...`, `new spec <sid> ...`, `new sync <sid> ...`; returns false when the
    /// builder rejected the configuration (logged as a BUILD line).
    pub fn op_new(&mut self, words: &[&str]) -> bool {
        let kind = words[1];
        let sid: usize = words[2].parse().unwrap();
        let np = kvn(words, "np", 2) as usize;
        let mp = kvn(words, "mp", 8) as usize;
        let fps = kvn(words, "fps", 60) as usize;
        let dt = kvn(words, "dt", 2000);
        let dn = kvn(words, "dn", 500);
        let delay = kvn(words, "delay", 0) as usize;
        let pred = kv(words, "pred").unwrap_or("R");
        ggrs::verif_hooks::set_clock_us(self.now_us);
        macro_rules! common {
            ($b:expr) => {{
                let b = $b;
                let b = match b.with_num_players(np) { Ok(b) => b, Err(_) => { writeln!(self.trace, "BUILD {sid} rejected with_num_players").unwrap(); return false; } };
                let b = match b.with_fps(fps) { Ok(b) => b, Err(_) => { writeln!(self.trace, "BUILD {sid} rejected with_fps").unwrap(); return false; } };
                b.with_max_prediction_window(mp)
                    .with_input_delay(delay)
                    .with_disconnect_timeout(std::time::Duration::from_millis(dt))
                    .with_disconnect_notify_delay(std::time::Duration::from_millis(dn))
            }};
        }
        let mut local_handles = Vec::new();
        let sess = match kind {
            "p2p" => {
                let sparse = kvn(words, "sparse", 0) == 1;
                let dd = kvn(words, "dd", 0) as u32;
                let players = kv(words, "players").unwrap_or("");
                let sparse_first = kvn(words, "ord", 0) == 1;
                macro_rules! build {
                    ($cfg:ty, $variant:ident) => {{
                        let b0 = SessionBuilder::<$cfg>::new();
                        let b0 = if sparse_first { b0.with_sparse_saving_mode(sparse) } else { b0 };
                        let b1 = common!(b0);
                        let b1 = if sparse_first { b1 } else { b1.with_sparse_saving_mode(sparse) };
                        let mut b = b1
                            .with_desync_detection_mode(if dd > 0 { DesyncDetection::On { interval: dd } } else { DesyncDetection::Off });
                        for p in players.split(',').filter(|p| !p.is_empty()) {
                            let (h, t) = p.split_once(':').unwrap();
                            let h: usize = h.parse().unwrap();
                            let pt = match &t[..1] {
                                "L" => { local_handles.push(h); PlayerType::Local }
                                "R" => PlayerType::Remote(t[1..].parse().unwrap()),
                                _ => PlayerType::Spectator(t[1..].parse().unwrap()),
                            };
                            b = match b.add_player(pt, h) { Ok(b) => b, Err(_) => { writeln!(self.trace, "BUILD {sid} rejected add_player {h}").unwrap(); return false; } };
                        }
                        match b.start_p2p_session(self.socket(sid)) {
                            Ok(s) => Sess::$variant(s),
                            Err(_) => { writeln!(self.trace, "BUILD {sid} rejected start_p2p_session").unwrap(); return false; }
                        }
                    }};
                }
                if pred == "D" { build!(CfgD, P2PD) } else { build!(CfgR, P2PR) }
            }
            "spec" => {
                let host = kvn(words, "host", 0) as usize;
                let mfb = kvn(words, "mfb", 10) as usize;
                let cs = kvn(words, "cs", 1) as usize;
                let b = common!(SessionBuilder::<CfgR>::new());
                let b = match b.with_max_frames_behind(mfb) { Ok(b) => b, Err(_) => { writeln!(self.trace, "BUILD {sid} rejected with_max_frames_behind").unwrap(); return false; } };
                let b = match b.with_catchup_speed(cs) { Ok(b) => b, Err(_) => { writeln!(self.trace, "BUILD {sid} rejected with_catchup_speed").unwrap(); return false; } };
                Sess::Spec(b.start_spectator_session(host, self.socket(sid)))
            }
            _ => {
                let cd = kvn(words, "cd", 2) as usize;
                local_handles = (0..np).collect();
                macro_rules! build {
                    ($cfg:ty, $variant:ident) => {{
                        let b = common!(SessionBuilder::<$cfg>::new()).with_check_distance(cd);
                        match b.start_synctest_session() {
                            Ok(s) => Sess::$variant(s),
                            Err(_) => { writeln!(self.trace, "BUILD {sid} rejected start_synctest_session").unwrap(); return false; }
                        }
                    }};
                }
                if pred == "D" { build!(CfgD, SyncD) } else { build!(CfgR, SyncR) }
            }
        };
        local_handles.sort_unstable();
        let kind_s: &'static str = match kind { "p2p" => "p2p", "spec" => "spec", _ => "sync" };
        let mut slot = Slot { sess, game: Game::new(), dead: false, local_handles, kind: kind_s, np, exec_count: BTreeMap::new(), glitches: vec![] };
        // The first poll flushes the initial handshake request, which reveals the random numbers
        // drawn at construction (magic, first nonce); they are part of the SESSION line.
        let mut seeds = Vec::new();
        let first_poll = match &mut slot.sess {
            Sess::P2PR(s) => { s.poll_remote_clients(); true }
            Sess::P2PD(s) => { s.poll_remote_clients(); true }
            Sess::Spec(s) => { s.poll_remote_clients(); true }
            _ => false,
        };
        if first_poll {
            let n = self.net.borrow();
            for (_, to, m) in &n.sent_log {
                if let crate::msg::Body::SyncRequest { random_request } = &m.body {
                    seeds.push(format!("{}:{}:{}", to, m.header.magic, random_request));
                }
            }
        }
        let cfg = words[3..].join(" ");
        writeln!(
            self.trace,
            "SESSION {} {} {} seeds={} now={}",
            sid,
            kind_s,
            cfg,
            if seeds.is_empty() { "_".into() } else { seeds.join(",") },
            self.now_us
        )
        .unwrap();
        if first_poll {
            let snap = Self::snapshot(&slot);
            self.log_call(sid, "poll", "ok", None, &snap);
        }
        self.sessions.insert(sid, slot);
        true
    }

    /// One API call on a session, under catch_unwind, logged as a call block.
    pub fn call(&mut self, sid: usize, call: &str) {
        ggrs::verif_hooks::set_clock_us(self.now_us);
        let Some(mut slot) = self.sessions.remove(&sid) else { return };
        if slot.dead {
            self.sessions.insert(sid, slot);
            return;
        }
        let w: Vec<&str> = call.split_whitespace().collect();
        let r = catch_unwind(AssertUnwindSafe(|| -> (String, Option<String>) {
            let Slot { sess, game, exec_count, glitches, .. } = &mut slot;
            macro_rules! res_unit {
                ($e:expr) => {
                    match $e { Ok(()) => "ok".to_string(), Err(e) => format!("err {}", err_text(&e)) }
                };
            }
            macro_rules! adv {
                ($s:expr) => {
                    match $s.advance_frame() {
                        Ok(reqs) => {
                            let (rt, gt) = exec_requests(game, exec_count, glitches, reqs);
                            (format!("ok{rt}"), Some(gt))
                        }
                        Err(e) => (format!("err {}", err_text(&e)), Some(String::new())),
                    }
                };
            }
            macro_rules! stats {
                ($s:expr) => {
                    match $s {
                        Ok(st) => format!("ok {} {} {} {}", st.ping, st.send_queue_len, st.local_frames_behind, st.remote_frames_behind),
                        Err(e) => format!("err {}", err_text(&e)),
                    }
                };
            }
            match (w[0], sess) {
                ("addin", Sess::P2PR(s)) => (res_unit!(s.add_local_input(w[1].parse().unwrap(), w[2].parse().unwrap())), None),
                ("addin", Sess::P2PD(s)) => (res_unit!(s.add_local_input(w[1].parse().unwrap(), w[2].parse().unwrap())), None),
                ("addin", Sess::SyncR(s)) => (res_unit!(s.add_local_input(w[1].parse().unwrap(), w[2].parse().unwrap())), None),
                ("addin", Sess::SyncD(s)) => (res_unit!(s.add_local_input(w[1].parse().unwrap(), w[2].parse().unwrap())), None),
                ("adv", Sess::P2PR(s)) => adv!(s),
                ("adv", Sess::P2PD(s)) => adv!(s),
                ("adv", Sess::Spec(s)) => adv!(s),
                ("adv", Sess::SyncR(s)) => adv!(s),
                ("adv", Sess::SyncD(s)) => adv!(s),
                ("poll", Sess::P2PR(s)) => { s.poll_remote_clients(); ("ok".into(), None) }
                ("poll", Sess::P2PD(s)) => { s.poll_remote_clients(); ("ok".into(), None) }
                ("poll", Sess::Spec(s)) => { s.poll_remote_clients(); ("ok".into(), None) }
                ("events", Sess::P2PR(s)) => (events_text(s.events().collect()), None),
                ("events", Sess::P2PD(s)) => (events_text(s.events().collect()), None),
                ("events", Sess::Spec(s)) => (events_text(s.events().collect()), None),
                ("setdelay", Sess::P2PR(s)) => (res_unit!(s.set_input_delay(w[1].parse().unwrap(), w[2].parse().unwrap())), None),
                ("setdelay", Sess::P2PD(s)) => (res_unit!(s.set_input_delay(w[1].parse().unwrap(), w[2].parse().unwrap())), None),
                ("disc", Sess::P2PR(s)) => (res_unit!(s.disconnect_player(w[1].parse().unwrap())), None),
                ("disc", Sess::P2PD(s)) => (res_unit!(s.disconnect_player(w[1].parse().unwrap())), None),
                ("stats", Sess::P2PR(s)) => (stats!(s.network_stats(w[1].parse().unwrap())), None),
                ("stats", Sess::P2PD(s)) => (stats!(s.network_stats(w[1].parse().unwrap())), None),
                ("stats", Sess::Spec(s)) => (stats!(s.network_stats()), None),
                _ => ("unsupported".into(), None),
            }
        }));
        match r {
            Ok((res, game)) => {
                if res == "unsupported" {
                    let _ = self.take_logs();
                } else {
                    let snap = Self::snapshot(&slot);
                    self.log_call(sid, call, &res, game.as_deref(), &snap);
                }
            }
            Err(_) => {
                slot.dead = true;
                self.panics += 1;
                self.log_call(sid, call, "PANIC", None, "dead");
            }
        }
        self.sessions.insert(sid, slot);
    }

    pub fn tick(&mut self, sid: usize, values: &[u8]) {
        let handles = match self.sessions.get(&sid) { Some(s) => s.local_handles.clone(), None => return };
        for (i, h) in handles.iter().enumerate() {
            let v = values.get(i).copied().unwrap_or(0);
            self.call(sid, &format!("addin {h} {v}"));
        }
        self.call(sid, "adv");
    }

    /// Is the session past its handshake (SessionState::Running)?
    pub fn is_running(&self, sid: usize) -> bool {
        match self.sessions.get(&sid).map(|s| &s.sess) {
            Some(Sess::P2PR(s)) => s.current_state() == SessionState::Running,
            Some(Sess::P2PD(s)) => s.current_state() == SessionState::Running,
            Some(Sess::Spec(s)) => s.current_state() == SessionState::Running,
            Some(_) => true,
            None => false,
        }
    }

    pub fn in_flight(&self, src: usize, dst: usize) -> usize {
        self.net.borrow().links.get(&(src, dst)).map_or(0, |q| q.len())
    }

    /// Text form of the k-th in-flight message of a link (for late duplicates).
    pub fn peek(&self, src: usize, dst: usize, k: usize) -> Option<String> {
        let n = self.net.borrow();
        let q = n.links.get(&(src, dst))?;
        if q.is_empty() {
            return None;
        }
        Some(q[k % q.len()].text())
    }

    pub fn links(&self) -> Vec<(usize, usize, usize)> {
        self.net.borrow().links.iter().map(|(k, q)| (k.0, k.1, q.len())).collect()
    }

    /// Executes one scenario op (already echoed by the caller if desired).
    pub fn op(&mut self, line: &str) {
        let w: Vec<&str> = line.split_whitespace().collect();
        if w.is_empty() || w[0].starts_with('#') {
            return;
        }
        match w[0] {
            "new" => { self.op_new(&w); }
            "clock" => {
                let d: u64 = w[1].trim_start_matches('+').parse().unwrap();
                self.now_us += d;
                writeln!(self.trace, "N clock {}", self.now_us).unwrap();
            }
            "tick" => {
                let sid: usize = w[1].parse().unwrap();
                let vals: Vec<u8> = w.get(2).map_or(vec![], |v| v.split(',').filter_map(|x| x.parse().ok()).collect());
                self.tick(sid, &vals);
            }
            "adv" | "poll" | "events" => { let sid: usize = w[1].parse().unwrap(); self.call(sid, w[0]); }
            "addin" | "setdelay" | "disc" | "stats" => {
                let sid: usize = w[1].parse().unwrap();
                self.call(sid, &format!("{} {}", w[0], w[2..].join(" ")));
            }
            "glitch" => {
                let sid: usize = w[1].parse().unwrap();
                if let Some(s) = self.sessions.get_mut(&sid) {
                    s.glitches.push((w[2].parse().unwrap(), w[3].parse().unwrap()));
                }
                writeln!(self.trace, "N {line}").unwrap();
            }
            "deliver" | "drop" | "dup" => {
                let (src, dst, k): (usize, usize, usize) = (w[1].parse().unwrap(), w[2].parse().unwrap(), w[3].parse().unwrap());
                let mut n = self.net.borrow_mut();
                let Some(q) = n.links.get_mut(&(src, dst)) else { return };
                if q.is_empty() { return; }
                let k = k % q.len();
                match w[0] {
                    "deliver" => { let m = q.remove(k).unwrap(); n.inbox.entry(dst).or_default().push((src, m)); }
                    "drop" => { q.remove(k); }
                    _ => { let m = q[k].clone(); n.inbox.entry(dst).or_default().push((src, m)); }
                }
                drop(n);
                writeln!(self.trace, "N {} {} {} {}", w[0], src, dst, k).unwrap();
            }
            "flush" | "dropall" => {
                let (src, dst): (usize, usize) = (w[1].parse().unwrap(), w[2].parse().unwrap());
                let mut n = self.net.borrow_mut();
                let msgs: Vec<Msg> = n.links.get_mut(&(src, dst)).map(|q| q.drain(..).collect()).unwrap_or_default();
                let cnt = msgs.len();
                if w[0] == "flush" {
                    for m in msgs { n.inbox.entry(dst).or_default().push((src, m)); }
                }
                drop(n);
                writeln!(self.trace, "N {} {} {} {}", w[0], src, dst, cnt).unwrap();
            }
            "flushall" => {
                let mut n = self.net.borrow_mut();
                let keys: Vec<(usize, usize)> = n.links.keys().copied().collect();
                for (src, dst) in keys {
                    let msgs: Vec<Msg> = n.links.get_mut(&(src, dst)).unwrap().drain(..).collect();
                    for m in msgs { n.inbox.entry(dst).or_default().push((src, m)); }
                }
                drop(n);
                writeln!(self.trace, "N flushall").unwrap();
            }
            "mark" => {
                writeln!(self.trace, "N {line}").unwrap();
            }
            "forge" => {
                // forge <src> <dst> <k> <mutation> [arg]: a copy of the k-th in-flight message of
                // link src->dst is mutated and put into dst's inbox (the original stays in flight)
                let (src, dst, k): (usize, usize, usize) = (w[1].parse().unwrap(), w[2].parse().unwrap(), w[3].parse().unwrap());
                let n = self.net.borrow();
                let Some(q) = n.links.get(&(src, dst)) else { return };
                if q.is_empty() { return; }
                let k = k % q.len();
                let mut m = q[k].clone();
                drop(n);
                let mut from = src;
                let mutation = w[4];
                let ok = match (&mut m.body, mutation) {
                    (_, "magic") => { m.header.magic = m.header.magic.wrapping_add(1).max(1); true }
                    (_, "addr") => { from = 99; true }
                    (crate::msg::Body::Input(i), "status-") => { i.peer_connect_status.pop(); !i.disconnect_requested }
                    (crate::msg::Body::Input(i), "status+") => {
                        i.peer_connect_status.push(crate::msg::ConnStatus { disconnected: false, last_frame: 0 });
                        !i.disconnect_requested
                    }
                    (crate::msg::Body::Input(i), "startneg") => { i.start_frame = -1 - (k as i32); true }
                    (crate::msg::Body::Input(i), "payload") => { i.bytes = crate::from_hex(w.get(5).copied().unwrap_or("-")).unwrap_or_default(); true }
                    (crate::msg::Body::Input(i), "size") => {
                        let per: usize = w.get(5).and_then(|x| x.parse().ok()).unwrap_or(0);
                        let frames: usize = w.get(6).and_then(|x| x.parse().ok()).unwrap_or(1);
                        let inputs: Vec<Vec<u8>> = (0..frames).map(|f| vec![(f as u8).wrapping_add(0x41); per]).collect();
                        i.bytes = ggrs::verif_hooks::codec_encode(&[], &inputs);
                        true
                    }
                    _ => false,
                };
                if ok {
                    self.net.borrow_mut().inbox.entry(dst).or_default().push((from, m));
                    writeln!(self.trace, "N forge {src} {dst} {k} {}", w[4..].join(" ")).unwrap();
                }
            }
            "inject" => {
                let (dst, from): (usize, usize) = (w[1].parse().unwrap(), w[2].parse().unwrap());
                if let Some(m) = Msg::parse(&w[3..]) {
                    self.net.borrow_mut().inbox.entry(dst).or_default().push((from, m));
                    writeln!(self.trace, "N {line}").unwrap();
                }
            }
            _ => {}
        }
    }
}
