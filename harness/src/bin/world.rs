//! usage: world run <scenario-file> <trace-file>
//!        world gen <family> <seed> <count> <outdir> [shard nshards]
//! `run` executes a scenario (one op per line) on real ggrs sessions and writes the trace.
//! `gen` generates `count` scenarios of a family (closed loop), writes every scenario to
//! <outdir>/<family>-<i>.scn and all traces to <outdir>/<family>.<shard>.trace.
use ggrs_verif_harness::gen::Gen;
use ggrs_verif_harness::world::World;
use std::io::Write;

fn mix(seed: u64, family: &str, i: u64) -> u64 {
    let mut h = seed ^ 0xcbf2_9ce4_8422_2325;
    for b in family.bytes() {
        h = (h ^ u64::from(b)).wrapping_mul(0x1000_0000_01b3);
    }
    (h ^ i).wrapping_mul(0x9E37_79B9_7F4A_7C15)
}

fn main() {
    let args: Vec<String> = std::env::args().collect();
    if std::env::var_os("GGRS_VERIF_SHOW_PANICS").is_some() {
        std::panic::set_hook(Box::new(|info| eprintln!("panic: {info}")));
    } else {
        std::panic::set_hook(Box::new(|_| {}));
    }
    match args.get(1).map(String::as_str) {
        Some("run") if args.len() >= 4 => {
            let scenario = std::fs::read_to_string(&args[2]).expect("scenario");
            let mut w = World::new();
            for line in scenario.lines() {
                w.op(line);
            }
            let mut f = std::fs::File::create(&args[3]).expect("trace");
            // a generated scenario carries its generator header (family, configuration) as a comment:
            // monitors that only judge certain families see it again when the scenario is replayed
            let header = scenario.lines().find_map(|l| l.strip_prefix("# header: ")).unwrap_or("");
            writeln!(f, "SCENARIO {} {}", args[2], header).unwrap();
            f.write_all(w.trace.as_bytes()).unwrap();
            eprintln!("calls={} panics={}", w.calls, w.panics);
        }
        Some("gen") if args.len() >= 6 => {
            let family = &args[2];
            let seed: u64 = args[3].parse().expect("seed");
            let count: u64 = args[4].parse().expect("count");
            let outdir = &args[5];
            let shard: u64 = args.get(6).map(|s| s.parse().unwrap()).unwrap_or(0);
            let nshards: u64 = args.get(7).map(|s| s.parse().unwrap()).unwrap_or(1);
            std::fs::create_dir_all(outdir).unwrap();
            let mut tf = std::io::BufWriter::new(
                std::fs::File::create(format!("{outdir}/{family}.{shard}.trace")).expect("trace file"),
            );
            let (mut calls, mut panics, mut ops) = (0u64, 0u64, 0u64);
            for i in 0..count {
                if i % nshards != shard {
                    continue;
                }
                let s = mix(seed, family, i);
                let mut g = Gen::new(s, family);
                g.run();
                let name = format!("{family}-{i}");
                let header = format!("seed={s} cfg={:?}", g.cfg);
                std::fs::write(format!("{outdir}/{name}.scn"), format!("# header: {header}\n") + &g.ops.join("\n") + "\n").unwrap();
                writeln!(tf, "SCENARIO {name} {header}").unwrap();
                tf.write_all(g.w.trace.as_bytes()).unwrap();
                calls += g.w.calls;
                panics += g.w.panics;
                ops += g.ops.len() as u64;
            }
            tf.flush().unwrap();
            println!("{{\"family\":\"{family}\",\"shard\":{shard},\"calls\":{calls},\"panics\":{panics},\"ops\":{ops}}}");
        }
        _ => {
            eprintln!("usage: world run <scenario> <trace> | world gen <family> <seed> <count> <outdir> [shard nshards]");
            std::process::exit(2);
        }
    }
}
