//! Codec suite: runs the real `compression::encode/decode` of /repo on generated and enumerated
//! cases and writes one request line and one result line per case.
//!
//! usage: codec <quick|thorough|replay FILE> <outdir> <seed> [shard nshards]
//!
//! Files written: <outdir>/codec.req (requests, flushed before each case is executed, so that the
//! last line names the culprit if the process is killed), <outdir>/codec.impl (results),
//! <outdir>/codec.stats (generator distribution, JSON).
use ggrs::verif_hooks::{codec_decode, codec_encode};
use ggrs_verif_harness::*;
use std::fs::File;
use std::io::{BufRead, BufReader, BufWriter, Write};
use std::panic::{catch_unwind, AssertUnwindSafe};

#[global_allocator]
static A: Counting = Counting;

#[derive(Default)]
struct Stats {
    cases: u64,
    dec_ok: u64,
    dec_err: u64,
    dec_panic: u64,
    enc: u64,
    roundtrip_fail: u64,
    max_alloc: usize,
    max_alloc_case: String,
    empty_inputs: u64,
    varying_len: u64,
    rle_runs: u64,
    mutated: u64,
    exhaustive: u64,
}

struct Out {
    req: BufWriter<File>,
    imp: BufWriter<File>,
    st: Stats,
}

impl Out {
    fn dec(&mut self, reference: &[u8], data: &[u8]) {
        let line = format!("dec {} {}", to_hex(reference), to_hex(data));
        writeln!(self.req, "{line}").unwrap();
        self.req.flush().unwrap();
        self.st.cases += 1;
        let mark = alloc_mark();
        let r = catch_unwind(AssertUnwindSafe(|| codec_decode(reference, data)));
        let peak = alloc_peak_since(mark);
        if peak > self.st.max_alloc {
            self.st.max_alloc = peak;
            self.st.max_alloc_case = line.clone();
        }
        match r {
            Ok(Ok(xs)) => {
                self.st.dec_ok += 1;
                let total: usize = xs.iter().map(|x| x.len()).sum();
                if xs.len() <= 32 && total <= 256 {
                    writeln!(self.imp, "ok {} alloc={}", to_hex_list(&xs), peak).unwrap();
                } else {
                    let mut h: u64 = 14695981039346656037;
                    let mut f = |b: u8| h = (h ^ u64::from(b)).wrapping_mul(1099511628211);
                    for x in &xs {
                        f((x.len() % 256) as u8);
                        f((x.len() / 256 % 256) as u8);
                        for b in x {
                            f(*b);
                        }
                    }
                    writeln!(self.imp, "ok# n={} bytes={} h={:016x} alloc={}", xs.len(), total, h, peak).unwrap();
                }
            }
            Ok(Err(_)) => {
                self.st.dec_err += 1;
                writeln!(self.imp, "err alloc={peak}").unwrap();
            }
            Err(_) => {
                self.st.dec_panic += 1;
                writeln!(self.imp, "PANIC alloc={peak}").unwrap();
            }
        }
    }

    /// encode, record, and feed the encoding back through decode (as its own `dec` case)
    fn enc(&mut self, reference: &[u8], inputs: &[Vec<u8>]) {
        let line = format!("enc {} {}", to_hex(reference), to_hex_list(inputs));
        writeln!(self.req, "{line}").unwrap();
        self.req.flush().unwrap();
        self.st.cases += 1;
        self.st.enc += 1;
        let r = catch_unwind(AssertUnwindSafe(|| codec_encode(reference, inputs)));
        match r {
            Ok(bytes) => {
                writeln!(self.imp, "{}", to_hex(&bytes)).unwrap();
                let back = catch_unwind(AssertUnwindSafe(|| codec_decode(reference, &bytes)));
                let good = matches!(&back, Ok(Ok(xs)) if xs == inputs);
                if !good {
                    self.st.roundtrip_fail += 1;
                }
                self.dec(reference, &bytes);
            }
            Err(_) => {
                writeln!(self.imp, "PANIC").unwrap();
            }
        }
    }
}

fn gen_bytes(rng: &mut Rng, len: usize, style: u64) -> Vec<u8> {
    (0..len)
        .map(|_| match style {
            0 => 0u8,
            1 => 0xFF,
            2 => *rng.pick(&[0u8, 0, 0, 0xFF, 0xFF, 1, 0x80]),
            3 => rng.below(4) as u8,
            _ => rng.next() as u8,
        })
        .collect()
}

fn gen_inputs(rng: &mut Rng, st: &mut Stats) -> (Vec<u8>, Vec<Vec<u8>>) {
    let fixed = rng.chance(2, 3);
    let base_len = *rng.pick(&[0usize, 1, 1, 2, 4, 4, 8, 13, 40, 300]);
    let n = *rng.pick(&[0usize, 1, 1, 2, 3, 5, 8, 17, 40, 129]);
    let reference = {
        let s = rng.below(5);
        let l = if rng.chance(1, 6) { rng.below(9) as usize } else { base_len };
        gen_bytes(rng, l, s)
    };
    let mut xs = Vec::new();
    let mut prev: Vec<u8> = reference.clone();
    for _ in 0..n {
        let len = if fixed { base_len } else { rng.below(2 * base_len as u64 + 2) as usize };
        let x = if rng.chance(1, 3) && prev.len() == len {
            // same as the previous input, maybe one byte changed: produces zero runs after XOR
            let mut y = prev.clone();
            if !y.is_empty() && rng.chance(1, 2) {
                let i = rng.below(y.len() as u64) as usize;
                y[i] ^= 1 << rng.below(8);
            }
            y
        } else {
            let s = rng.below(5);
            gen_bytes(rng, len, s)
        };
        if x.is_empty() {
            st.empty_inputs += 1;
        }
        prev = x.clone();
        xs.push(x);
    }
    if !fixed {
        st.varying_len += 1;
    }
    (reference, xs)
}

fn mutate(rng: &mut Rng, data: &mut Vec<u8>) {
    let k = 1 + rng.below(3);
    for _ in 0..k {
        match rng.below(6) {
            0 if !data.is_empty() => {
                let i = rng.below(data.len() as u64) as usize;
                data[i] ^= 1 << rng.below(8);
            }
            1 if !data.is_empty() => {
                let i = rng.below(data.len() as u64) as usize;
                data[i] = *rng.pick(&[0x00u8, 0x01, 0x03, 0x7F, 0x80, 0xFD, 0xFE, 0xFF]);
            }
            2 if !data.is_empty() => {
                let i = rng.below(data.len() as u64) as usize;
                data.remove(i);
            }
            3 => {
                let i = rng.below(data.len() as u64 + 1) as usize;
                data.insert(i, rng.next() as u8);
            }
            4 if !data.is_empty() => {
                let i = rng.below(data.len() as u64) as usize;
                data.truncate(i);
            }
            _ => {
                // splice in a long varint
                let i = rng.below(data.len() as u64 + 1) as usize;
                let n = 1 + rng.below(11) as usize;
                for j in 0..n {
                    let last = j + 1 == n;
                    let b = (rng.next() as u8 & 0x7F) | if last { 0 } else { 0x80 };
                    data.insert(i + j, b);
                }
            }
        }
    }
}

fn exhaustive(out: &mut Out, maxlen: usize, shard: u64, nshards: u64) {
    let refs: [&[u8]; 2] = [&[], &[0x5a, 0xa5]];
    for len in 0..=maxlen {
        let total: u64 = 256u64.pow(len as u32);
        for v in 0..total {
            if v % nshards != shard {
                continue;
            }
            let mut data = vec![0u8; len];
            let mut x = v;
            for b in data.iter_mut() {
                *b = (x & 0xFF) as u8;
                x >>= 8;
            }
            let r = if len <= 2 { 2 } else { 1 };
            for reference in refs.iter().take(r) {
                out.dec(reference, &data);
                out.st.exhaustive += 1;
            }
        }
    }
}

fn main() {
    let args: Vec<String> = std::env::args().collect();
    if args.len() < 4 {
        eprintln!("usage: codec <quick|thorough|replay FILE> <outdir> <seed> [shard nshards]");
        std::process::exit(2);
    }
    let (mode, rest) = if args[1] == "replay" { ("replay", &args[3..]) } else { (args[1].as_str(), &args[2..]) };
    let outdir = &rest[0];
    let seed: u64 = rest[1].parse().expect("seed");
    let shard: u64 = rest.get(2).map(|s| s.parse().unwrap()).unwrap_or(0);
    let nshards: u64 = rest.get(3).map(|s| s.parse().unwrap()).unwrap_or(1);
    std::fs::create_dir_all(outdir).unwrap();
    let suffix = if nshards > 1 { format!(".{shard}") } else { String::new() };
    let mut out = Out {
        req: BufWriter::new(File::create(format!("{outdir}/codec{suffix}.req")).unwrap()),
        imp: BufWriter::new(File::create(format!("{outdir}/codec{suffix}.impl")).unwrap()),
        st: Stats::default(),
    };
    // silence the default panic message; panics are recorded as results
    std::panic::set_hook(Box::new(|_| {}));

    if mode == "replay" {
        let f = BufReader::new(File::open(&args[2]).expect("replay file"));
        for line in f.lines() {
            let line = line.unwrap();
            let w: Vec<&str> = line.split_whitespace().collect();
            match w.as_slice() {
                ["dec", r, d] => out.dec(&from_hex(r).unwrap(), &from_hex(d).unwrap()),
                ["enc", r, xs] => out.enc(&from_hex(r).unwrap(), &from_hex_list(xs).unwrap()),
                _ => {}
            }
        }
    } else {
        let thorough = mode == "thorough";
        let mut rng = Rng(seed ^ shard.wrapping_mul(0x1234_5678_9ABC_DEF1));
        // 1. exhaustive decoder inputs
        exhaustive(&mut out, if thorough { 3 } else { 2 }, shard, nshards);
        // 2. structured round trips, and decoding of their mutations
        let n = (if thorough { 60_000 } else { 4_000 }) / nshards;
        for _ in 0..n {
            let (reference, xs) = gen_inputs(&mut rng, &mut out.st);
            out.enc(&reference, &xs);
            let enc = codec_encode(&reference, &xs);
            if enc.iter().any(|b| b & 1 == 1) {
                out.st.rle_runs += 1;
            }
            for _ in 0..2 {
                let mut m = enc.clone();
                mutate(&mut rng, &mut m);
                out.st.mutated += 1;
                out.dec(&reference, &m);
            }
        }
        // 3. random short-to-medium garbage with varint-heavy bytes
        let n = (if thorough { 200_000 } else { 10_000 }) / nshards;
        for _ in 0..n {
            let len = 4 + rng.below(12) as usize;
            let data: Vec<u8> = (0..len)
                .map(|_| if rng.chance(1, 2) { *rng.pick(&[0x80u8, 0xFF, 0xFD, 0x01, 0x03, 0x0F, 0x7F, 0x00]) } else { rng.next() as u8 })
                .collect();
            let reference = if rng.chance(1, 2) { vec![] } else { vec![1, 2, 3, 4] };
            out.dec(&reference, &data);
        }
        // 4. the size cap is cumulative: several runs that fit one by one but not together
        if shard == 0 {
            const CAP: u64 = 129 * (2 + u16::MAX as u64);
            let varint = |mut x: u64| {
                let mut v = Vec::new();
                loop {
                    let b = (x & 0x7F) as u8;
                    x >>= 7;
                    if x == 0 { v.push(b); break; }
                    v.push(b | 0x80);
                }
                v
            };
            let fill = |len: u64, ones: bool| varint((len << 2) | 1 | if ones { 2 } else { 0 });
            let reference: Vec<u8> = (0..129u32).map(|i| (i * 7 % 251) as u8).collect();
            let lit: Vec<u8> = { let mut v = varint(129 << 1); v.extend((0..129u32).map(|i| i as u8)); v };
            let cases: Vec<Vec<u8>> = vec![
                [fill(CAP, true), fill(CAP, true)].concat(),
                [fill(CAP, false), fill(129, true)].concat(),
                [fill(CAP - 129, true), fill(258, false)].concat(),
                [fill(CAP / 2 + 1, true), fill(CAP / 2 + 1, true)].concat(),
                [fill(CAP - 258, false), fill(129, true), fill(258, true)].concat(),
                [lit.clone(), fill(CAP, true)].concat(),
                [fill(CAP, true), lit.clone()].concat(),
                [fill(CAP - 129, true), lit.clone(), fill(129, false)].concat(),
            ];
            for c in &cases {
                out.dec(&reference, c);
            }
        }
    }
    out.req.flush().unwrap();
    out.imp.flush().unwrap();
    let s = &out.st;
    let stats = format!(
        "{{\"cases\":{},\"dec_ok\":{},\"dec_err\":{},\"dec_panic\":{},\"enc\":{},\"roundtrip_fail\":{},\"max_alloc\":{},\"max_alloc_case\":\"{}\",\"empty_inputs\":{},\"varying_len_sequences\":{},\"encodings_with_rle_runs\":{},\"mutated\":{},\"exhaustive\":{}}}",
        s.cases, s.dec_ok, s.dec_err, s.dec_panic, s.enc, s.roundtrip_fail, s.max_alloc, s.max_alloc_case, s.empty_inputs, s.varying_len, s.rle_runs, s.mutated, s.exhaustive
    );
    std::fs::write(format!("{outdir}/codec{suffix}.stats"), stats).unwrap();
}
