//! Builder suite (C16): enumerates sequences of SessionBuilder calls over small domains, runs them
//! on the real builder and prints, per sequence, where it was rejected or whether the session
//! started, plus a poll/advance smoke run of every session that started.
//! usage: builder <maxlen> <random-count> <seed> <outfile-prefix>
use ggrs::{DesyncDetection, PlayerType, SessionBuilder, NonBlockingSocket, Message};
use ggrs_verif_harness::world::{CfgR, Game};
use ggrs_verif_harness::Rng;
use std::io::Write;
use std::panic::{catch_unwind, AssertUnwindSafe};

struct NullSocket;
impl NonBlockingSocket<usize> for NullSocket {
    fn send_to(&mut self, _: &Message, _: &usize) {}
    fn receive_all_messages(&mut self) -> Vec<(usize, Message)> { vec![] }
}

const CALLS: &[&str] = &[
    "ap L 0", "ap L 1", "ap L 2", "ap R7 0", "ap R7 1", "ap R8 1", "ap R7 2", "ap S9 1", "ap S9 2", "ap S9 3",
    "np 0", "np 1", "np 2", "np 3", "mp 0", "mp 2", "delay 2", "sparse 1", "dd 0", "dd 3", "fps 0", "fps 30",
    "cd 0", "cd 2", "cd 8", "mfb 0", "mfb 59", "mfb 60", "cs 0", "cs 5",
];
const STARTS: &[&str] = &["p2p", "sync", "spec"];
/// every session that starts is driven this many ticks (sessions with only local players and sync
/// tests advance one frame per tick: more than one wrap of the input ring)
const SMOKE_TICKS: usize = 140;
/// option calls (everything but the player set-up), for the structured stage
const OPTIONS: &[&str] = &["mp 0", "mp 1", "mp 2", "mp 8", "delay 2", "delay 7", "sparse 1", "sparse 0", "dd 0", "dd 3", "fps 30", "cd 0", "cd 1", "cd 2", "mfb 59", "cs 5"];

fn apply(b: SessionBuilder<CfgR>, call: &str) -> Result<SessionBuilder<CfgR>, ()> {
    let w: Vec<&str> = call.split_whitespace().collect();
    let n = |i: usize| w[i].parse::<usize>().unwrap();
    match w[0] {
        "ap" => {
            let t = match &w[1][..1] {
                "L" => PlayerType::Local,
                "R" => PlayerType::Remote(w[1][1..].parse().unwrap()),
                _ => PlayerType::Spectator(w[1][1..].parse().unwrap()),
            };
            b.add_player(t, n(2)).map_err(|_| ())
        }
        "np" => b.with_num_players(n(1)).map_err(|_| ()),
        "mp" => Ok(b.with_max_prediction_window(n(1))),
        "delay" => Ok(b.with_input_delay(n(1))),
        "sparse" => Ok(b.with_sparse_saving_mode(n(1) == 1)),
        "dd" => Ok(b.with_desync_detection_mode(DesyncDetection::On { interval: n(1) as u32 })),
        "fps" => b.with_fps(n(1)).map_err(|_| ()),
        "cd" => Ok(b.with_check_distance(n(1))),
        "mfb" => b.with_max_frames_behind(n(1)).map_err(|_| ()),
        "cs" => b.with_catchup_speed(n(1)).map_err(|_| ()),
        _ => Err(()),
    }
}

fn run_case(calls: &[&str], start: &str) -> String {
    let r = catch_unwind(AssertUnwindSafe(|| {
        let mut b = SessionBuilder::<CfgR>::new();
        let mut locals: Vec<usize> = vec![];
        for (i, c) in calls.iter().enumerate() {
            match apply(b, c) {
                Ok(nb) => {
                    b = nb;
                    if c.starts_with("ap L") {
                        locals.push(c.split_whitespace().nth(2).unwrap().parse().unwrap());
                    }
                }
                Err(()) => return format!("err@{i}"),
            }
        }
        match start {
            "p2p" => match b.start_p2p_session(NullSocket) {
                Ok(mut s) => {
                    // smoke: poll, give inputs, advance past one wrap of the 128-slot input rings
                    let smoke = catch_unwind(AssertUnwindSafe(|| {
                        for _ in 0..SMOKE_TICKS {
                            s.poll_remote_clients();
                            for h in &locals { let _ = s.add_local_input(*h, 1); }
                            let mut g = Game::new();
                            if let Ok(reqs) = s.advance_frame() {
                                for r in reqs {
                                    match r {
                                        ggrs::GgrsRequest::SaveGameState { cell, frame } => cell.save(frame, Some(g.clone()), Some(1)),
                                        ggrs::GgrsRequest::LoadGameState { cell, .. } => { if let Some(x) = cell.load() { g = x; } }
                                        ggrs::GgrsRequest::AdvanceFrame { inputs } => g.step(&inputs),
                                    }
                                }
                            }
                            let _ = s.events().count();
                            let _ = s.network_stats(0);
                            let _ = s.network_stats(1);
                            let _ = s.current_state();
                        }
                    }));
                    if smoke.is_ok() { "start-ok smoke-ok".to_owned() } else { "start-ok smoke-PANIC".to_owned() }
                }
                Err(_) => "start-err".to_owned(),
            },
            "sync" => match b.start_synctest_session() {
                Ok(mut s) => {
                    let np = s.num_players();
                    let smoke = catch_unwind(AssertUnwindSafe(|| {
                        let mut g = Game::new();
                        for _ in 0..SMOKE_TICKS {
                            for h in 0..np { let _ = s.add_local_input(h, 1); }
                            if let Ok(reqs) = s.advance_frame() {
                                for r in reqs {
                                    match r {
                                        ggrs::GgrsRequest::SaveGameState { cell, frame } => cell.save(frame, Some(g.clone()), Some(u128::from(g.acc))),
                                        ggrs::GgrsRequest::LoadGameState { cell, .. } => { if let Some(x) = cell.load() { g = x; } }
                                        ggrs::GgrsRequest::AdvanceFrame { inputs } => g.step(&inputs),
                                    }
                                }
                            }
                        }
                    }));
                    if smoke.is_ok() { "start-ok smoke-ok".to_owned() } else { "start-ok smoke-PANIC".to_owned() }
                }
                Err(_) => "start-err".to_owned(),
            },
            _ => {
                let mut s = b.start_spectator_session(7, NullSocket);
                let smoke = catch_unwind(AssertUnwindSafe(|| {
                    for _ in 0..3 {
                        s.poll_remote_clients();
                        let _ = s.advance_frame();
                        let _ = s.events().count();
                        let _ = s.network_stats();
                        let _ = s.frames_behind_host();
                    }
                }));
                if smoke.is_ok() { "start-ok smoke-ok".to_owned() } else { "start-ok smoke-PANIC".to_owned() }
            }
        }
    }));
    r.unwrap_or_else(|_| "PANIC".to_owned())
}

fn main() {
    let args: Vec<String> = std::env::args().collect();
    let maxlen: usize = args[1].parse().unwrap();
    let nrand: u64 = args[2].parse().unwrap();
    let seed: u64 = args[3].parse().unwrap();
    let prefix = &args[4];
    std::panic::set_hook(Box::new(|_| {}));
    ggrs::verif_hooks::set_clock_us(0);
    let mut req = std::io::BufWriter::new(std::fs::File::create(format!("{prefix}.req")).unwrap());
    let mut imp = std::io::BufWriter::new(std::fs::File::create(format!("{prefix}.impl")).unwrap());
    let mut emit = |calls: &[&str], start: &str| {
        writeln!(req, "B {} | {}", calls.join(";"), start).unwrap();
        writeln!(imp, "{}", run_case(calls, start)).unwrap();
    };
    // exhaustive up to maxlen
    let n = CALLS.len();
    for len in 0..=maxlen {
        let total = n.pow(len as u32);
        for v in 0..total {
            let mut x = v;
            let mut calls = Vec::with_capacity(len);
            for _ in 0..len {
                calls.push(CALLS[x % n]);
                x /= n;
            }
            for s in STARTS {
                emit(&calls, s);
            }
        }
    }
    // structured: a complete all-local player set-up with a few option calls before, between and
    // after it, in random order (the order of builder calls must not matter)
    let mut rng = Rng(seed ^ 0x5EED_B01D);
    for _ in 0..(nrand / 4).max(200) {
        let np = 1 + rng.below(3) as usize;
        let np_call = ["np 1", "np 2", "np 3"][np - 1];
        let mut calls: Vec<&str> = vec![np_call];
        for h in 0..np {
            calls.push(["ap L 0", "ap L 1", "ap L 2"][h]);
        }
        for _ in 0..rng.below(5) {
            let o = *rng.pick(OPTIONS);
            // np must precede the add_player calls it validates; everything else goes anywhere
            let at = 1 + rng.below(calls.len() as u64) as usize;
            if rng.chance(1, 3) { calls.insert(0, o) } else { calls.insert(at, o) }
        }
        let s = if rng.chance(2, 3) { "p2p" } else { "sync" };
        emit(&calls, s);
    }
    // random longer sequences biased towards completing a valid configuration
    let mut rng = Rng(seed);
    for _ in 0..nrand {
        let len = 3 + rng.below(5) as usize;
        let calls: Vec<&str> = (0..len).map(|_| *rng.pick(CALLS)).collect();
        let s = *rng.pick(STARTS);
        emit(&calls, s);
    }
}
