//! Shared pieces of the correspondence harness: PRNG, hex, counting allocator.
pub mod gen;
pub mod msg;
pub mod world;

use std::alloc::{GlobalAlloc, Layout, System};
use std::sync::atomic::{AtomicUsize, Ordering};

/// SplitMix64: every random choice of the harness derives from one state.
pub struct Rng(pub u64);
impl Rng {
    pub fn next(&mut self) -> u64 {
        self.0 = self.0.wrapping_add(0x9E37_79B9_7F4A_7C15);
        let mut z = self.0;
        z = (z ^ (z >> 30)).wrapping_mul(0xBF58_476D_1CE4_E5B9);
        z = (z ^ (z >> 27)).wrapping_mul(0x94D0_49BB_1331_11EB);
        z ^ (z >> 31)
    }
    pub fn below(&mut self, n: u64) -> u64 {
        if n == 0 { 0 } else { self.next() % n }
    }
    pub fn chance(&mut self, num: u64, den: u64) -> bool {
        self.below(den) < num
    }
    pub fn pick<'a, T>(&mut self, xs: &'a [T]) -> &'a T {
        &xs[self.below(xs.len() as u64) as usize]
    }
}

pub fn to_hex(b: &[u8]) -> String {
    if b.is_empty() {
        return "-".to_owned();
    }
    let mut s = String::with_capacity(b.len() * 2);
    for x in b {
        s.push_str(&format!("{x:02x}"));
    }
    s
}

pub fn from_hex(s: &str) -> Option<Vec<u8>> {
    if s == "-" {
        return Some(Vec::new());
    }
    if s.len() % 2 != 0 {
        return None;
    }
    (0..s.len() / 2)
        .map(|i| u8::from_str_radix(&s[2 * i..2 * i + 2], 16).ok())
        .collect()
}

pub fn to_hex_list(xs: &[Vec<u8>]) -> String {
    if xs.is_empty() {
        return "_".to_owned();
    }
    xs.iter().map(|x| to_hex(x)).collect::<Vec<_>>().join(",")
}

pub fn from_hex_list(s: &str) -> Option<Vec<Vec<u8>>> {
    if s == "_" {
        return Some(Vec::new());
    }
    s.split(',').map(from_hex).collect()
}

/// Global allocator that tracks live and peak bytes.
pub struct Counting;
static LIVE: AtomicUsize = AtomicUsize::new(0);
static PEAK: AtomicUsize = AtomicUsize::new(0);

unsafe impl GlobalAlloc for Counting {
    unsafe fn alloc(&self, l: Layout) -> *mut u8 {
        let p = System.alloc(l);
        if !p.is_null() {
            let now = LIVE.fetch_add(l.size(), Ordering::Relaxed) + l.size();
            PEAK.fetch_max(now, Ordering::Relaxed);
        }
        p
    }
    unsafe fn dealloc(&self, p: *mut u8, l: Layout) {
        LIVE.fetch_sub(l.size(), Ordering::Relaxed);
        System.dealloc(p, l)
    }
    unsafe fn realloc(&self, p: *mut u8, l: Layout, new: usize) -> *mut u8 {
        let q = System.realloc(p, l, new);
        if !q.is_null() {
            if new >= l.size() {
                let now = LIVE.fetch_add(new - l.size(), Ordering::Relaxed) + (new - l.size());
                PEAK.fetch_max(now, Ordering::Relaxed);
            } else {
                LIVE.fetch_sub(l.size() - new, Ordering::Relaxed);
            }
        }
        q
    }
}

/// Resets the peak to the current live size and returns the live size.
pub fn alloc_mark() -> usize {
    let live = LIVE.load(Ordering::Relaxed);
    PEAK.store(live, Ordering::Relaxed);
    live
}

/// Peak bytes above `mark` since `alloc_mark`.
pub fn alloc_peak_since(mark: usize) -> usize {
    PEAK.load(Ordering::Relaxed).saturating_sub(mark)
}
