//! Mirror of ggrs's wire messages (fields of `ggrs::Message` are crate-private; the serde layout is
//! public via bincode) and their canonical text form used in traces.
use crate::{from_hex, to_hex};
use serde::{Deserialize, Serialize};

#[derive(Copy, Clone, Debug, PartialEq, Eq, Serialize, Deserialize)]
pub struct ConnStatus {
    pub disconnected: bool,
    pub last_frame: i32,
}

#[derive(Clone, Debug, PartialEq, Eq, Serialize, Deserialize)]
pub struct InputBody {
    pub peer_connect_status: Vec<ConnStatus>,
    pub disconnect_requested: bool,
    pub start_frame: i32,
    pub ack_frame: i32,
    pub bytes: Vec<u8>,
}

#[derive(Clone, Debug, PartialEq, Eq, Serialize, Deserialize)]
pub enum Body {
    SyncRequest { random_request: u32 },
    SyncReply { random_reply: u32 },
    Input(InputBody),
    InputAck { ack_frame: i32 },
    QualityReport { frame_advantage: i16, ping: u128 },
    QualityReply { pong: u128 },
    ChecksumReport { checksum: u128, frame: i32 },
    KeepAlive,
}

#[derive(Clone, Debug, PartialEq, Eq, Serialize, Deserialize)]
pub struct Header {
    pub magic: u16,
}

#[derive(Clone, Debug, PartialEq, Eq, Serialize, Deserialize)]
pub struct Msg {
    pub header: Header,
    pub body: Body,
}

impl Msg {
    pub fn from_ggrs(m: &ggrs::Message) -> Msg {
        let b = bincode::serialize(m).expect("serialize ggrs message");
        bincode::deserialize(&b).expect("mirror layout out of date")
    }
    pub fn to_ggrs(&self) -> ggrs::Message {
        let b = bincode::serialize(self).expect("serialize mirror message");
        bincode::deserialize(&b).expect("mirror layout out of date")
    }

    pub fn text(&self) -> String {
        let m = self.header.magic;
        match &self.body {
            Body::SyncRequest { random_request } => format!("{m} SyncRequest {random_request}"),
            Body::SyncReply { random_reply } => format!("{m} SyncReply {random_reply}"),
            Body::Input(i) => {
                let st = if i.peer_connect_status.is_empty() {
                    "_".to_owned()
                } else {
                    i.peer_connect_status
                        .iter()
                        .map(|c| format!("{}:{}", u8::from(c.disconnected), c.last_frame))
                        .collect::<Vec<_>>()
                        .join(",")
                };
                format!(
                    "{m} Input {} {} {} {} {}",
                    u8::from(i.disconnect_requested),
                    i.start_frame,
                    i.ack_frame,
                    st,
                    to_hex(&i.bytes)
                )
            }
            Body::InputAck { ack_frame } => format!("{m} InputAck {ack_frame}"),
            Body::QualityReport { frame_advantage, ping } => format!("{m} QualityReport {frame_advantage} {ping}"),
            Body::QualityReply { pong } => format!("{m} QualityReply {pong}"),
            Body::ChecksumReport { checksum, frame } => format!("{m} ChecksumReport {checksum} {frame}"),
            Body::KeepAlive => format!("{m} KeepAlive"),
        }
    }

    pub fn parse(words: &[&str]) -> Option<Msg> {
        let magic: u16 = words.first()?.parse().ok()?;
        let body = match *words.get(1)? {
            "SyncRequest" => Body::SyncRequest { random_request: words.get(2)?.parse().ok()? },
            "SyncReply" => Body::SyncReply { random_reply: words.get(2)?.parse().ok()? },
            "Input" => {
                let st = *words.get(5)?;
                let peer_connect_status = if st == "_" {
                    vec![]
                } else {
                    st.split(',')
                        .map(|p| {
                            let (d, f) = p.split_once(':')?;
                            Some(ConnStatus { disconnected: d == "1", last_frame: f.parse().ok()? })
                        })
                        .collect::<Option<Vec<_>>>()?
                };
                Body::Input(InputBody {
                    peer_connect_status,
                    disconnect_requested: *words.get(2)? == "1",
                    start_frame: words.get(3)?.parse().ok()?,
                    ack_frame: words.get(4)?.parse().ok()?,
                    bytes: from_hex(words.get(6)?)?,
                })
            }
            "InputAck" => Body::InputAck { ack_frame: words.get(2)?.parse().ok()? },
            "QualityReport" => Body::QualityReport {
                frame_advantage: words.get(2)?.parse().ok()?,
                ping: words.get(3)?.parse().ok()?,
            },
            "QualityReply" => Body::QualityReply { pong: words.get(2)?.parse().ok()? },
            "ChecksumReport" => Body::ChecksumReport {
                checksum: words.get(2)?.parse().ok()?,
                frame: words.get(3)?.parse().ok()?,
            },
            "KeepAlive" => Body::KeepAlive,
            _ => return None,
        };
        Some(Msg { header: Header { magic }, body })
    }
}
