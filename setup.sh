#!/bin/sh
# MANIFEST.setup_cmd: build the framework from files on disk only (offline).
set -e
cd "$(dirname "$0")"
export CARGO_NET_OFFLINE=true CARGO_TARGET_DIR="$PWD/.cache/target"
python3 tools/extract_consts.py
python3 tools/extract_shapes.py
python3 tools/extract_sites.py
(cd lean && lake build GgrsModel ggrs_model)
[ -f harness/Cargo.lock ] || cp /repo/Cargo.lock harness/Cargo.lock
(cd harness && cargo build --offline --quiet --bins)
echo "setup ok"
