#!/usr/bin/env python3
"""Runs the registered quick check(s) against every seeded change in /verif/seeded/*/ (applied to
/repo, undone straight afterwards) and records the outcome in meta.json.
usage: seed_eval.py [seed-id ...]"""
import json, os, subprocess, sys, time
VERIF = os.path.dirname(os.path.dirname(os.path.abspath(__file__)))
SEEDED = os.path.join(VERIF, "seeded")

def sh(cmd, **kw):
    return subprocess.run(cmd, shell=True, capture_output=True, text=True, **kw)

def main():
    ids = sys.argv[1:] or sorted(d for d in os.listdir(SEEDED) if os.path.isdir(os.path.join(SEEDED, d)))
    for sid in ids:
        d = os.path.join(SEEDED, sid)
        prop = sid.split("-")[0]
        patch = os.path.join(d, "patch.diff")
        if sh("git -C /repo status --porcelain -- src Cargo.toml").stdout.strip():
            print("refusing: /repo is dirty"); sys.exit(2)
        a = sh(f"git -C /repo apply {patch}")
        applied = a.returncode == 0
        res = {"seed": sid, "property": prop, "patch_applies_to_current_head": applied}
        if applied:
            t0 = time.time()
            r = sh(f"cd {VERIF} && ./check {prop} quick")
            res["check_cmd"] = f"./check {prop} quick"
            res["check_exit"] = r.returncode
            res["check_wall_s"] = round(time.time() - t0, 1)
            res["violation_lines"] = [l for l in r.stdout.splitlines() if l.startswith("VIOLATION")]
            res["caught"] = r.returncode == 1 and any(l.startswith("VIOLATION") for l in r.stdout.splitlines())
            # keep the replay summary
            res["replays"] = []
            for l in res["violation_lines"]:
                p = l.split("replay=")[1].split()[0]
                if os.path.exists(p):
                    res["replays"].append(open(p).read().splitlines()[:3])
        sh("git -C /repo checkout -- .")
        meta_path = os.path.join(d, "meta.json")
        meta = json.load(open(meta_path)) if os.path.exists(meta_path) else {}
        meta.update({"breaks_property": prop, "evaluation": res,
                     "what_i_ran": "tools/seed_verify.sh in a scratch worktree (suite green + demo fails with the change, demo passes without: verify.log), then tools/seed_eval.py (patch applied to /repo, ./check quick, git checkout)"})
        sm = os.path.join(d, "SEEDED.md")
        if os.path.exists(sm) and "needs_to_manifest" not in meta:
            meta["needs_to_manifest"] = "see SEEDED.md (written by the seeding agent)"
        json.dump(meta, open(meta_path, "w"), indent=1)
        print(sid, "applies" if applied else "DOES-NOT-APPLY", "caught" if res.get("caught") else "MISSED", res.get("violation_lines", [])[:2], flush=True)

if __name__ == "__main__":
    main()
