#!/bin/bash
# usage: tools/replay.sh <Cxx> <replay file>
# Replays a violation file on the implementation built from /repo's working tree and shows the
# model's / monitor's verdict next to it. The kind of replay is recognised from the file.
set -u
cd "$(dirname "$0")/.."
P=$1; F=$2
BIN=.cache/target/debug
MODEL=lean/.lake/build/bin/ggrs_model
mkdir -p .cache/replay
(cd harness && CARGO_TARGET_DIR=../.cache/target CARGO_NET_OFFLINE=true cargo build --offline --quiet --bin world --bin codec --bin builder) || exit 2
(cd lean && lake build ggrs_model >/dev/null) || exit 2
if grep -qE '^(dec|enc) ' "$F"; then
  rm -rf .cache/replay/codec; $BIN/codec replay "$F" .cache/replay/codec 1
  $MODEL codec < .cache/replay/codec/codec.req > .cache/replay/codec/codec.model
  paste -d'\n' .cache/replay/codec/codec.req .cache/replay/codec/codec.impl .cache/replay/codec/codec.model | cut -c1-300
elif grep -qE '^B ' "$F"; then
  echo "builder call sequence (format: B call;call;... | start): see the '# impl' / '# documented (model)' lines in the file;"
  echo "re-run the suite with: ./check C16 quick"
  grep -E '^(B |# )' "$F"
elif grep -qE '^new (p2p|spec|sync) ' "$F"; then
  GGRS_VERIF_SHOW_PANICS=1 $BIN/world run "$F" .cache/replay/trace.txt
  $MODEL monitor "$P" < .cache/replay/trace.txt | grep -E 'FINDING|SUMMARY'
  $MODEL accept < .cache/replay/trace.txt | grep -E 'MISMATCH|SUMMARY' | cut -c1-400
else
  echo "no executable replay in this file (a proof obligation or the correspondence broke without a failing input):"
  head -40 "$F"
fi
