#!/usr/bin/env python3
"""Cross product exploration: every monitor on every family. usage: sweep.py <count> <seed> [families...]"""
import os, re, subprocess, sys, collections, shutil
from concurrent.futures import ThreadPoolExecutor
VERIF = os.path.dirname(os.path.dirname(os.path.abspath(__file__)))
WORLD = os.path.join(VERIF, ".cache/target/debug/world"); MODEL = os.path.join(VERIF, "lean/.lake/build/bin/ggrs_model")
FAMS = "mix clean long lockstep loss hsloss specack spec specdeath specdisc solo zombie death death3 three disc delay desync glitch forge misuse idle timesync events sync syncglitch".split()
PROPS = ",".join(f"C{i:02d}" for i in range(1, 19) if i not in (14, 16, 17))
def main():
    count, seed = int(sys.argv[1]), int(sys.argv[2])
    fams = sys.argv[3:] or FAMS
    out = "/scratch/sweep"; shutil.rmtree(out, ignore_errors=True); os.makedirs(out)
    nsh = 16
    finds = collections.Counter(); mism = collections.Counter(); examples = {}
    for fam in fams:
        n = max(2, count // (20 if fam in ("long", "events") else 1))
        def one(sh):
            subprocess.run([WORLD, "gen", fam, str(seed), str(n), out, str(sh), str(nsh)], capture_output=True)
            tr = f"{out}/{fam}.{sh}.trace"
            if not os.path.exists(tr): return "", ""
            a = subprocess.run([MODEL, "accept"], stdin=open(tr), capture_output=True, text=True).stdout
            m = subprocess.run([MODEL, "monitor", PROPS], stdin=open(tr), capture_output=True, text=True).stdout
            os.remove(tr)
            return a, m
        with ThreadPoolExecutor(16) as ex:
            res = list(ex.map(one, range(nsh)))
        for a, m in res:
            for l in a.splitlines():
                mm = re.match(r"MISMATCH scenario=(\S+) .* class=(\S+)", l)
                if mm: mism[(fam, mm.group(2))] += 1; examples.setdefault(("MIS", fam, mm.group(2)), l[:300])
            for l in m.splitlines():
                mm = re.match(r"FINDING property=(\S+) clause=(\S+) scenario=(\S+)", l)
                if mm: finds[(fam, mm.group(1), mm.group(2))] += 1; examples.setdefault((fam, mm.group(1), mm.group(2)), l[:300])
        print(f"{fam}: done", flush=True)
    print("== findings"); [print(k, v, "\n   ", examples[k]) for k, v in sorted(finds.items())]
    print("== mismatches"); [print(k, v, "\n   ", examples[("MIS",) + k]) for k, v in sorted(mism.items())]
main()
