"""Shared machinery of the checks: builds, audits, evidence, violation reporting."""
import json, os, re, subprocess, sys, time, hashlib, shutil

VERIF = os.path.dirname(os.path.dirname(os.path.abspath(__file__)))
REPO = "/repo"
LEAN = os.path.join(VERIF, "lean")
HARNESS = os.path.join(VERIF, "harness")
CACHE = os.path.join(VERIF, ".cache")
TARGET = os.path.join(CACHE, "target")
BIN = os.path.join(TARGET, "debug")
MODEL = os.path.join(LEAN, ".lake", "build", "bin", "ggrs_model")
ALLOWED_AXIOMS = {"propext", "Classical.choice", "Quot.sound"}
FORBIDDEN = re.compile(r"sorry|admit|^axiom |native_decide|bv_decide|implemented_by|unsafe |maxHeartbeats 0|csimp|extern ")
NCPU = os.cpu_count() or 4

ENV = dict(os.environ)
ENV["CARGO_NET_OFFLINE"] = "true"
ENV["CARGO_TARGET_DIR"] = TARGET


class Ctx:
    """One check run for one property."""

    def __init__(self, pid, tier, seed):
        self.pid, self.tier, self.seed = pid, tier, seed
        self.t0 = time.time()
        self.violations = []      # (replay_path, text, found_input: bool)
        self.known = []           # KNOWN-FINDING lines
        self.cov = {}
        self.assumptions = []
        self.rundir = os.path.join(CACHE, "run", f"{pid}-{tier}")
        shutil.rmtree(self.rundir, ignore_errors=True)
        os.makedirs(self.rundir, exist_ok=True)
        os.makedirs(os.path.join(VERIF, "replays"), exist_ok=True)
        for f in os.listdir(os.path.join(VERIF, "replays")):
            if f.startswith(pid + "-"):
                os.remove(os.path.join(VERIF, "replays", f))
        os.makedirs(os.path.join(VERIF, "evidence"), exist_ok=True)

    def log(self, *a):
        print(f"[{self.pid} {time.time()-self.t0:6.1f}s]", *a, flush=True)

    # ---- violations -------------------------------------------------------------------
    def violation(self, name, text, found_input=True):
        """Writes a replay file and remembers the violation."""
        path = os.path.join(VERIF, "replays", f"{self.pid}-{name}.txt")
        if any(p == path for p, _ in self.violations):
            return path
        with open(path, "w") as f:
            f.write(text if text.endswith("\n") else text + "\n")
        self.violations.append((path, found_input))
        return path

    def finish(self, level="proof"):
        ev = {
            "property_id": self.pid,
            "tier": self.tier,
            "seed": self.seed,
            "level": level,
            "coverage": self.cov,
            "assumptions": self.assumptions,
            "wall_s": round(time.time() - self.t0, 2),
            "violations": len(self.violations),
        }
        with open(os.path.join(VERIF, "evidence", f"{self.pid}.json"), "w") as f:
            json.dump(ev, f, indent=1)
        for k in self.known:
            print(k)
        # the generated scenarios and traces are scratch (a thorough campaign writes gigabytes);
        # what a violation needs is in replays/
        if not os.environ.get("VERIF_KEEP_RUN"):
            shutil.rmtree(self.rundir, ignore_errors=True)
        if self.violations:
            for path, found in self.violations:
                tail = "" if found else " no-failing-input-found"
                print(f"VIOLATION property={self.pid} replay={path}{tail}")
            sys.exit(1)
        self.log("ok")
        sys.exit(0)


def run(cmd, cwd=None, timeout=None, env=None, stdin=None, stdout=None):
    return subprocess.run(cmd, cwd=cwd, timeout=timeout, env=env or ENV, stdin=stdin,
                          stdout=stdout if stdout is not None else subprocess.PIPE,
                          stderr=subprocess.STDOUT if stdout is None else subprocess.PIPE, text=True)


# ---- the tie, part 1: constants regenerated from the source -----------------------------
def regen_consts(ctx):
    """Regenerates Generated/Consts.lean (constants) and Generated/Shapes.lean (field and variant
    names of the modelled types) and Generated/Sites.lean (functions and explicit panic sites of the
    modelled files) from /repo's current source."""
    outs = []
    for script in ("extract_consts.py", "extract_shapes.py", "extract_sites.py"):
        r = run([sys.executable, os.path.join(VERIF, "tools", script)])
        outs.append(r.stdout)
        if r.returncode != 0:
            ctx.log(f"{script} failed:", r.stdout.strip())
            return False, "".join(outs)
    return True, "".join(outs)


# ---- Lean side --------------------------------------------------------------------------
def lake_build(targets, ctx=None):
    r = run(["lake", "build"] + targets, cwd=LEAN)
    return r.returncode == 0, r.stdout


def module_file(mod):
    return os.path.join(LEAN, mod.replace(".", "/") + ".lean")


def import_closure(mod, seen=None):
    """GgrsModel.* modules reachable from `mod` (file scan of import lines)."""
    seen = seen if seen is not None else []
    if mod in seen or not mod.startswith("GgrsModel"):
        return seen
    path = module_file(mod)
    if not os.path.exists(path):
        return seen
    seen.append(mod)
    for line in open(path):
        m = re.match(r"\s*import\s+(\S+)", line)
        if m:
            import_closure(m.group(1), seen)
    return seen


def strip_comments(src):
    src = re.sub(r"/-.*?-/", "", src, flags=re.S)
    return re.sub(r"--.*", "", src)


def theorems_in(mod):
    """Fully qualified theorem names declared in a module (namespace tracking by regex)."""
    src = strip_comments(open(module_file(mod)).read())
    ns, out = [], []
    for line in src.splitlines():
        m = re.match(r"\s*namespace\s+(\S+)", line)
        if m:
            ns.append(m.group(1)); continue
        m = re.match(r"\s*end\s+(\S+)", line)
        if m and ns and ns[-1] == m.group(1):
            ns.pop(); continue
        m = re.match(r"\s*(?:@\[[^\]]*\]\s*)?(?:private\s+|protected\s+)?theorem\s+([^\s:({\[]+)", line)
        if m:
            out.append(".".join(ns + [m.group(1)]))
    return out


def audit(ctx, prop_mod):
    """Builds the property module, checks the closure for forbidden constructs and the axioms of
    every property theorem. Returns (ok, report dict)."""
    rep = {"module": prop_mod}
    ok, out = lake_build([prop_mod])
    rep["build_ok"] = ok
    if not ok:
        rep["build_output"] = out[-4000:]
        return False, rep
    closure = import_closure(prop_mod)
    rep["closure"] = closure
    bad = []
    nthm = 0
    for mod in closure:
        src = strip_comments(open(module_file(mod)).read())
        for i, line in enumerate(src.splitlines()):
            if FORBIDDEN.search(line):
                bad.append(f"{mod}:{i+1}: {line.strip()}")
        if ".Proofs." in mod or ".Properties." in mod:
            nthm += len(theorems_in(mod))
    rep["forbidden"] = bad
    rep["theorems_in_closure"] = nthm
    thms = theorems_in(prop_mod)
    rep["property_theorems"] = thms
    audit_dir = os.path.join(CACHE, "audit")
    os.makedirs(audit_dir, exist_ok=True)
    af = os.path.join(audit_dir, prop_mod.split(".")[-1] + ".lean")
    with open(af, "w") as f:
        f.write(f"import {prop_mod}\n")
        for t in thms:
            f.write(f"#print axioms {t}\n")
    r = run(["lake", "env", "lean", af], cwd=LEAN)
    rep["axioms"] = {}
    cur = None
    text = r.stdout
    # output: "'name' depends on axioms: [a, b]" or "'name' does not depend on any axioms"
    for m in re.finditer(r"'([^']+)' (?:depends on axioms: \[([^\]]*)\]|does not depend on any axioms)", text, re.S):
        axs = [a.strip() for a in (m.group(2) or "").replace("\n", " ").split(",") if a.strip()]
        rep["axioms"][m.group(1)] = axs
    bad_ax = {t: [a for a in axs if a not in ALLOWED_AXIOMS] for t, axs in rep["axioms"].items()}
    bad_ax = {t: a for t, a in bad_ax.items() if a}
    missing = [t for t in thms if t not in rep["axioms"]]
    rep["bad_axioms"] = bad_ax
    rep["audit_missing"] = missing
    ok = r.returncode == 0 and not bad and not bad_ax and not missing and len(thms) > 0
    if not ok:
        rep["audit_output"] = text[-3000:]
    return ok, rep


def leanchecker(mods):
    r = run(["lake", "env", "leanchecker"] + mods, cwd=LEAN)
    return r.returncode == 0, r.stdout


def build_driver(ctx):
    ok, out = lake_build(["ggrs_model"])
    if not ok:
        ctx.log("driver build failed\n" + out[-3000:])
    return ok, out


# ---- Rust side --------------------------------------------------------------------------
def build_harness(ctx, bins):
    """Builds the harness against /repo's current working tree (cargo sees every edit)."""
    lock_src = os.path.join(REPO, "Cargo.lock")
    lock_dst = os.path.join(HARNESS, "Cargo.lock")
    if os.path.exists(lock_src) and not os.path.exists(lock_dst):
        shutil.copy(lock_src, lock_dst)
    cmd = ["cargo", "build", "--offline", "--quiet"]
    for b in bins:
        cmd += ["--bin", b]
    r = run(cmd, cwd=HARNESS)
    if r.returncode != 0:
        ctx.log("harness build failed\n" + r.stdout[-3000:])
    return r.returncode == 0, r.stdout


def repo_state():
    """Identifies the tree the check ran against."""
    head = run(["git", "-C", REPO, "rev-parse", "HEAD"]).stdout.strip()
    diff = run(["git", "-C", REPO, "diff", "HEAD", "--", "src", "Cargo.toml"]).stdout
    return {"head": head, "dirty_sha": hashlib.sha256(diff.encode()).hexdigest()[:12] if diff else None}


# ---- known findings ---------------------------------------------------------------------
def known_findings(pid):
    path = os.path.join(VERIF, "KNOWN_FINDINGS.txt")
    out = []
    if not os.path.exists(path):
        return out
    for line in open(path):
        line = line.strip()
        if not line or line.startswith("#"):
            continue
        m = re.match(r"known: property=(\S+) clause=(\S+) trigger=(\S+) replay=(\S+) :: (.*)", line)
        if m and m.group(1) == pid:
            out.append({"clause": m.group(2), "trigger": m.group(3), "replay": m.group(4), "what": m.group(5)})
    return out


TRUSTED_BASE = [
    "Lean 4.33.0 kernel (elaborated proofs; thorough tier re-checks the .olean files with leanchecker)",
    "axioms per theorem audited by `#print axioms`: subset of {propext, Classical.choice, Quot.sound}",
    "Lean compiler/runtime for the executable use of the model (driver, monitors)",
    "tools/extract_consts.py, tools/extract_shapes.py and tools/extract_sites.py (constants, the field/variant names of the modelled types, and the functions with their explicit panic sites of the modelled files, regenerated from /repo on every run; Model/Inventory.lean and Model/SiteInventory.lean must still compile against them)",
    "the Rust correspondence harness and the comparison scripts in tools/",
]
