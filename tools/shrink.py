#!/usr/bin/env python3
"""Delta-debugging of a scenario: removes ops while the monitor of <prop> still reports <clause>.

usage: shrink.py <scenario.scn> <prop> <clause> <out.scn>
The implementation is re-run on every candidate (`world run`), the monitor judges its trace.
"""
import os, subprocess, sys, tempfile
HERE = os.path.dirname(os.path.abspath(__file__))
VERIF = os.path.dirname(HERE)
WORLD = os.path.join(VERIF, ".cache", "target", "debug", "world")
MODEL = os.path.join(VERIF, "lean", ".lake", "build", "bin", "ggrs_model")


def fails(lines, prop, clause, tmpdir):
    scn = os.path.join(tmpdir, "cand.scn")
    tr = os.path.join(tmpdir, "cand.trace")
    with open(scn, "w") as f:
        f.write("\n".join(lines) + "\n")
    try:
        subprocess.run([WORLD, "run", scn, tr], capture_output=True, timeout=120)
        with open(tr) as f:
            m = subprocess.run([MODEL, "monitor", prop], stdin=f, capture_output=True, text=True, timeout=120)
    except Exception:
        return False
    return any(f"clause={clause} " in l for l in m.stdout.splitlines() if l.startswith("FINDING"))


def shrink(lines, prop, clause, budget_s=240):
    import time
    t0 = time.time()
    tmpdir = tempfile.mkdtemp(prefix="shrink", dir=os.path.join(VERIF, ".cache"))
    fixed = [l for l in lines if l.startswith("new ") or l.startswith("glitch ")]
    ops = [l for l in lines if l.strip() and not l.startswith("#") and l not in fixed]
    if not fails(fixed + ops, prop, clause, tmpdir):
        return None
    # first try cutting the tail (findings usually need a prefix only)
    lo, hi = 0, len(ops)
    while hi - lo > 8 and time.time() - t0 < budget_s / 3:
        mid = (lo + hi) // 2
        if fails(fixed + ops[:mid], prop, clause, tmpdir):
            hi = mid
        else:
            lo = mid
    ops = ops[:hi]
    n = 2
    while len(ops) >= 2 and time.time() - t0 < budget_s:
        chunk = max(1, len(ops) // n)
        removed = False
        i = 0
        while i < len(ops) and time.time() - t0 < budget_s:
            cand = ops[:i] + ops[i + chunk:]
            if cand and fails(fixed + cand, prop, clause, tmpdir):
                ops = cand
                removed = True
            else:
                i += chunk
        if not removed:
            if chunk == 1:
                break
            n = min(len(ops), n * 2)
    return fixed + ops


if __name__ == "__main__":
    src, prop, clause, out = sys.argv[1:5]
    lines = [l for l in open(src).read().splitlines() if not l.startswith("#")]
    res = shrink(lines, prop, clause)
    if res is None:
        print("does not fail"); sys.exit(1)
    open(out, "w").write("\n".join(res) + "\n")
    print(f"{len(lines)} -> {len(res)} ops")
