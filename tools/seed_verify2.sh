#!/bin/bash
# usage: seed_verify2.sh <agent-worktree> <seed-id>
# Confirms a seeded change independently of the agent's own worktree state: a FRESH scratch worktree
# of /repo HEAD gets the agent's patch.diff and demonstration; (1) with the change the pinned suite
# is green and the demonstration fails, (2) without it the demonstration passes. Artifacts are
# copied to /verif/seeded/<seed-id>/; the fresh worktree is removed afterwards.
set -u
SRC=$1; ID=$2
OUT=/verif/seeded/$ID
WT=/tmp/vfy-$ID
mkdir -p $OUT
cp $SRC/_seed/patch.diff $OUT/patch.diff
cp $SRC/_seed/SEEDED.md $OUT/SEEDED.md 2>/dev/null
cp $SRC/_seed/seed_demo.rs $OUT/seed_demo.rs
git -C /repo worktree add --detach $WT HEAD >/dev/null 2>&1 || exit 2
cd $WT || exit 2
export CARGO_NET_OFFLINE=true
FEAT=""
grep -q "verif_hooks" $OUT/seed_demo.rs && FEAT="--features verif-hooks"
{
echo "== patch applies to a clean checkout =="
git apply $OUT/patch.diff && echo applied
echo "== with the change: pinned suite (no demo present) =="
cargo test --workspace --offline --no-fail-fast 2>&1 | grep -E "^test result|FAILED|panicked"
cp $OUT/seed_demo.rs tests/seed_demo.rs
echo "== with the change: demonstration ($FEAT) =="
cargo test --offline $FEAT --test seed_demo 2>&1 | grep -E "^test result|FAILED|panicked" | head -12
echo "== without the change: demonstration =="
git apply -R $OUT/patch.diff
cargo test --offline $FEAT --test seed_demo 2>&1 | grep -E "^test result|FAILED|panicked" | head -12
} > $OUT/verify.log 2>&1
cd /; git -C /repo worktree remove --force $WT
echo done $ID
