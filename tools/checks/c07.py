from . import session

FAMILIES = [('death', 1.0), ('disc', 0.8), ('zombie', 0.4), ('specdisc', 0.3)]

def main(ctx):
    session.run(ctx, "C07", FAMILIES, quick_count=100, thorough_count=4000, prop_mod=session.PROP_MODS.get("C07"))
