"""C14 — codec round trip and decoder totality.

Proof: Properties/C14.lean (round trip for every reference and input sequence under the cap;
totality: no panic site reachable, output bounded). Tie: constants regenerated; codec suite runs
the real encode/decode and the compiled Lean model on the same request lines and compares.
"""
import os, re, resource, subprocess, json
from concurrent.futures import ThreadPoolExecutor
from .. import vlib as V

PROP_MOD = "GgrsModel.Properties.C14"
AS_LIMIT = 3 << 30


def _limit():
    resource.setrlimit(resource.RLIMIT_AS, (AS_LIMIT, AS_LIMIT))


def run_codec_suite(ctx, mode_args, tag, nshards):
    """Runs harness + model on `nshards` shards. Returns dict with stats and findings."""
    res = {"cases": 0, "mismatch": [], "panic": [], "crash": [], "rt_fail": 0, "alloc_over": [],
           "stats": [], "nontrivial": set(), "samples": []}
    max_decoded = int(re.search(r"def MAX_DECODED_BYTES : Nat := (\d+)",
                                open(os.path.join(V.LEAN, "GgrsModel/Generated/Consts.lean")).read()).group(1))
    alloc_bound = 32 * max_decoded + (1 << 20)
    res["alloc_bound"] = alloc_bound
    outdir = os.path.join(ctx.rundir, tag)
    os.makedirs(outdir, exist_ok=True)

    def one(shard):
        suffix = f".{shard}" if nshards > 1 else ""
        cmd = [os.path.join(V.BIN, "codec")] + mode_args + [outdir, str(ctx.seed)]
        if nshards > 1:
            cmd += [str(shard), str(nshards)]
        try:
            p = subprocess.run(cmd, preexec_fn=_limit, capture_output=True, text=True,
                               timeout=240 if ctx.tier == "quick" else 3600)
            rc, err = p.returncode, p.stderr[-500:]
        except subprocess.TimeoutExpired:
            rc, err = -999, "timeout: the decoder did not finish its cases in time"
        req = os.path.join(outdir, f"codec{suffix}.req")
        imp = os.path.join(outdir, f"codec{suffix}.impl")
        mod = os.path.join(outdir, f"codec{suffix}.model")
        with open(req) as fi, open(mod, "w") as fo:
            subprocess.run([V.MODEL, "codec"], stdin=fi, stdout=fo, check=False)
        return shard, rc, err, req, imp, mod

    with ThreadPoolExecutor(max_workers=V.NCPU) as ex:
        results = list(ex.map(one, range(nshards)))

    for shard, rc, err, req, imp, mod in results:
        reqs = open(req).read().splitlines()
        imps = open(imp).read().splitlines()
        mods = open(mod).read().splitlines()
        if rc != 0:
            # the harness died (abort on allocation failure, stack overflow, ...): the last
            # request line is the case in flight
            culprit = reqs[len(imps)] if len(imps) < len(reqs) else (reqs[-1] if reqs else "?")
            res["crash"].append((culprit, f"harness exit code {rc}: {err.strip()[-200:]}"))
        n = min(len(reqs), len(imps))
        for i in range(n):
            rq, im = reqs[i], imps[i]
            md = mods[i] if i < len(mods) else "<model produced no line>"
            m = re.search(r" alloc=(\d+)$", im)
            alloc = int(m.group(1)) if m else 0
            im_core = im[:m.start()] if m else im
            res["cases"] += 1
            if im_core.startswith("PANIC"):
                res["panic"].append((rq, im_core, md))
            elif im_core != md:
                res["mismatch"].append((rq, im_core, md))
            if alloc > alloc_bound:
                res["alloc_over"].append((rq, alloc))
            if rq.startswith("enc") or im_core.startswith("ok") or (im_core == "err" and len(rq.split()[-1]) >= 4):
                if not (rq.startswith("enc") and rq.endswith(" _")):
                    res["nontrivial"].add(rq)
            if len(res["samples"]) < 6 and i % 9973 == 17:
                res["samples"].append({"request": rq[:200], "impl": im_core[:120], "model": md[:120]})
        st = os.path.join(os.path.dirname(req), os.path.basename(req).replace(".req", ".stats"))
        if os.path.exists(st):
            s = json.load(open(st))
            res["stats"].append(s)
            res["rt_fail"] += s.get("roundtrip_fail", 0)
    return res


def merge_stats(stats):
    out = {}
    for s in stats:
        for k, v in s.items():
            if isinstance(v, int):
                if k == "max_alloc":
                    out[k] = max(out.get(k, 0), v)
                else:
                    out[k] = out.get(k, 0) + v
    return out


def main(ctx):
    cov = ctx.cov
    cov["checker_cmd"] = f"cd lean && lake build {PROP_MOD} && lake env lean .cache/audit/C14.lean  (#print axioms)"
    cov["trusted_base"] = V.TRUSTED_BASE + [
        "modelled, not verified: the `bitfield-rle` 0.2.1 encoder and `varinteger::encode` are transcribed by hand "
        "(Model/Codec.lean) and tied by the codec correspondence suite only",
        "bytes are UInt8 lists; `usize`/`u64` arithmetic of rle_decode is modelled on Nat with the overflow site explicit",
    ]
    ctx.assumptions += [
        "harness built with overflow-checks and debug-assertions (the profile the pinned tests use)",
        "allocation bound checked on the implementation: 32 * MAX_DECODED_BYTES + 1 MiB peak per decode call",
    ]
    cov["repo"] = V.repo_state()

    tie_ok, out = V.regen_consts(ctx)
    cov["consts_regenerated"] = tie_ok
    # if a constant can no longer be extracted the previous Consts.lean stays in place: the tie is
    # broken (reported below) but the model still runs, so the search for a failing input goes on
    drv_ok, _ = V.build_driver(ctx)
    proof_ok, rep = V.audit(ctx, PROP_MOD)
    if not tie_ok:
        proof_ok = False
        rep["tie"] = out.strip()
    cov["obligations"] = rep.get("theorems_in_closure", 0) or 1
    cov["discharged"] = cov["obligations"] if proof_ok else 0
    cov["property_theorems"] = rep.get("property_theorems", [])
    cov["axioms"] = rep.get("axioms", {})
    if ctx.tier == "thorough" and proof_ok:
        lc_ok, lc_out = V.leanchecker(rep["closure"])
        cov["leanchecker_ok"] = lc_ok
        proof_ok = proof_ok and lc_ok
    ctx.log(f"proofs: build+audit ok={proof_ok} ({cov['obligations']} theorems in closure)")

    h_ok, hout = V.build_harness(ctx, ["codec"])
    if not h_ok:
        ctx.violation("harness-build", "The correspondence harness no longer builds against /repo:\n" + hout[-3000:], found_input=False)
        cov.update({"evaluations": 0, "distinct_nontrivial": 0, "rule": "harness build failed", "samples": []})
        ctx.finish()
    if not drv_ok:
        ctx.violation("model-build", "The Lean model driver does not build (constants regenerated from /repo make a model definition ill-formed):\n" + out, found_input=False)
        cov.update({"evaluations": 0, "distinct_nontrivial": 0, "rule": "model build failed", "samples": []})
        ctx.finish()

    runs = []
    corpus = os.path.join(V.VERIF, "corpus", "codec.txt")
    if os.path.exists(corpus):
        runs.append(run_codec_suite(ctx, ["replay", corpus], "corpus", 1))
    runs.append(run_codec_suite(ctx, [ctx.tier], "campaign", V.NCPU))
    def concrete(rs):
        return any(r["crash"] or r["panic"] or r["alloc_over"] or r["rt_fail"] for r in rs)
    if not proof_ok and not concrete(runs):
        # the proof no longer checks: widen the search for a concrete failing input
        ctx.log("proof obligation broken; running the intensified search")
        save = ctx.seed
        for extra in range(1, 4):
            ctx.seed = save + 7919 * extra
            runs.append(run_codec_suite(ctx, ["quick"], f"search{extra}", V.NCPU))
            if concrete(runs):
                break
        ctx.seed = save

    total = sum(r["cases"] for r in runs)
    nontrivial = set().union(*[r["nontrivial"] for r in runs])
    stats = merge_stats([s for r in runs for s in r["stats"]])
    cov["evaluations"] = total
    cov["traces_validated_against_impl"] = total
    cov["distinct_nontrivial"] = len(nontrivial)
    cov["rule"] = ("request lines of the codec suite: corpus of past failures, decoder inputs enumerated exhaustively "
                   f"up to {3 if ctx.tier == 'thorough' else 2} bytes (two references), structured (reference, inputs) round trips "
                   "with empty/varying lengths and 0x00/0xFF runs, 2 mutations of every real encoding, varint-heavy garbage; "
                   "distinct = distinct request line; non-trivial = an encode request with >= 1 input, a decode that returns ok, "
                   "or a decode error on >= 2 payload bytes")
    cov["exhaustive"] = False
    cov["exhaustive_part"] = f"all byte strings of length <= {3 if ctx.tier == 'thorough' else 2} as decoder input"
    cov["generator_distribution"] = stats
    cov["alloc_bound_bytes"] = runs[0]["alloc_bound"]
    cov["samples"] = [s for r in runs for s in r["samples"]][:8]

    found = False
    for r in runs:
        for rq, why in r["crash"]:
            ctx.violation("crash", f"# decoder killed the harness process ({why})\n{rq}")
            found = True
            break
        for rq, im, md in r["panic"][:1]:
            ctx.violation("panic", f"# decode panicked on the implementation (model: {md})\n{rq}")
            found = True
        for rq, alloc in r["alloc_over"][:1]:
            ctx.violation("alloc", f"# decode allocated {alloc} bytes (> bound {r['alloc_bound']})\n{rq}")
            found = True
        if r["rt_fail"]:
            # find the failing encode request: an enc line whose following dec result differs
            ctx.violation("roundtrip", "# encode/decode round trip failed on the implementation; see codec.stats / re-run replay\n"
                          + "\n".join(x[0] for x in r["mismatch"][:3]))
            found = True
    mism = [m for r in runs for m in r["mismatch"]]
    cov["disagreements_checked"] = len(mism)
    if mism and not found:
        rq, im, md = mism[0]
        # a disagreement on a decode of a legitimate encoding or on an encode is a round-trip
        # failure of one of the two sides; decide which by the implementation's own round trip
        ctx.violation("correspondence",
                      f"# model and implementation disagree ({len(mism)} cases); first:\n{rq}\n# impl:  {im}\n# model: {md}\n"
                      "# correspondence suite: codec; no property monitor failed on the implementation",
                      found_input=False)
    if not proof_ok and not ctx.violations:
        why = json.dumps({k: rep.get(k) for k in ("tie", "build_ok", "forbidden", "bad_axioms", "audit_missing")}, indent=1)
        ctx.violation("proof",
                      f"# proof obligations of {PROP_MOD} no longer check against the constants regenerated from /repo\n"
                      f"{why}\n{rep.get('build_output', rep.get('audit_output', ''))[-3000:]}",
                      found_input=False)
    ctx.finish()
