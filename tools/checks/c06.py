from . import session

FAMILIES = [('spec', 1.0), ('specack', 0.4), ('disc', 0.3), ('solo', 0.3), ('specdisc', 0.6)]

def main(ctx):
    session.run(ctx, "C06", FAMILIES, quick_count=100, thorough_count=4000, prop_mod=session.PROP_MODS.get("C06"))
