"""C17 — session behaviour is a function of its inputs, not of hash order.

Every scenario is executed three times (fresh HashMap random states and fresh handshake numbers
each time); the request lists, game logs, snapshots and per-address event sequences of the three
runs must be identical, and each run must be accepted by the order-free Lean model (whose
iteration order is fixed: ascending address / handle)."""
import os, re, subprocess
from concurrent.futures import ThreadPoolExecutor
from . import session
from .. import vlib as V

FAMILIES = [("mix", 1.0), ("three", 0.6), ("delay", 0.3), ("death3", 0.5), ("death", 0.3), ("hsloss", 0.4)]


def canon_events(line):
    body = line[2:].strip()
    if not body.startswith("ev ") or len(body) <= 3:
        return line
    evs = body[3:].split(";")
    groups = {}
    for e in evs:
        parts = e.split(":")
        addr = parts[-1] if parts[0] == "DesyncDetected" else ("-" if parts[0] == "WaitRecommendation" else (parts[1] if len(parts) > 1 else "?"))
        groups.setdefault(addr, []).append(e)
    out = []
    for a in sorted(groups):
        g = groups[a]
        ds = sorted(x for x in g if x.startswith("DesyncDetected"))
        out.append(";".join([x for x in g if not x.startswith("DesyncDetected")] + ds))
    return "= ev " + " | ".join(out)


def canon(trace_text):
    out = []
    for line in trace_text.splitlines():
        if line.startswith(("C ", "G", "A ")):
            out.append(line)
        elif line.startswith("= "):
            out.append(canon_events(line))
    return out


def main(ctx):
    # repetition check on a sample of scenarios, then the usual acceptance campaign
    V.regen_consts(ctx)
    V.build_driver(ctx)
    ok, _ = V.build_harness(ctx, ["world"])
    reps = {"scenarios": 0, "runs": 0, "differences": 0}
    if ok:
        n = 60 if ctx.tier == "quick" else 1500
        od = os.path.join(ctx.rundir, "rep")
        for fam, w in FAMILIES:
            session.gen_family(ctx, fam, max(1, int(n * w / 2)), ctx.seed + 17, od, V.NCPU)
        # corpus scenarios (past order dependences) are repeated first
        cdir = os.path.join(V.VERIF, "corpus", "C17")
        if os.path.isdir(cdir):
            for f in os.listdir(cdir):
                if f.endswith(".scn"):
                    import shutil
                    shutil.copy(os.path.join(cdir, f), os.path.join(od, "corpus-" + f))
        scns = sorted(f for f in os.listdir(od) if f.endswith(".scn"))

        def rerun(f):
            texts = []
            for k in range(4):
                tr = os.path.join(od, f"{f[:-4]}.rep{k}.trace")
                subprocess.run([os.path.join(V.BIN, "world"), "run", os.path.join(od, f), tr], capture_output=True, timeout=600)
                texts.append(canon(open(tr).read()) if os.path.exists(tr) else None)
                if os.path.exists(tr):
                    os.remove(tr)
            return f, texts

        with ThreadPoolExecutor(max_workers=V.NCPU) as ex:
            for f, texts in ex.map(rerun, scns):
                reps["scenarios"] += 1
                reps["runs"] += 4
                base = texts[0]
                for k in (1, 2, 3):
                    if texts[k] != base:
                        reps["differences"] += 1
                        # first differing line
                        a, b = base or [], texts[k] or []
                        i = next((i for i in range(min(len(a), len(b))) if a[i] != b[i]), min(len(a), len(b)))
                        body = (f"# two runs of the same scenario (same API calls, same packets in the same order, same clock) differ\n"
                                f"# run 0: {a[i] if i < len(a) else '<end>'}\n# run {k}: {b[i] if i < len(b) else '<end>'}\n"
                                + open(os.path.join(od, f)).read())
                        ctx.violation("repetition", body)
                        break
    ctx.cov["repetition"] = reps
    session.run(ctx, "C17", FAMILIES, quick_count=80, thorough_count=3000, prop_mod=session.PROP_MODS.get("C17"))
