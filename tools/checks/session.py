"""Generic driver of the session-level checks (all properties decided on traces of real sessions).

For a property P:
  1. regenerate the constants, build the driver, build + audit GgrsModel.Properties.P (proofs);
  2. build the harness against /repo's working tree;
  3. run the corpus scenarios of P, then the generated campaign of P's families (sharded);
  4. `ggrs_model accept` on every trace: the model must reproduce every output of every session
     (correspondence); `ggrs_model monitor P` judges the implementation traces (oracle);
  5. report: monitor findings are violations with the scenario as replay (unless they match a
     KNOWN_FINDINGS entry); a broken proof / tie / correspondence inside P's projection without
     a monitor finding is a violation `no-failing-input-found` after an intensified search.
"""
import json, os, re, shutil, subprocess, time
from concurrent.futures import ThreadPoolExecutor
from .. import vlib as V

# mismatch classes (as printed by `ggrs_model accept`) that belong to each property's projection
PROJECTION = {
    "C01": ["result:adv", "wire:Input", "wire:InputAck", "snap:cur", "snap:conf", "snap:st", "snap:lcf", "snap:lsf", "build"],
    "C02": ["result:adv", "snap:cur", "snap:lsf", "build"],
    "C03": ["result:adv", "snap:conf", "snap:st", "build"],
    "C04": ["result:adv", "snap:cur", "snap:conf", "snap:lcf", "build"],
    "C05": ["snap:evq", "result:adv", "result:events", "wire:Input", "wire:InputAck", "wire:SyncRequest", "wire:SyncReply", "snap:eps", "snap:run", "build"],
    "C06": ["result:adv", "wire:Input", "snap:behind", "snap:lrf", "snap:nsf", "snap:cur", "build"],
    "C07": ["snap:evq", "result:adv", "result:events", "result:disc", "snap:st", "snap:df", "snap:eps", "build"],
    "C08": ["result:adv", "result:poll", "result:events", "wire:InputAck", "wire:SyncRequest", "wire:SyncReply", "snap:st", "snap:eps", "snap:run", "build"],
    "C09": ["snap:evq", "result:events", "wire:ChecksumReport", "snap:lch", "snap:eps", "result:adv", "build"],
    "C10": ["snap:evq", "result:adv", "result:events", "snap:st", "snap:df", "build"],
    "C11": ["result:setdelay", "result:adv", "wire:Input", "snap:out", "snap:st", "build"],
    "C12": ["result:events", "result:adv", "snap:run", "wire:SyncRequest", "wire:SyncReply", "wire:KeepAlive", "snap:evq", "build"],
    "C13": ["result:adv", "result:addin", "snap:cur", "build"],
    "C15": ["snap:evq", "snap:ahead", "wire:QualityReport", "wire:QualityReply", "result:stats", "result:events", "build"],
    "C16": ["build", "result:adv", "result:addin", "result:setdelay", "result:disc", "result:stats", "result:poll", "snap:st", "snap:df"],
    "C17": None,   # everything observable
    "C18": ["snap:evq", "snap:out", "snap:lch", "snap:eps", "result:events", "build"],
}


# property theorem modules (filled in as proofs land)
PROP_MODS = {f"C{i:02d}": f"GgrsModel.Properties.C{i:02d}" for i in range(1, 19)}


def in_projection(prop, cls):
    proj = PROJECTION.get(prop)
    return True if proj is None else cls in proj


def gen_family(ctx, family, count, seed, outdir, nshards):
    """Runs `world gen` in shards. Returns list of trace files + stats."""
    os.makedirs(outdir, exist_ok=True)
    nshards = max(1, min(nshards, count))

    def one(shard):
        cmd = [os.path.join(V.BIN, "world"), "gen", family, str(seed), str(count), outdir, str(shard), str(nshards)]
        p = subprocess.run(cmd, capture_output=True, text=True, timeout=3600)
        stats = {}
        try:
            stats = json.loads(p.stdout.strip().splitlines()[-1])
        except Exception:
            stats = {"error": (p.stdout + p.stderr)[-300:], "rc": p.returncode}
        return os.path.join(outdir, f"{family}.{shard}.trace"), stats, p.returncode

    with ThreadPoolExecutor(max_workers=V.NCPU) as ex:
        return list(ex.map(one, range(nshards)))


def judge(trace, prop):
    """accept + monitor on one trace file."""
    with open(trace) as f:
        a = subprocess.run([V.MODEL, "accept"], stdin=f, capture_output=True, text=True)
    with open(trace) as f:
        m = subprocess.run([V.MODEL, "monitor", prop], stdin=f, capture_output=True, text=True)
    return trace, a.stdout, m.stdout, a.returncode, m.returncode


MIS_RE = re.compile(r"MISMATCH scenario=(\S+) sid=(\d+) line=(\d+) class=(\S+) impl=\[(.*)\] model=\[(.*)\]$")
FIND_RE = re.compile(r"FINDING property=(\S+) clause=(\S+) scenario=(\S+) sid=(\d+) line=(\d+) :: (.*)$")
STAT_RE = re.compile(r"STATS (.*)$")


def scenario_file(outdirs, name):
    for d in outdirs:
        for cand in (os.path.join(d, name + ".scn"), name):
            if os.path.exists(cand):
                return cand
    return None


def trigger_holds(trigger, stats_kv, scen_header):
    """Decidable predicates over a scenario that known-finding entries may name."""
    if trigger == "any":
        return True
    if trigger == "three-peers-disconnect":
        return int(stats_kv.get("sessions", "0")) >= 3 and stats_kv.get("disconnect") == "true"
    if trigger == "disconnect":
        return stats_kv.get("disconnect") == "true"
    if trigger == "setdelay":
        return "setdelay" in scen_header
    return False


def run(ctx, prop, families, quick_count, thorough_count, prop_mod=None, extra_assumptions=(), level="proof",
        claim_text=None):
    cov = ctx.cov
    cov["repo"] = V.repo_state()
    cov["trusted_base"] = V.TRUSTED_BASE + [
        "modelled, not verified: see DESIGN.md §3 (frames as Int, u8 inputs, bincode framing of Message and the real UDP socket outside the model, "
        "hash maps as sorted association lists, nonces/magic taken from the wire, virtual clock, f32 executed not reasoned about)",
    ]
    ctx.assumptions += list(extra_assumptions) + [
        "sessions are driven through the public API over an in-memory NonBlockingSocket with the verif-hooks virtual clock",
        "harness game is a deterministic fold of (input value, Disconnected flag) per player",
    ]
    tie_ok, tie_out = V.regen_consts(ctx)
    cov["consts_regenerated"] = tie_ok
    drv_ok, drv_out = V.build_driver(ctx)
    proof_ok, rep = (True, {})
    if prop_mod:
        proof_ok, rep = V.audit(ctx, prop_mod)
        cov["checker_cmd"] = f"cd lean && lake build {prop_mod} && lake env lean <audit file with #print axioms for every property theorem>"
        cov["obligations"] = rep.get("theorems_in_closure", 0) or 1
        cov["discharged"] = cov["obligations"] if proof_ok else 0
        cov["property_theorems"] = rep.get("property_theorems", [])
        cov["axioms"] = rep.get("axioms", {})
        if ctx.tier == "thorough" and proof_ok:
            lc_ok, _ = V.leanchecker(rep["closure"])
            cov["leanchecker_ok"] = lc_ok
            proof_ok = proof_ok and lc_ok
    else:
        cov["checker_cmd"] = "ggrs_model accept (trace acceptance by the executable Lean model) + ggrs_model monitor " + prop
    if not tie_ok:
        proof_ok = False
        rep["tie"] = tie_out.strip()
    ctx.log(f"proofs: ok={proof_ok} ({cov.get('obligations', 0)} theorems in closure)")

    h_ok, hout = V.build_harness(ctx, ["world"])
    if not h_ok:
        ctx.violation("harness-build", "The correspondence harness no longer builds against /repo:\n" + hout[-3000:], found_input=False)
        cov.update({"evaluations": 1, "distinct_nontrivial": 0, "rule": "harness build failed", "samples": []})
        ctx.finish(level)
    if not drv_ok:
        ctx.violation("model-build", "The Lean model driver does not build with the constants regenerated from /repo:\n" + drv_out[-3000:], found_input=False)
        cov.update({"evaluations": 1, "distinct_nontrivial": 0, "rule": "model build failed", "samples": []})
        ctx.finish(level)

    traces, outdirs, gen_stats = [], [], []
    # corpus first
    cdir = os.path.join(V.VERIF, "corpus", prop)
    if os.path.isdir(cdir):
        od = os.path.join(ctx.rundir, "corpus")
        os.makedirs(od, exist_ok=True)
        outdirs.append(cdir)
        for f in sorted(os.listdir(cdir)):
            if f.endswith(".scn"):
                tr = os.path.join(od, f[:-4] + ".trace")
                subprocess.run([os.path.join(V.BIN, "world"), "run", os.path.join(cdir, f), tr], capture_output=True, timeout=600)
                if os.path.exists(tr):
                    traces.append(tr)

    def campaign(tag, seed, scale):
        for fam, weight in families:
            n = max(1, int((thorough_count if ctx.tier == "thorough" else quick_count) * weight * scale))
            od = os.path.join(ctx.rundir, f"{tag}-{fam}")
            outdirs.append(od)
            for tr, st, rc in gen_family(ctx, fam, n, seed, od, V.NCPU):
                gen_stats.append(st)
                if os.path.exists(tr):
                    traces.append(tr)
                if rc != 0:
                    ctx.violation("harness-crash", f"# the harness process died while generating family {fam}: {st}", found_input=False)

    campaign("gen", ctx.seed, 1.0)

    def evaluate(trs):
        with ThreadPoolExecutor(max_workers=V.NCPU) as ex:
            return list(ex.map(lambda t: judge(t, prop), trs))

    results = evaluate(traces)

    def collect(results):
        mism, finds, stats = [], [], {}
        blocks = accepted = scen = 0
        for tr, aout, mout, arc, mrc in results:
            for line in aout.splitlines():
                m = MIS_RE.match(line)
                if m:
                    mism.append(dict(trace=tr, scenario=m.group(1), sid=int(m.group(2)), line=int(m.group(3)),
                                     cls=m.group(4), impl=m.group(5), model=m.group(6)))
                m = re.match(r"SUMMARY scenarios=(\d+) sessions=(\d+) blocks=(\d+) accepted=(\d+)", line)
                if m:
                    scen += int(m.group(1)); blocks += int(m.group(3)); accepted += int(m.group(4))
            for line in mout.splitlines():
                m = FIND_RE.match(line)
                if m:
                    finds.append(dict(trace=tr, prop=m.group(1), clause=m.group(2), scenario=m.group(3), sid=int(m.group(4)),
                                      line=int(m.group(5)), detail=m.group(6)))
                m = STAT_RE.match(line)
                if m:
                    kv = dict(t.split("=", 1) for t in m.group(1).split() if "=" in t)
                    stats[kv.get("scenario", "?")] = kv
            if arc not in (0, 1) or mrc not in (0, 1):
                mism.append(dict(trace=tr, scenario="?", sid=0, line=0, cls="build", impl="trace", model=f"driver crashed rc={arc}/{mrc}"))
        return mism, finds, stats, scen, blocks, accepted

    mism, finds, stats, scen, blocks, accepted = collect(results)
    rel_mism = [m for m in mism if in_projection(prop, m["cls"])]

    if (not proof_ok or rel_mism) and not finds:
        ctx.log("proof/tie/correspondence broken and no monitor finding yet: intensified search")
        for extra in range(1, 3):
            before = len(traces)
            campaign(f"search{extra}", ctx.seed + 104729 * extra, 2.0)
            r2 = evaluate(traces[before:])
            m2, f2, s2, sc2, b2, a2 = collect(r2)
            mism += m2; finds += f2; stats.update(s2); scen += sc2; blocks += b2; accepted += a2
            rel_mism = [m for m in mism if in_projection(prop, m["cls"])]
            if finds:
                break

    # ---- evidence ---------------------------------------------------------------------------
    def nontrivial(kv):
        return int(kv.get("sims", "0")) > 0 and (int(kv.get("resims", "0")) > 0 or int(kv.get("stalls", "0")) > 0
                                                 or kv.get("disconnect") == "true" or int(kv.get("sessions", "0")) >= 1)
    cov["evaluations"] = scen
    cov["traces_validated_against_impl"] = scen
    cov["api_calls_replayed_by_model"] = blocks
    cov["api_calls_accepted_by_model"] = accepted
    cov["distinct_nontrivial"] = len({k for k, kv in stats.items() if nontrivial(kv)})
    cov["rule"] = ("scenarios = corpus + closed-loop generated op sequences (families: " + ", ".join(f for f, _ in families) +
                   "); distinct = distinct scenario (distinct derived seed); non-trivial = at least one frame simulated and at least one "
                   "rollback, stall or disconnect; every API call of every session is replayed by the Lean model and every output compared")
    agg = {}
    for kv in stats.values():
        for k in ("calls", "advcalls", "sims", "resims", "loads", "stalls", "predicted"):
            agg[k] = agg.get(k, 0) + int(kv.get(k, "0"))
        agg["maxdepth"] = max(agg.get("maxdepth", 0), int(kv.get("maxdepth", "0")))
        agg["maxframe"] = max(agg.get("maxframe", 0), int(kv.get("maxframe", "0")))
        agg["with_disconnect"] = agg.get("with_disconnect", 0) + (kv.get("disconnect") == "true")
        agg["with_panic"] = agg.get("with_panic", 0) + (kv.get("panic") == "true")
    cov["generator_distribution"] = agg
    cov["generator_ops"] = sum(s.get("ops", 0) for s in gen_stats if isinstance(s, dict))
    cov["mismatches_in_projection"] = len(rel_mism)
    cov["mismatches_outside_projection"] = len(mism) - len(rel_mism)
    cov["disagreements_checked"] = len(mism)
    samples = []
    for name in list(stats)[:3]:
        sf = scenario_file(outdirs, name)
        if sf:
            ops = open(sf).read().splitlines()
            samples.append({"scenario": name, "ops": len(ops), "first_ops": ops[:6], "stats": stats[name]})
    cov["samples"] = samples or [{"note": "no scenario produced"}]

    # ---- verdict ----------------------------------------------------------------------------
    known = V.known_findings(prop)
    reported = set()
    for f in finds:
        kv = stats.get(f["scenario"], {})
        sf = scenario_file(outdirs, f["scenario"])
        header = open(sf).read() if sf else ""
        hit = None
        for k in known:
            if k["clause"] == f["clause"] and trigger_holds(k["trigger"], kv, header):
                hit = k
                break
        if hit:
            line = f"KNOWN-FINDING: property={prop} {hit['what']}"
            if line not in ctx.known:
                ctx.known.append(line)
            continue
        key = (f["clause"],)
        if key in reported:
            continue
        reported.add(key)
        body = f"# {prop} clause {f['clause']} fails on the implementation: {f['detail']}\n# scenario {f['scenario']} session {f['sid']} trace line {f['line']}\n"
        body += f"# replay: harness `world run <this file> <trace>` then `ggrs_model monitor {prop} < trace`\n"
        if sf:
            body += open(sf).read()
        ctx.violation(f"{f['clause']}", body, found_input=True)
    cov["findings"] = len(finds)
    if rel_mism and not ctx.violations:
        m = rel_mism[0]
        sf = scenario_file(outdirs, m["scenario"])
        body = (f"# correspondence broken inside the projection of {prop}: class {m['cls']}\n# scenario {m['scenario']} session {m['sid']} trace line {m['line']}\n"
                f"# impl:  {m['impl'][:600]}\n# model: {m['model'][:600]}\n# {len(rel_mism)} diverging sessions in total; no monitor of {prop} failed on the implementation\n")
        if sf:
            body += open(sf).read()
        ctx.violation("correspondence", body, found_input=False)
    if not proof_ok and not ctx.violations:
        why = json.dumps({k: rep.get(k) for k in ("tie", "build_ok", "forbidden", "bad_axioms", "audit_missing")}, indent=1)
        ctx.violation("proof", f"# proof obligations of {prop_mod} no longer check\n{why}\n{rep.get('build_output', rep.get('audit_output', ''))[-3000:]}",
                      found_input=False)
    ctx.finish(level)
