"""C08 — malformed or foreign packets are discarded without panic, effect or unbounded allocation.

Session level: families `forge` (mutated copies of in-flight packets, strangers' handshake replies)
and `zombie` (a stranger sending from a dead peer's address), trace acceptance + monitor C08.
Payload level: the compressed payload of an Input packet is attacker-controlled, so the decoder
part of the codec suite (C14's harness: corpus of past failures, exhaustive short byte strings,
mutated real encodings, varint-heavy garbage, runs that fit the size cap one by one but not
together) runs here too; a panic, a crash, an allocation beyond the bound or a decode result that
differs from the model (whose totality and output cap are theorems: C14_total) is a C08 violation.
"""
import os
from . import session, c14
from .. import vlib as V

FAMILIES = [('forge', 1.0), ('zombie', 0.5)]


def payload_stage(ctx):
    V.regen_consts(ctx)
    drv_ok, _ = V.build_driver(ctx)
    h_ok, hout = V.build_harness(ctx, ["codec"])
    if not (drv_ok and h_ok):
        return  # session.run reports build problems
    runs = []
    corpus = os.path.join(V.VERIF, "corpus", "codec.txt")
    if os.path.exists(corpus):
        runs.append(c14.run_codec_suite(ctx, ["replay", corpus], "payload-corpus", 1))
    runs.append(c14.run_codec_suite(ctx, [ctx.tier], "payload", V.NCPU))
    ctx.cov["payload_decoder_cases"] = sum(r["cases"] for r in runs)
    for r in runs:
        for rq, why in r["crash"][:1]:
            ctx.violation("payload-crash", f"# decoding this Input payload killed the process ({why})\n{rq}")
        for rq, im, md in r["panic"][:1]:
            ctx.violation("payload-panic", f"# decoding this Input payload panicked (model: {md})\n{rq}")
        for rq, alloc in r["alloc_over"][:1]:
            ctx.violation("payload-alloc", f"# decoding this Input payload allocated {alloc} bytes (> bound {r['alloc_bound']})\n{rq}")
        dec = [m for m in r["mismatch"] if m[0].startswith("dec ")]
        for rq, im, md in dec[:1]:
            ctx.violation("payload-decode", "# the decoder's answer for this Input payload differs from the model's "
                          f"(the model rejects what exceeds the output cap and never over-allocates)\n{rq}\n# impl:  {im[:300]}\n# model: {md[:300]}")


def main(ctx):
    payload_stage(ctx)
    session.run(ctx, "C08", FAMILIES, quick_count=100, thorough_count=4000, prop_mod=session.PROP_MODS.get("C08"))
