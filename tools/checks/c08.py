from . import session

FAMILIES = [('forge', 1.0), ('zombie', 0.5)]

def main(ctx):
    session.run(ctx, "C08", FAMILIES, quick_count=100, thorough_count=4000, prop_mod=session.PROP_MODS.get("C08"))
