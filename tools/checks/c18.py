from . import session

FAMILIES = [('events', 0.06), ('long', 0.04), ('specdeath', 0.4), ('mix', 0.6), ('death', 0.4), ('disc', 0.3), ('solo', 0.5)]

def main(ctx):
    session.run(ctx, "C18", FAMILIES, quick_count=100, thorough_count=4000, prop_mod=session.PROP_MODS.get("C18"))
