from . import session

FAMILIES = [('mix', 1.0), ('clean', 0.2), ('lockstep', 0.2), ('spec', 0.3), ('sync', 0.5), ('long', 0.02)]

def main(ctx):
    session.run(ctx, "C02", FAMILIES, quick_count=100, thorough_count=4000, prop_mod=session.PROP_MODS.get("C02"))
