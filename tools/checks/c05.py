from . import session

FAMILIES = [('loss', 1.0), ('specack', 0.5), ('mix', 0.3), ('lockstep', 0.3), ('hsloss', 0.3)]

def main(ctx):
    session.run(ctx, "C05", FAMILIES, quick_count=100, thorough_count=4000, prop_mod=session.PROP_MODS.get("C05"))
