from . import session

FAMILIES = [('sync', 1.0), ('syncglitch', 1.0)]

def main(ctx):
    session.run(ctx, "C13", FAMILIES, quick_count=100, thorough_count=4000, prop_mod=session.PROP_MODS.get("C13"))
