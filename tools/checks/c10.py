from . import session

FAMILIES = [('death3', 1.0)]

def main(ctx):
    session.run(ctx, "C10", FAMILIES, quick_count=100, thorough_count=4000, prop_mod=session.PROP_MODS.get("C10"))
