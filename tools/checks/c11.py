from . import session

FAMILIES = [('delay', 1.0)]

def main(ctx):
    session.run(ctx, "C11", FAMILIES, quick_count=100, thorough_count=4000, prop_mod=session.PROP_MODS.get("C11"))
