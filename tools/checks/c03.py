from . import session

FAMILIES = [('mix', 1.0), ('clean', 0.2), ('disc', 0.4), ('death', 0.4), ('long', 0.02)]

def main(ctx):
    session.run(ctx, "C03", FAMILIES, quick_count=100, thorough_count=4000, prop_mod=session.PROP_MODS.get("C03"))
