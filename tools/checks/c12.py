from . import session

FAMILIES = [('mix', 0.6), ('loss', 0.6), ('idle', 0.4), ('events', 0.05), ('death', 0.4), ('specdeath', 0.5), ('zombie', 0.3), ('hsloss', 0.3)]

def main(ctx):
    session.run(ctx, "C12", FAMILIES, quick_count=100, thorough_count=4000, prop_mod=session.PROP_MODS.get("C12"))
