from . import session

FAMILIES = [('mix', 1.0), ('lockstep', 0.5), ('loss', 0.5), ('long', 0.02)]

def main(ctx):
    session.run(ctx, "C04", FAMILIES, quick_count=100, thorough_count=4000, prop_mod=session.PROP_MODS.get("C04"))
