from . import session

FAMILIES = [('desync', 1.0), ('glitch', 0.8)]

def main(ctx):
    session.run(ctx, "C09", FAMILIES, quick_count=100, thorough_count=4000, prop_mod=session.PROP_MODS.get("C09"))
