"""C16 — invalid configurations and API misuse are rejected with errors, never panics.
Builder suite (bounded-exhaustive call sequences on the real SessionBuilder vs the Lean Builder
model, with a poll/advance smoke run of every session that starts) + the `misuse` scenario family
(misuse calls inserted into valid runs; trace acceptance checks result kind and unchanged behaviour)."""
import os, subprocess
from . import session
from .. import vlib as V

FAMILIES = [("misuse", 1.0)]


def builder_suite(ctx):
    ok, out = V.build_harness(ctx, ["builder"])
    if not ok:
        return None
    prefix = os.path.join(ctx.rundir, "builder")
    maxlen, nrand = (3, 20000) if ctx.tier == "thorough" else (2, 4000)
    subprocess.run([os.path.join(V.BIN, "builder"), str(maxlen), str(nrand), str(ctx.seed), prefix], check=False, timeout=3600)
    with open(prefix + ".req") as fi, open(prefix + ".model", "w") as fo:
        subprocess.run([V.MODEL, "builder"], stdin=fi, stdout=fo, check=False)
    reqs = open(prefix + ".req").read().splitlines()
    imps = open(prefix + ".impl").read().splitlines()
    mods = open(prefix + ".model").read().splitlines()
    res = {"cases": len(reqs), "mismatch": [], "panic": [], "dist": {}}
    for i, rq in enumerate(reqs):
        im = imps[i] if i < len(imps) else "<missing>"
        md = mods[i] if i < len(mods) else "<missing>"
        key = im.split("@")[0]
        res["dist"][key] = res["dist"].get(key, 0) + 1
        if "PANIC" in im:
            res["panic"].append((rq, im, md))
        elif im != md:
            res["mismatch"].append((rq, im, md))
    return res


def main(ctx):
    V.regen_consts(ctx)
    V.build_driver(ctx)
    b = builder_suite(ctx)
    if b is None:
        ctx.violation("harness-build", "builder harness does not build", found_input=False)
    else:
        ctx.cov["builder_suite"] = {"sequences": b["cases"], "exhaustive_up_to_length": 3 if ctx.tier == "thorough" else 2,
                                    "outcomes": b["dist"], "mismatches": len(b["mismatch"])}
        for rq, im, md in b["panic"][:1]:
            ctx.violation("builder-panic", f"# a builder call sequence / started session panicked\n{rq}\n# impl: {im}\n# model: {md}")
        for rq, im, md in b["mismatch"][:1]:
            # the model's answer is the documented validity predicate (theorem C16_builder): a
            # disagreement is a configuration accepted or rejected against the documentation
            ctx.violation("builder-validity", f"# the builder's verdict differs from the documented validity predicate\n{rq}\n# impl: {im}\n# documented (model): {md}")
    session.run(ctx, "C16", FAMILIES, quick_count=100, thorough_count=3000, prop_mod=session.PROP_MODS.get("C16"))
