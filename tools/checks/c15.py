from . import session

FAMILIES = [('timesync', 1.0), ('clean', 0.4)]

def main(ctx):
    session.run(ctx, "C15", FAMILIES, quick_count=100, thorough_count=4000, prop_mod=session.PROP_MODS.get("C15"))
