from . import session

FAMILIES = [('mix', 1.0), ('clean', 0.3), ('long', 0.02), ('lockstep', 0.15)]

def main(ctx):
    session.run(ctx, "C01", FAMILIES, quick_count=100, thorough_count=4000, prop_mod=session.PROP_MODS.get("C01"))
