#!/bin/bash
# usage: seed_verify.sh <worktree> <seed-id>
# Confirms a seeded change in its scratch worktree: (1) with the change the pinned suite is green
# and the demonstration fails, (2) without it the demonstration passes. Copies the artifacts to
# /verif/seeded/<seed-id>/.
set -u
WT=$1; ID=$2
OUT=/verif/seeded/$ID
mkdir -p $OUT
cd $WT || exit 2
export CARGO_NET_OFFLINE=true
cp patch.diff $OUT/patch.diff
cp SEEDED.md $OUT/SEEDED.md 2>/dev/null
DEMO=$(ls tests/seeded_*.rs | head -1)
cp $DEMO $OUT/
DEMONAME=$(basename $DEMO .rs)
{
echo "== with the change: full suite (demo included) =="
cargo test --offline --no-fail-fast 2>&1 | grep -E "^test result|FAILED|^test .* FAILED|Running"
echo "== without the change: demonstration only =="
git apply -R patch.diff
cargo test --offline --test $DEMONAME 2>&1 | grep -E "^test result|FAILED"
git apply patch.diff
} > $OUT/verify.log 2>&1
echo done $ID
